// Package c10util runs source text and operator applications for check C10 the way a host
// does (syntax.EvaluateExpr, then reporting the value like `arrai eval`), inside a process
// that cannot reach the network, run commands or touch the real file system.
package c10util

import (
	"context"
	"errors"
	"io"
	"net/http"
	"os"
	"regexp"
	"runtime/debug"
	"strings"
	"sync/atomic"

	"github.com/arr-ai/wbnf/parser"
	"github.com/spf13/afero"

	"github.com/arr-ai/arrai/pkg/arrai"
	"github.com/arr-ai/arrai/pkg/arraictx"
	"github.com/arr-ai/arrai/pkg/buildinfo"
	"github.com/arr-ai/arrai/pkg/ctxfs"
	"github.com/arr-ai/arrai/pkg/ctxrootcache"
	"github.com/arr-ai/arrai/pkg/importcache"
	"github.com/arr-ai/arrai/rel"
	"github.com/arr-ai/arrai/syntax"

	"verif/harness/core"
	"verif/harness/obs"
)

// NetBlocked counts HTTP requests refused by the blocked transport.
var NetBlocked atomic.Int64

type noNet struct{}

func (noNet) RoundTrip(*http.Request) (*http.Response, error) {
	NetBlocked.Add(1)
	return nil, errors.New("network disabled by the verification harness")
}

// Isolate makes the worker process unable to open connections through net/http (the only
// network path of imports), unable to find any executable (`go mod download` of external
// imports fails in exec.LookPath before anything is started), and points the default
// source/runtime file system of arr.ai at an empty in-memory one.
func Isolate() {
	http.DefaultTransport = noNet{}
	http.DefaultClient = &http.Client{Transport: noNet{}}
	os.Setenv("PATH", "")
	os.Unsetenv("GOFLAGS")
}

// NewCtx is a fresh evaluation context: empty in-memory source and runtime file systems
// (with a go.mod at the root so that root-relative imports resolve in memory), new import cache.
func NewCtx() context.Context {
	fs := afero.NewMemMapFs()
	_ = afero.WriteFile(fs, "/go.mod", []byte("module m\n"), 0o644)
	ctx := ctxfs.SourceFsOnto(context.Background(), fs)
	ctx = ctxfs.RuntimeFsOnto(ctx, fs)
	ctx = ctxrootcache.WithRootCache(ctx)
	ctx = buildinfo.WithPackageBuildData(ctx)
	ctx = arraictx.WithArgs(ctx)
	return importcache.WithNewImportCache(ctx)
}

// Stage-tagged outcome of running a source text.
type Out struct {
	obs.Outcome
	Stage string // "eval" or "report": where a panic was raised
}

func guard(stage string, f func()) (sig string) {
	defer func() {
		if r := recover(); r != nil {
			rr := r
			if e, ok := r.(error); ok && ErrKind(e) == "parse" {
				// never render a wbnf ParseError (exponential time): panic(err) of a parse error
				rr = "panic(err) with a grammar-level rejection (wbnf parse error, not rendered)"
			}
			stack := debug.Stack()
			msg, fn, in := core.PanicSite(rr, stack)
			if !in {
				panic(r)
			}
			fn = refineSite(fn, stack)
			sig = "panic|" + MsgClass(msg) + "|" + fn
			if stage != "eval" {
				sig = "panic-in-" + stage + "|" + MsgClass(msg) + "|" + fn
			}
		}
	}()
	f()
	return ""
}

// refineSite: when the first repo frame is a Must* helper that only raises the panic
// (GenericTuple.MustGet, mustCallAll), the calling repo frame is appended so that different
// callers (different defects) get different signatures.
func refineSite(fn string, stack []byte) string {
	if !strings.Contains(fn, ".MustGet") && !strings.HasSuffix(fn, ".mustCallAll") {
		return fn
	}
	lines := strings.Split(string(stack), "\n")
	seen := 0
	for i := 1; i < len(lines); i++ {
		l := lines[i]
		if strings.HasPrefix(l, "\t"+core.RepoDir+"/") && !strings.Contains(l, "zz_verif") {
			seen++
			if seen == 2 {
				f := strings.TrimSpace(lines[i-1])
				if j := strings.LastIndex(f, "("); j > 0 {
					f = f[:j]
				}
				return fn + "<-" + strings.TrimPrefix(f, "github.com/arr-ai/arrai/")
			}
		}
	}
	return fn
}

var groupRE = regexp.MustCompile(`\([^)]*\)|\{[^}]*\}|\[[^\]]*\]|<<[^>]*>>`)
var relTypeRE = regexp.MustCompile(`\*?rel\.[A-Za-z]+`)

// MsgClass abstracts a normalised panic message from the operands that triggered it: the
// message is cut at the first operand-dependent token (quoted data, number, value
// rendering, Go type of the operand). One panic site then gives one signature (or a few
// when it raises different messages) instead of one per operand kind.
func MsgClass(msg string) string {
	// hashing NaN reads through a garbage slice header (arr-ai/hash fastrand): the same
	// defect surfaces as either of these two runtime errors depending on stack contents
	if strings.HasPrefix(msg, "runtime error: invalid memory address") || strings.HasPrefix(msg, "runtime error: index out of range") {
		return "runtime error: nil dereference or index out of range"
	}
	cut := len(msg)
	for _, m := range []string{"\"…\"", "#", "{", "[", "(", "<", "rel.", "*", ", not ", "⦑", "\\"} {
		if i := strings.Index(msg, m); i >= 0 && i < cut {
			cut = i
		}
	}
	c := strings.TrimSpace(msg[:cut])
	if len(c) < 6 {
		// nothing left: abstract the operand-dependent parts in place instead
		c = groupRE.ReplaceAllString(msg, "…")
		c = relTypeRE.ReplaceAllString(c, "rel.T")
		if i := strings.Index(c, ", not "); i > 0 {
			c = c[:i]
		}
	}
	return c
}

// Report renders a value the way `arrai eval` reports it (pkg/arrai.OutputValue to a writer).
func Report(ctx context.Context, v rel.Value) (sig string, err error) {
	sig = guard("report", func() { err = arrai.OutputValue(ctx, v, io.Discard, "") })
	return
}

// RunSource = syntax.EvaluateExpr(ctx, "", src) followed by reporting the value or error.
func RunSource(src string) Out {
	ctx := NewCtx()
	var o Out
	o.Stage = "eval"
	o.Panic = guard("eval", func() { o.V, o.Err = syntax.EvaluateExpr(ctx, "", src) })
	return finish(ctx, o)
}

// EvalExpr evaluates a compiled expression in a scope, then reports the value or error.
func EvalExpr(ctx context.Context, e rel.Expr, sc rel.Scope) Out {
	return finish(ctx, EvalOnly(ctx, e, sc))
}

// EvalOnly evaluates without the reporting step.
func EvalOnly(ctx context.Context, e rel.Expr, sc rel.Scope) Out {
	var o Out
	o.Stage = "eval"
	o.Panic = guard("eval", func() { o.V, o.Err = e.Eval(ctx, sc) })
	return o
}

// finish reports the outcome like a host: a value through pkg/arrai.OutputValue, an error
// through Error(). Grammar-level rejections (wbnf ParseError/FatalError) are NOT rendered
// here: their Error() takes exponential time (one dedicated case of the check shows it).
func finish(ctx context.Context, o Out) Out {
	switch {
	case o.Panic != "":
	case o.Err != nil:
		if ErrKind(o.Err) != "parse" {
			if sig := guard("report", func() { _ = o.Err.Error() }); sig != "" {
				o.Panic, o.Stage = sig, "report"
			}
		}
	case o.V != nil:
		if sig, err := Report(ctx, o.V); sig != "" {
			o.Panic, o.Stage = sig, "report"
		} else if err != nil {
			o.Err = err
		}
	}
	return o
}

// ErrKind is "parse" for an error that is (or wraps, through ContextErr/Unwrap) a
// grammar-level rejection by the wbnf parser, else "other".
func ErrKind(err error) string {
	for i := 0; err != nil && i < 100; i++ {
		switch e := err.(type) {
		case parser.ParseError, parser.FatalError, parser.UnconsumedInputError, *parser.ParseError, *parser.FatalError:
			return "parse"
		case rel.ContextErr:
			err = e.NextErr()
			continue
		case syntax.StopError:
			return "parse"
		}
		if u, ok := err.(interface{ Unwrap() error }); ok {
			err = u.Unwrap()
			continue
		}
		break
	}
	return "other"
}

// ErrText renders an error unless it is a grammar-level rejection.
func ErrText(err error) (s string) {
	if err == nil {
		return ""
	}
	if ErrKind(err) == "parse" {
		if _, ok := err.(parser.UnconsumedInputError); ok {
			return "unconsumed input"
		}
		return "<grammar-level rejection, not rendered>"
	}
	defer func() {
		if r := recover(); r != nil {
			s = "<Error() panicked>"
		}
	}()
	return err.Error()
}

func Describe(o Out) string {
	switch {
	case o.Panic != "":
		return "PANIC " + o.Panic
	case o.Err != nil:
		return "error: " + core.NormMsg(ErrText(o.Err))
	case o.V == nil:
		return "NIL value without error"
	}
	s := o.V.String()
	if len(s) > 80 {
		s = s[:80] + "…"
	}
	return "value: " + s
}

// StdFunc is one function of the safe standard library, found by walking the library tuple.
type StdFunc struct {
	Path string // e.g. "seq.concat"
	F    rel.Value
}

// IsFn reports whether v can be applied as a function value.
func IsFn(v rel.Value) bool {
	switch v.(type) {
	case rel.Closure, *rel.NativeFunction, rel.ExprClosure:
		return true
	}
	return false
}

// StdFuncs walks syntax.SafeStdScope() (depth <= 4) and returns every function value in
// path order, skipping the subtrees in skip (by first path component or full path).
func StdFuncs(skip map[string]bool) []StdFunc {
	root, _ := syntax.SafeStdScope().Get("//")
	var out []StdFunc
	var walk func(prefix string, t rel.Tuple, depth int)
	walk = func(prefix string, t rel.Tuple, depth int) {
		names := t.Names().OrderedNames()
		for _, n := range names {
			p := n
			if prefix != "" {
				p = prefix + "." + n
			}
			if skip[p] {
				continue
			}
			v, _ := t.Get(n)
			switch x := v.(type) {
			case rel.Tuple:
				if depth < 4 {
					walk(p, x, depth+1)
				}
			default:
				if IsFn(v) {
					out = append(out, StdFunc{p, v})
				}
			}
		}
	}
	walk("", root.(rel.Tuple), 1)
	return out
}
