// Package obs observes real arr.ai values through their public API only and maps them to
// the reference model (denotation), plus the self-consistency invariants of DESIGN §2.1.
package obs

import (
	"context"
	"fmt"
	"runtime/debug"

	"github.com/arr-ai/arrai/rel"
	"github.com/arr-ai/arrai/syntax"

	"verif/harness/core"
	"verif/harness/model"
)

var Ctx = context.Background()

// Outcome of evaluating something on the implementation.
type Outcome struct {
	V     rel.Value
	Err   error
	Panic string // signature "panic|msg|site" if the evaluation panicked
}

func (o Outcome) OK() bool { return o.Err == nil && o.Panic == "" && o.V != nil }

// Class is "value", "error" or "panic".
func (o Outcome) Class() string {
	switch {
	case o.Panic != "":
		return "panic"
	case o.Err != nil:
		return "error"
	}
	return "value"
}

// Eval evaluates a compiled expression in a scope under recover().
func Eval(e rel.Expr, sc rel.Scope) (o Outcome) {
	defer func() {
		if r := recover(); r != nil {
			msg, fn, in := core.PanicSite(r, debug.Stack())
			if !in {
				panic(r)
			}
			o = Outcome{Panic: "panic|" + msg + "|" + fn}
		}
	}()
	v, err := e.Eval(Ctx, sc)
	return Outcome{V: v, Err: err}
}

// Compile compiles source under recover().
func Compile(src string) (e rel.Expr, o Outcome) {
	defer func() {
		if r := recover(); r != nil {
			msg, fn, in := core.PanicSite(r, debug.Stack())
			if !in {
				panic(r)
			}
			e, o = nil, Outcome{Panic: "panic|" + msg + "|" + fn}
		}
	}()
	e, err := syntax.Compile(Ctx, "", src)
	return e, Outcome{Err: err}
}

func MustCompile(src string) rel.Expr {
	e, err := syntax.Compile(Ctx, "", src)
	if err != nil {
		panic(fmt.Sprintf("harness: cannot compile %q: %v", src, err))
	}
	return e
}

// Run compiles and evaluates source text.
func Run(src string) Outcome {
	e, o := Compile(src)
	if o.Err != nil || o.Panic != "" {
		return o
	}
	return Eval(e, rel.EmptyScope)
}

// Scope builds a scope from alternating name, value arguments.
func Scope(kv ...any) rel.Scope {
	s := rel.EmptyScope
	for i := 0; i+1 < len(kv); i += 2 {
		s = s.With(kv[i].(string), kv[i+1].(rel.Expr))
	}
	return s
}

type DenoteErr struct{ Msg string }

func (e DenoteErr) Error() string { return e.Msg }

const maxMembers = 5000

// Denote maps a real value to the model. Functions and other non-data values are errors.
// A panic or endless enumeration inside the implementation is reported as an error too.
func Denote(v rel.Value) (m *model.V, err error) {
	defer func() {
		if r := recover(); r != nil {
			if de, ok := r.(DenoteErr); ok {
				m, err = nil, de
				return
			}
			msg, fn, in := core.PanicSite(r, debug.Stack())
			if !in {
				panic(r)
			}
			m, err = nil, DenoteErr{"panic|" + msg + "|" + fn}
		}
	}()
	return denote(v, 0), nil
}

func denote(v rel.Value, depth int) *model.V {
	if depth > 12 {
		panic(DenoteErr{"nesting too deep"})
	}
	switch x := v.(type) {
	case nil:
		panic(DenoteErr{"nil value"})
	case rel.Number:
		return model.Num(x.Float64())
	case rel.Tuple:
		attrs := map[string]*model.V{}
		n := 0
		for e := x.Enumerator(); e.MoveNext(); {
			n++
			if n > maxMembers {
				panic(DenoteErr{"tuple enumeration does not end"})
			}
			name, val := e.Current()
			if _, dup := attrs[name]; dup {
				panic(DenoteErr{"tuple enumerates attribute twice"})
			}
			attrs[name] = denote(val, depth+1)
		}
		return model.TupMap(attrs)
	case rel.Set:
		switch x.(type) {
		case rel.Closure, *rel.NativeFunction, rel.ExprClosure:
			panic(DenoteErr{"function"})
		}
		if _, ok := x.(interface {
			Eval(context.Context, rel.Scope) (rel.Value, error)
		}); !ok {
			panic(DenoteErr{"not a value"})
		}
		var mem []*model.V
		n := 0
		for e := x.Enumerator(); e.MoveNext(); {
			n++
			if n > maxMembers {
				panic(DenoteErr{"set enumeration does not end"})
			}
			mem = append(mem, denote(e.Current(), depth+1))
		}
		s := model.Set(mem...)
		if len(s.Mem) != len(mem) {
			panic(DenoteErr{"set enumerates a member twice"})
		}
		return s
	}
	panic(DenoteErr{fmt.Sprintf("unknown kind %T", v)})
}

// IsFunction reports whether v is a function value (not data).
func IsFunction(v rel.Value) bool {
	switch v.(type) {
	case rel.Closure, *rel.NativeFunction, rel.ExprClosure:
		return true
	}
	return false
}

// SelfCheck evaluates the state invariants of DESIGN §2.1 on a set value whose denotation
// is m; universe is the local universe of candidate members (real values with their
// denotations). It returns the name of the first violated invariant, or "".
func SelfCheck(v rel.Value, m *model.V, universe []Member) (bad string) {
	defer func() {
		if r := recover(); r != nil {
			msg, fn, in := core.PanicSite(r, debug.Stack())
			if !in {
				panic(r)
			}
			bad = "selfcheck-panic|" + msg + "|" + fn
		}
	}()
	s, ok := v.(rel.Set)
	if !ok {
		return ""
	}
	if s.Count() != len(m.Mem) {
		return "count≠members"
	}
	if s.IsTrue() != (len(m.Mem) > 0) {
		return "istrue≠nonempty"
	}
	n := 0
	for e := s.Enumerator(); e.MoveNext(); {
		n++
		if n > maxMembers {
			return "endless-enumeration"
		}
		if !s.Has(e.Current()) {
			return "enumerated-member-not-has"
		}
	}
	for _, u := range universe {
		if s.Has(u.V) != m.Has(u.M) {
			if m.Has(u.M) {
				return "member-not-has"
			}
			return "has-nonmember"
		}
	}
	if !s.Equal(s) {
		return "not-equal-to-itself"
	}
	return ""
}

// Member is a candidate member of the local universe.
type Member struct {
	Src string
	V   rel.Value
	M   *model.V
}
