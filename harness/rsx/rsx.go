// Package rsx is the reachable-representation-space search (DESIGN §2.1): states are
// distinct concrete representations (rel.VerifShape) of data values, transitions are
// operator applications on live values. Generation 0 is every construction path of every
// model set of <= K members over the member alphabet A; later generations are operator
// results small enough to be expanded. States that violate the self-consistency invariants
// are quarantined (reported once, never used as operands).
package rsx

import (
	"encoding/json"
	"fmt"
	"sort"
	"strings"

	"github.com/arr-ai/arrai/rel"

	"verif/harness/core"
	"verif/harness/model"
	"verif/harness/obs"
)

// MemberSrc is the member alphabet A (DESIGN Appendix B), simplest first.
var MemberSrc = []string{
	`0`, `1`, `2`,
	`()`, `(a:0)`, `(a:1)`, `(b:1)`, `(a:1,b:1)`,
	`(@:0,@item:1)`, `(@:0,@item:2)`, `(@:1,@item:1)`, `(@:1,@item:2)`, `(@:2,@item:1)`, `(@:2,@item:2)`, `(@:0,@item:{})`,
	`(@:0,@char:97)`, `(@:0,@char:98)`, `(@:1,@char:97)`, `(@:1,@char:98)`, `(@:2,@char:97)`, `(@:2,@char:98)`, `(@:1,@char:0)`,
	`(@:0,@byte:1)`, `(@:0,@byte:2)`, `(@:1,@byte:1)`, `(@:1,@byte:2)`, `(@:0,@byte:0)`,
	`(@:1,@value:2)`, `(@:1,@value:3)`, `(@:2,@value:2)`, `(@:2,@value:3)`, `(@:"a",@value:1)`,
	`{}`, `{1}`, `"a"`, `[1]`,
}

// SugarSrc are sugar literals and other whole-value construction paths.
var SugarSrc = []string{
	`"a"`, `"b"`, `"ab"`, `"ba"`, `"aa"`, `"abc"`, `1\"a"`, `1\"ab"`, `2\"b"`, `-1\"ab"`,
	`[1]`, `[2]`, `[1,2]`, `[2,1]`, `[1,1]`, `[1,2,1]`, `[1,,2]`, `[2,,1]`, `1\[1]`, `1\[1,2]`, `2\[2]`, `-1\[1,2]`, `[{}]`, `[{},1]`,
	`<<1>>`, `<<2>>`, `<<1,2>>`, `<<2,1>>`, `1\<<1>>`, `1\<<2,1>>`, `-1\<<1,2>>`,
	`{1:2}`, `{1:3}`, `{2:2}`, `{2:3}`, `{1:2,2:3}`, `{1:2,2:2}`, `{"a":1}`, `{1:2,"a":1}`,
	`{|a| (0)}`, `{|a| (1)}`, `{|a| (0),(1)}`, `{|a,b| (1,1)}`, `{|b,a| (1,1)}`,
	`{|@,@item| (0,1)}`, `{|@item,@| (1,0)}`, `{|@,@item| (0,1),(1,2)}`, `{|@,@item| (0,1),(2,2)}`,
	`{|@,@char| (0,97)}`, `{|@,@char| (0,97),(1,98)}`, `{|@char,@| (97,0)}`, `{|@,@char| (0,97),(2,98)}`,
	`{|@,@value| (1,2)}`, `{|@value,@| (2,1)}`, `{|@,@value| (1,2),(2,3)}`,
	`{|@,@byte| (0,1)}`, `{|@,@byte| (0,1),(1,2)}`,
	`true`, `{()}`, `false`, `{}`,
	// keyed relations whose value attribute is not a sugar attribute (incl. names that sort before "@")
	`{(@: 1, x: 2)}`, `{|@, x| (1, 2), (2, 3)}`, `{|@, x| (1, 2), (1, 3)}`, `{|$v, @| (10, 3)}`, `{(@: 3, $v: 10), (@: 4, $v: 11)}`, `{(v: 10)} <&> {(@: 3)}`,
}

// State is one reachable representation.
type State struct {
	Key   string // rel.VerifShape
	Prog  string // a source program that denotes (and, for generation 0, produces) it
	V     rel.Value
	M     *model.V
	Class string
	Gen   int
}

func (s *State) IsSet() bool { return s.M.K == model.KSet }

type Space struct {
	K           int // expansion bound on member count
	States      []*State
	ByKey       map[string]*State
	Members     []obs.Member
	Quarantined map[string]string // shape -> violated invariant
	QClass      map[string][]string
	w           *core.W
}

// Class abstracts a shape string to its shape class for signatures.
func Class(shape string) string {
	k := shape
	if i := strings.IndexAny(k, "{("); i > 0 {
		k = k[:i]
	}
	flags := ""
	switch k {
	case "Str", "Arr", "Bytes":
		if !strings.HasPrefix(shape[len(k):], "{off:0 ") {
			flags += "+off"
		}
		if k == "Str" && !strings.Contains(shape, " holes:0 ") {
			flags += "+hole"
		}
		if k == "Arr" && hasTopLevelNil(shape) {
			flags += "+hole"
		}
		if strings.Contains(firstHeader(shape), "spare:true") {
			flags += "+spare"
		}
	case "Dict":
		if strings.Contains(shape, "=>multi(") {
			flags += "+multi"
		}
	case "Union":
		// list the bucket classes
		var bs []string
		for _, b := range []string{"Str{", "Arr{", "Bytes{", "Dict{", "Rel{", "Gen{"} {
			if strings.Contains(shape, ":"+b) {
				bs = append(bs, strings.TrimSuffix(b, "{"))
			}
		}
		flags += "[" + strings.Join(bs, ",") + "]"
	case "N":
		return "Num"
	}
	return k + flags
}

func firstHeader(shape string) string {
	if i := strings.IndexByte(shape, '['); i > 0 {
		return shape[:i]
	}
	return shape
}

func hasTopLevelNil(shape string) bool {
	i := strings.IndexByte(shape, '[')
	if i < 0 {
		return false
	}
	depth := 0
	body := shape[i+1:]
	for j := 0; j < len(body); j++ {
		switch body[j] {
		case '{', '(', '[':
			depth++
		case '}', ')', ']':
			depth--
		case 'n':
			if depth == 0 && strings.HasPrefix(body[j:], "nil") {
				return true
			}
		}
	}
	return false
}

func New(w *core.W, k int) *Space {
	sp := &Space{K: k, ByKey: map[string]*State{}, Quarantined: map[string]string{}, QClass: map[string][]string{}, w: w}
	for _, src := range MemberSrc {
		o := obs.Run(src)
		if !o.OK() {
			w.BrokenF("member %s does not evaluate: %v %s", src, o.Err, o.Panic)
			continue
		}
		m, err := obs.Denote(o.V)
		if err != nil {
			w.BrokenF("member %s does not denote: %v", src, err)
			continue
		}
		sp.Members = append(sp.Members, obs.Member{Src: src, V: o.V, M: m})
	}
	return sp
}

// Small reports whether a denotation is within the expansion bound.
func (sp *Space) Small(m *model.V) bool {
	if m.K == model.KSet && len(m.Mem) > sp.K {
		return false
	}
	return m.Depth() <= 3
}

// Add registers a value as a state if its shape is new and it is self-consistent.
// It returns the state (nil if quarantined / not data) and whether it was new.
func (sp *Space) Add(v rel.Value, prog string, gen int, taint, producer string) (*State, bool) {
	key := rel.VerifShape(v)
	qsig := func(bad string) string {
		t := ""
		if taint != "" {
			t = "taint:" + taint + "|"
		}
		return t + producer + "|" + Class(key) + "|" + bad
	}
	if st, ok := sp.ByKey[key]; ok {
		return st, false
	}
	if _, bad := sp.Quarantined[key]; bad {
		return nil, false
	}
	m, err := obs.Denote(v)
	if err != nil {
		sp.Quarantined[key] = "undenotable:" + err.Error()
		sp.QClass[qsig("undenotable")] = append(sp.QClass[qsig("undenotable")], prog)
		return nil, true
	}
	if bad := obs.SelfCheck(v, m, sp.Members); bad != "" {
		sp.Quarantined[key] = bad
		sp.QClass[qsig(bad)] = append(sp.QClass[qsig(bad)], prog)
		return nil, true
	}
	st := &State{Key: key, Prog: prog, V: v, M: m, Class: Class(key), Gen: gen}
	sp.ByKey[key] = st
	sp.States = append(sp.States, st)
	return st, true
}

var (
	tSet1   = "{a}"
	tSet2   = "{a, b}"
	tUnion2 = "{a} | {b}"
	tSet3   = "{a, b, c}"
	derivs  = []string{"x where true", "x => .", "x with 9 without 9"}
)

// BuildGen0 builds generation 0: every construction path of every model set of <= K
// members over A, the sugar literals, and the non-set values (numbers, tuples).
func (sp *Space) BuildGen0() {
	e1 := obs.MustCompile(tSet1)
	e2 := obs.MustCompile(tSet2)
	eu := obs.MustCompile(tUnion2)
	e3 := obs.MustCompile(tSet3)
	var dv []rel.Expr
	for _, d := range derivs {
		dv = append(dv, obs.MustCompile(d))
	}
	addWithDerivs := func(o obs.Outcome, prog string, want ...*model.V) {
		if !o.OK() {
			return // construction failures are the business of C10 (crash) / C01 (wrong) via explicit cases
		}
		taint := ""
		if len(want) > 0 {
			taint = model.Taint(model.Set(want...))
		}
		sp.Add(o.V, prog, 0, taint, "literal")
		for i, d := range dv {
			r := obs.Eval(d, obs.Scope("x", o.V))
			if r.OK() {
				sp.Add(r.V, strings.ReplaceAll(derivs[i], "x", "("+prog+")"), 0, taint, "literal")
			}
		}
	}
	// non-set values
	for _, s := range []string{"0", "1", "2", "-1", "0.5"} {
		if o := obs.Run(s); o.OK() {
			sp.Add(o.V, s, 0, "", "literal")
		}
	}
	for _, m := range sp.Members {
		sp.Add(m.V, m.Src, 0, "", "literal")
	}
	addWithDerivs(obs.Run("{}"), "{}")
	for _, s := range SugarSrc {
		addWithDerivs(obs.Run(s), s)
	}
	ms := sp.Members
	for i, a := range ms {
		addWithDerivs(obs.Eval(e1, obs.Scope("a", a.V)), "{"+a.Src+"}", a.M)
		if sp.K < 2 {
			continue
		}
		for j := i + 1; j < len(ms); j++ {
			b := ms[j]
			addWithDerivs(obs.Eval(e2, obs.Scope("a", a.V, "b", b.V)), "{"+a.Src+", "+b.Src+"}", a.M, b.M)
			addWithDerivs(obs.Eval(e2, obs.Scope("a", b.V, "b", a.V)), "{"+b.Src+", "+a.Src+"}", a.M, b.M)
			addWithDerivs(obs.Eval(eu, obs.Scope("a", a.V, "b", b.V)), "{"+a.Src+"} | {"+b.Src+"}", a.M, b.M)
			if sp.K < 3 {
				continue
			}
			for l := j + 1; l < len(ms); l++ {
				c := ms[l]
				addWithDerivs(obs.Eval(e3, obs.Scope("a", a.V, "b", b.V, "c", c.V)), "{"+a.Src+", "+b.Src+", "+c.Src+"}", a.M, b.M, c.M)
				addWithDerivs(obs.Eval(e3, obs.Scope("a", c.V, "b", b.V, "c", a.V)), "{"+c.Src+", "+b.Src+", "+a.Src+"}", a.M, b.M, c.M)
			}
		}
	}
}

// Recipe rebuilds a computed state from earlier states on live values.
type Recipe struct {
	Op   string `json:"op"`          // index into the expansion operator table
	A    string `json:"a"`           // shape key of the left operand
	B    string `json:"b,omitempty"` // shape key of the right operand (or member source for with/without)
	Key  string `json:"key"`         // shape key of the result when it was discovered
	Prog string `json:"prog"`
	Gen  int    `json:"gen"`
}

// ExpOps are the operators used to expand the space (binary on states).
var ExpOps = []string{"|", "&", "&~", "~~", "++"}

// ExpMemberOps are expansion operators taking a member of A on the right.
var ExpMemberOps = []string{"with", "without"}

// ExpUnary are unary expansion operators.
var ExpUnary = []string{"x where true", "x => .", "1\\x", "-1\\x", "x >> .", "x where .@ != 0", "x where .@ = 0", "x => (@: .@ + 1, @item: .@item)", "x => (@: .@, @char: .@item + 96)"}

type Expander struct {
	OnePerClass bool
	sp          *Space
	bin         map[string]rel.Expr
	mem         map[string]rel.Expr
	unary       []rel.Expr
	extra       map[string]rel.Expr
}

func NewExpander(sp *Space) *Expander {
	e := &Expander{sp: sp, bin: map[string]rel.Expr{}, mem: map[string]rel.Expr{}, extra: map[string]rel.Expr{}}
	for _, op := range ExpOps {
		e.bin[op] = obs.MustCompile("a " + op + " b")
	}
	for _, op := range ExpMemberOps {
		e.mem[op] = obs.MustCompile("a " + op + " b")
	}
	for _, u := range ExpUnary {
		e.unary = append(e.unary, obs.MustCompile(u))
	}
	return e
}

// apply evaluates a recipe's operator on live operands.
func (e *Expander) Apply(op string, a *State, b rel.Value) obs.Outcome {
	if x, ok := e.bin[op]; ok {
		return obs.Eval(x, obs.Scope("a", a.V, "b", b))
	}
	if x, ok := e.mem[op]; ok {
		return obs.Eval(x, obs.Scope("a", a.V, "b", b))
	}
	for i, u := range ExpUnary {
		if u == op {
			return obs.Eval(e.unary[i], obs.Scope("x", a.V))
		}
	}
	if strings.HasPrefix(op, "c01:") {
		x, ok := e.extra[op]
		if !ok {
			x = obs.MustCompile(op[4:])
			e.extra[op] = x
		}
		return obs.Eval(x, obs.Scope("x", a.V))
	}
	panic("harness: unknown expansion operator " + op)
}

// NoteNew records a transition result as a candidate new state (for the next round) when it
// is small and its shape has not been seen by this worker.
func (e *Expander) NoteNew(seen map[string]bool, r rel.Value, op string, a *State, bKey, bSrc string, gen int) {
	key := rel.VerifShape(r)
	if seen[key] {
		return
	}
	seen[key] = true
	if _, ok := e.sp.ByKey[key]; ok {
		return
	}
	m, err := obs.Denote(r)
	if err != nil || !e.sp.Small(m) {
		return
	}
	prog := ""
	switch {
	case bSrc != "":
		prog = "(" + a.Prog + ") " + op + " (" + bSrc + ")"
	default:
		prog = strings.ReplaceAll(strings.TrimPrefix(op, "c01:"), "x", "("+a.Prog+")")
	}
	rc := Recipe{Op: op, A: a.Key, B: bKey, Key: key, Prog: prog, Gen: gen}
	b, _ := json.Marshal(rc)
	e.sp.w.Note("newstates", string(b))
}

// Discover runs the sharded expansion step from the current states: every expansion
// operator on every (my-shard state, state) pair, every member operator, every unary
// operator. New small result shapes are noted for the next round. fn, if not nil, is called
// for every binary set-operator transition so that the caller can apply its oracle.
func (e *Expander) Discover(gen int, fromGen int, visit func(op string, a, b *State, o obs.Outcome)) {
	sp := e.sp
	seen := map[string]bool{}
	for i, a := range sp.States {
		if !sp.w.Mine(i) || !a.IsSet() {
			continue
		}
		for _, b := range sp.States {
			if !b.IsSet() || (a.Gen < fromGen && b.Gen < fromGen) {
				continue
			}
			for _, op := range ExpOps {
				o := e.Apply(op, a, b.V)
				if visit != nil {
					visit(op, a, b, o)
				}
				if o.OK() {
					e.NoteNew(seen, o.V, op, a, b.Key, b.Prog, gen)
				}
			}
		}
		if a.Gen < fromGen {
			continue
		}
		for _, op := range ExpMemberOps {
			for _, m := range sp.Members {
				o := e.Apply(op, a, m.V)
				if o.OK() {
					e.NoteNew(seen, o.V, op, a, "member:"+m.Src, m.Src, gen)
				}
			}
		}
		for _, op := range ExpUnary {
			o := e.Apply(op, a, nil)
			if o.OK() {
				e.NoteNew(seen, o.V, op, a, "", "", gen)
			}
		}
	}
}

// LoadRecipes rebuilds the computed states noted by earlier rounds (in deterministic
// order, generation by generation) on live values. Returns how many were added.
func (e *Expander) LoadRecipes(notes []string) int {
	sp := e.sp
	var rcs []Recipe
	for _, n := range notes {
		var rc Recipe
		if json.Unmarshal([]byte(n), &rc) == nil {
			rcs = append(rcs, rc)
		}
	}
	sort.SliceStable(rcs, func(i, j int) bool {
		if rcs[i].Gen != rcs[j].Gen {
			return rcs[i].Gen < rcs[j].Gen
		}
		if len(rcs[i].Prog) != len(rcs[j].Prog) {
			return len(rcs[i].Prog) < len(rcs[j].Prog)
		}
		return rcs[i].Prog < rcs[j].Prog
	})
	memByKey := map[string]obs.Member{}
	for _, m := range sp.Members {
		memByKey["member:"+m.Src] = m
	}
	added := 0
	repr := map[string]bool{}
	for _, rc := range rcs {
		if _, ok := sp.ByKey[rc.Key]; ok {
			continue
		}
		if e.OnePerClass {
			// quick tier bound: expand only the first (shortest-program) new state of each
			// (shape class, producing operator family) pair
			k := Class(rc.Key) + "|" + opFamily(rc.Op)
			if repr[k] {
				continue
			}
			repr[k] = true
		}
		a, ok := sp.ByKey[rc.A]
		if !ok {
			continue
		}
		var bv rel.Value
		if rc.B != "" {
			if m, ok := memByKey[rc.B]; ok {
				bv = m.V
			} else if b, ok := sp.ByKey[rc.B]; ok {
				bv = b.V
			} else {
				continue
			}
		}
		o := e.Apply(rc.Op, a, bv)
		if !o.OK() {
			continue
		}
		var bm *model.V
		if m, ok := memByKey[rc.B]; ok {
			bm = model.Set(m.M)
		} else if b, ok := sp.ByKey[rc.B]; ok {
			bm = b.M
		}
		taint := model.Taint(a.M, bm)
		if m, err := obs.Denote(o.V); err == nil {
			taint = model.Taint(a.M, bm, m)
		}
		if _, isNew := sp.Add(o.V, rc.Prog, rc.Gen, taint, opFamily(rc.Op)); isNew {
			added++
		}
	}
	return added
}

func opFamily(op string) string {
	op = strings.TrimPrefix(op, "c01:")
	switch {
	case strings.Contains(op, "=>"):
		return "=>"
	case strings.Contains(op, "where"):
		return "where"
	case strings.Contains(op, "\\"):
		return "offset"
	case strings.Contains(op, ">>"):
		return ">>"
	}
	return op
}

// CheckUnchanged re-dumps every state and returns those whose representation changed
// since they were registered: values are immutable, so any change means an operator wrote
// into storage shared with an existing value (property C03).
func (sp *Space) CheckUnchanged() []*State {
	var out []*State
	for _, s := range sp.States {
		if rel.VerifShape(s.V) != s.Key {
			out = append(out, s)
		}
	}
	return out
}

// ReportQuarantine reports the quarantined (corrupt) states as failures of the owning check.
func (sp *Space) ReportQuarantine() {
	keys := make([]string, 0, len(sp.QClass))
	for k := range sp.QClass {
		keys = append(keys, k)
	}
	sort.Strings(keys)
	for _, k := range keys {
		progs := sp.QClass[k]
		sort.Slice(progs, func(i, j int) bool {
			return len(progs[i]) < len(progs[j]) || len(progs[i]) == len(progs[j]) && progs[i] < progs[j]
		})
		for _, p := range progs {
			sp.w.FailAt(-1, "corrupt-state", "corrupt-state|"+k, p, "")
		}
	}
}

func (sp *Space) Describe() string {
	byGen := map[int]int{}
	dens := map[string]int{}
	for _, s := range sp.States {
		byGen[s.Gen]++
		dens[s.M.Enc()]++
	}
	multi := 0
	for _, n := range dens {
		if n > 1 {
			multi++
		}
	}
	return fmt.Sprintf("states=%d by-gen=%v denotations=%d with>1repr=%d quarantined=%d", len(sp.States), byGen, len(dens), multi, len(sp.Quarantined))
}

// Twins returns the denotation classes having more than one representation.
func (sp *Space) Twins() [][]*State {
	by := map[string][]*State{}
	var order []string
	for _, s := range sp.States {
		k := s.M.Enc()
		if _, ok := by[k]; !ok {
			order = append(order, k)
		}
		by[k] = append(by[k], s)
	}
	var out [][]*State
	for _, k := range order {
		if len(by[k]) > 1 {
			out = append(out, by[k])
		}
	}
	return out
}
