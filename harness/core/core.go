// Package core is the bounded-exhaustive enumeration engine (E1 of DESIGN.md): a parent
// process shards a deterministic enumeration over worker subprocesses, every case runs on
// the real implementation under recover() and a watchdog, failures are grouped by
// signature and matched against the committed known-findings file, and the evidence file
// is written from the counters the workers measured.
package core

import (
	"encoding/json"
	"fmt"
	"os"
	"regexp"
	"runtime"
	"runtime/debug"
	"sort"
	"strings"
	"sync/atomic"
	"syscall"
	"time"
	"unsafe"
)

// CheckFn enumerates and executes the cases of one check inside a worker.
type CheckFn func(w *W)

// Check describes one registered check.
type Check struct {
	ID      string // property id, e.g. C14
	Level   string // evidence level
	Rule    string // how cases are enumerated / what makes one non-trivial
	Assume  []string
	Fn      CheckFn
	Workers int // 0 = all cores
	// Rounds > 1 makes the parent run the workers several times; the named sets merged
	// from round r are handed to every worker of round r+1 (W.Prev). This is how an
	// explicit-state search exchanges newly reached states between processes.
	Rounds   func(tier string) int
	Watchdog time.Duration
	// EnvFor, if set, gives extra environment variables for the worker of (round, shard):
	// this is how a check enumerates environment configurations (hash seeds, map order).
	EnvFor func(tier string, round, shard int) []string
}

type FailGroup struct {
	Sig       string   `json:"signature"`
	Class     string   `json:"class"`
	N         int64    `json:"n"`
	Witnesses []string `json:"witnesses"`
	Detail    string   `json:"detail,omitempty"`
	FirstIdx  int64    `json:"first_idx"`
	Shard     int      `json:"shard"`
	Round     int      `json:"round"`
}

type Report struct {
	Shard       int                   `json:"shard"`
	Evaluations int64                 `json:"evaluations"`
	Nontrivial  int64                 `json:"nontrivial"`
	States      int64                 `json:"states"`
	Transitions int64                 `json:"transitions"`
	Fails       map[string]*FailGroup `json:"fails"`
	Samples     []any                 `json:"samples"`
	Counters    map[string]int64      `json:"counters"`
	Sets        map[string][]string   `json:"sets"` // named string sets, unioned by the parent (bounded)
	Capped      []string              `json:"capped"`
	Broken      []string              `json:"broken"`
	Hang        *HangInfo             `json:"hang,omitempty"`
	Cases       int64                 `json:"cases"`
	Extra       map[string]any        `json:"extra,omitempty"`
	Polluted    bool                  `json:"polluted,omitempty"`
}

type HangInfo struct {
	Idx  int64  `json:"idx"`
	Desc string `json:"desc"`
	Kind string `json:"kind"`
}

// W is the worker-side context handed to a check.
type W struct {
	ID, Tier string
	Shard, N int
	Seed     int64
	Thorough bool
	Round    int                 // current round (0-based)
	Prev     map[string][]string // merged named sets of the previous round

	resume   int64
	only     int64
	skip     map[int64]bool
	idx      int64
	cur      *int64 // mmapped progress cell
	started  atomic.Int64
	curDesc  atomic.Pointer[func() string]
	rep      Report
	sets     map[string]map[string]bool
	wd       time.Duration
	raceOff  int
	describe bool
	deadline time.Time
}

// Mine shards an outer loop: item k belongs to this worker iff k mod N == shard.
func (w *W) Mine(k int) bool { return k%w.N == w.Shard }

// Quick reports whether this is the quick tier.
func (w *W) Quick() bool { return !w.Thorough }

// Expired reports that the internal deadline has passed (the check should stop
// enumerating and report exhaustive:false via Cap).
func (w *W) Expired() bool { return !w.deadline.IsZero() && time.Now().After(w.deadline) }

// Case runs one case (locally numbered) under recover and the watchdog.
func (w *W) Case(desc func() string, run func()) {
	i := w.idx
	w.idx++
	if i < w.resume || (w.only >= 0 && i != w.only) || w.skip[i] {
		return
	}
	if w.describe {
		fmt.Println("DESCRIBE " + safeDesc(desc))
		os.Exit(0)
	}
	if w.cur != nil {
		atomic.StoreInt64(w.cur, i)
	}
	w.curDesc.Store(&desc)
	w.started.Store(time.Now().UnixNano())
	defer func() {
		w.started.Store(0)
		w.collectRaces(i) // race-instrumented drivers: reports produced by this case
		if r := recover(); r != nil {
			msg, fn, inRepo := PanicSite(r, debug.Stack())
			if inRepo {
				w.FailAt(i, "panic", "panic|"+msg+"|"+fn, desc(), "")
			} else {
				w.rep.Broken = append(w.rep.Broken, fmt.Sprintf("harness panic in case %d (%s): %v\n%s", i, desc(), r, debug.Stack()))
			}
		}
	}()
	w.rep.Cases++
	run()
}

// Eval counts one evaluation; nontrivial by the check's stated rule.
func (w *W) Eval(nontrivial bool) {
	w.rep.Evaluations++
	if nontrivial {
		w.rep.Nontrivial++
	}
}

func (w *W) AddStates(n int)      { w.rep.States += int64(n) }
func (w *W) AddTransitions(n int) { w.rep.Transitions += int64(n) }

// Fail records a failing case under a signature.
func (w *W) Fail(class, sig, witness, detail string) { w.FailAt(w.idx-1, class, sig, witness, detail) }

func (w *W) FailAt(idx int64, class, sig, witness, detail string) {
	g := w.rep.Fails[sig]
	if g == nil {
		g = &FailGroup{Sig: sig, Class: class, Detail: detail, FirstIdx: idx, Shard: w.Shard, Round: w.Round}
		w.rep.Fails[sig] = g
	}
	g.N++
	if len(g.Witnesses) < 4 {
		g.Witnesses = append(g.Witnesses, witness)
	}
}

// Sample keeps a few example cases for the evidence file.
func (w *W) Sample(s any) {
	if len(w.rep.Samples) < 6 {
		w.rep.Samples = append(w.rep.Samples, s)
	}
}

// SamplesLeft reports how many more samples may be recorded.
func (w *W) SamplesLeft() []struct{} { return make([]struct{}, 6-len(w.rep.Samples)) }

func (w *W) Count(name string, d int64) { w.rep.Counters[name] += d }

// Note adds a string to a named set (e.g. distinct outcomes); sets are capped at 20000.
func (w *W) Note(set, s string) {
	m := w.sets[set]
	if m == nil {
		m = map[string]bool{}
		w.sets[set] = m
	}
	if len(m) < 200000 {
		m[s] = true
	}
}

// Pollute records that shared harness state was changed by the implementation (a value
// was mutated): later failures of this worker may not reproduce in isolation.
func (w *W) Pollute() { w.rep.Polluted = true }

// Cap records that a cap was hit, so the run is not exhaustive.
func (w *W) Cap(what string) { w.rep.Capped = append(w.rep.Capped, what) }

// Broken records a harness problem (exit 2, no verdict).
func (w *W) BrokenF(f string, a ...any) { w.rep.Broken = append(w.rep.Broken, fmt.Sprintf(f, a...)) }

func (w *W) SetExtra(k string, v any) {
	if w.rep.Extra == nil {
		w.rep.Extra = map[string]any{}
	}
	w.rep.Extra[k] = v
}

// RepoDir is the checkout under test (frames below it attribute a panic to arr.ai).
var RepoDir = func() string {
	if d := os.Getenv("VERIF_REPO"); d != "" {
		return d
	}
	return "/repo"
}()

var numRE = regexp.MustCompile(`-?\d+(\.\d+)?(e[+-]?\d+)?`)
var quoRE = regexp.MustCompile("\"[^\"]*\"|'[^']*'|`[^`]*`")
var hexRE = regexp.MustCompile(`0x[0-9a-f]+`)

// NormMsg normalises a panic/error message: numbers and quoted data are abstracted.
func NormMsg(s string) string {
	if i := strings.IndexByte(s, '\n'); i >= 0 {
		s = s[:i]
	}
	s = hexRE.ReplaceAllString(s, "0x#")
	s = quoRE.ReplaceAllString(s, "\"…\"")
	s = numRE.ReplaceAllString(s, "#")
	if len(s) > 160 {
		s = s[:160]
	}
	return s
}

// PanicSite extracts the normalised message and the function of the first frame under
// /repo/ (ignoring hook files) from a stack trace.
func PanicSite(r any, stack []byte) (msg, fn string, inRepo bool) {
	msg = NormMsg(fmt.Sprint(r))
	lines := strings.Split(string(stack), "\n")
	for i := 1; i < len(lines); i++ {
		l := lines[i]
		if strings.HasPrefix(l, "\t"+RepoDir+"/") && !strings.Contains(l, "zz_verif") && !strings.Contains(l, "/pkg/zzverif/") {
			f := strings.TrimSpace(lines[i-1])
			if j := strings.LastIndex(f, "("); j > 0 {
				f = f[:j]
			}
			f = strings.TrimPrefix(f, "github.com/arr-ai/arrai/")
			file := strings.TrimPrefix(strings.TrimSpace(l), RepoDir+"/")
			if j := strings.Index(file, ":"); j > 0 {
				file = file[:j]
			}
			return msg, file + ":" + f, true
		}
	}
	return msg, "", false
}

// Try runs f and returns the signature of a panic it raised ("" if none). A panic with
// no frame in /repo is re-raised (it is a harness bug).
func Try(f func()) (sig string) {
	defer func() {
		if r := recover(); r != nil {
			msg, fn, in := PanicSite(r, debug.Stack())
			if !in {
				panic(r)
			}
			sig = "panic|" + msg + "|" + fn
		}
	}()
	f()
	return ""
}

func mmapCell(path string) *int64 {
	f, err := os.OpenFile(path, os.O_RDWR|os.O_CREATE|os.O_TRUNC, 0o644)
	if err != nil {
		return nil
	}
	defer f.Close()
	if err := f.Truncate(8); err != nil {
		return nil
	}
	b, err := syscall.Mmap(int(f.Fd()), 0, 8, syscall.PROT_READ|syscall.PROT_WRITE, syscall.MAP_SHARED)
	if err != nil {
		return nil
	}
	return (*int64)(unsafe.Pointer(&b[0]))
}

// collectRaces turns the race detector's log (E2 drivers are built with -race) into
// failures: signature = the unordered pair of the first arr.ai frames of the two accesses.
// A report with no arr.ai frame on either side is a race inside the harness itself.
func (w *W) collectRaces(atIdx int64) {
	base := os.Getenv("VERIF_RACE_LOG")
	if base == "" {
		return
	}
	path := fmt.Sprintf("%s.%d", base, os.Getpid())
	b, err := os.ReadFile(path)
	if err != nil || len(b) <= w.raceOff {
		return
	}
	b, w.raceOff = b[w.raceOff:], len(b)
	for _, blk := range strings.Split(string(b), "WARNING: DATA RACE")[1:] {
		var sides []string
		cur := ""
		lines := strings.Split(blk, "\n")
		for i, l := range lines {
			t := strings.TrimSpace(l)
			if strings.HasPrefix(t, "Read at") || strings.HasPrefix(t, "Write at") || strings.HasPrefix(t, "Previous read at") || strings.HasPrefix(t, "Previous write at") ||
				strings.HasPrefix(t, "Atomic") || strings.HasPrefix(t, "Previous atomic") {
				if len(sides) < 2 {
					sides = append(sides, "")
				}
				cur = t
				continue
			}
			if strings.HasPrefix(t, "Goroutine ") {
				break
			}
			if cur != "" && len(sides) > 0 && sides[len(sides)-1] == "" && strings.HasPrefix(t, RepoDir+"/") && !strings.Contains(t, "zz_verif") && !strings.Contains(t, "/pkg/zzverif/") && i > 0 {
				f := strings.TrimSpace(lines[i-1])
				if j := strings.LastIndex(f, "("); j > 0 {
					f = f[:j]
				}
				sides[len(sides)-1] = strings.TrimPrefix(f, "github.com/arr-ai/arrai/")
			}
		}
		for len(sides) < 2 {
			sides = append(sides, "")
		}
		if sides[0] == "" && sides[1] == "" {
			head := blk
			if i := strings.Index(head, "Goroutine "); i > 0 {
				head = head[:i]
			}
			if strings.Contains(head, "verif/harness") {
				w.rep.Broken = append(w.rep.Broken, "data race inside the harness: "+oneLineN(blk, 600))
			} else {
				w.rep.Counters["race_reports_without_a_frame_in_the_repository"]++ // e.g. inside a dependency: not this property
			}
			continue
		}
		sort.Strings(sides)
		w.FailAt(atIdx, "race", "race|"+sides[0]+"|"+sides[1], oneLineN(blk, 900), "")
	}
}

func oneLineN(s string, n int) string {
	s = strings.Join(strings.Fields(s), " ")
	if len(s) > n {
		s = s[:n] + "…"
	}
	return s
}

func (w *W) finish(code int) {
	w.collectRaces(w.idx - 1)
	if base := os.Getenv("VERIF_RACE_LOG"); base != "" {
		os.Remove(fmt.Sprintf("%s.%d", base, os.Getpid()))
	}
	for k, m := range w.sets {
		l := make([]string, 0, len(m))
		for s := range m {
			l = append(l, s)
		}
		sort.Strings(l)
		w.rep.Sets[k] = l
	}
	w.rep.Shard = w.Shard
	enc := json.NewEncoder(os.Stdout)
	if err := enc.Encode(&w.rep); err != nil {
		fmt.Fprintln(os.Stderr, "report encode:", err)
		os.Exit(2)
	}
	os.Exit(code)
}

func cpuNow() time.Duration {
	var ru syscall.Rusage
	if syscall.Getrusage(syscall.RUSAGE_SELF, &ru) != nil {
		return 0
	}
	return time.Duration(ru.Utime.Nano() + ru.Stime.Nano())
}

func (w *W) watchdog() {
	memLimit := uint64(6 << 30)
	var cpuFor int64
	var cpuAt time.Duration
	for {
		time.Sleep(250 * time.Millisecond)
		st := w.started.Load()
		// A case counts as hung when it has burnt more than the budget in CPU time (robust
		// against a loaded machine) or has made no progress for six times the budget in
		// wall-clock time (a blocked wait burns no CPU).
		if st != 0 && st != cpuFor {
			cpuFor, cpuAt = st, cpuNow()
		}
		if st != 0 && (cpuNow()-cpuAt > w.wd || time.Since(time.Unix(0, st)) > 6*w.wd) {
			// re-check that it is still the same case
			time.Sleep(10 * time.Millisecond)
			if w.started.Load() == st {
				d := "?"
				if p := w.curDesc.Load(); p != nil {
					d = safeDesc(*p)
				}
				w.rep.Hang = &HangInfo{Idx: atomic.LoadInt64(&w.idx) - 1, Desc: d, Kind: "watchdog"}
				w.finish(3)
			}
		}
		var ms runtime.MemStats
		if time.Now().UnixNano()/1e9%4 == 0 {
			runtime.ReadMemStats(&ms)
			if ms.HeapAlloc > memLimit {
				d := "?"
				if p := w.curDesc.Load(); p != nil {
					d = safeDesc(*p)
				}
				w.rep.Hang = &HangInfo{Idx: atomic.LoadInt64(&w.idx) - 1, Desc: d, Kind: "memory"}
				w.finish(3)
			}
		}
	}
}

func safeDesc(f func() string) (s string) {
	defer func() {
		if r := recover(); r != nil {
			s = fmt.Sprint("<desc panicked: ", r, ">")
		}
	}()
	return f()
}
