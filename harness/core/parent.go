package core

import (
	"bufio"
	"bytes"
	"encoding/json"
	"fmt"
	"os"
	"os/exec"
	"path/filepath"
	"runtime"
	"runtime/debug"
	"sort"
	"strconv"
	"strings"
	"sync"
	"time"
)

var VerifDir = func() string {
	if d := os.Getenv("VERIF_DIR"); d != "" {
		return d
	}
	return "/verif"
}()

type Known struct {
	Property  string `json:"property"`
	Signature string `json:"signature"`
	Status    string `json:"status"` // "known" (default) or "fixed"
	What      string `json:"what"`
	Witness   string `json:"witness,omitempty"`
	RootCause string `json:"root_cause,omitempty"`
	Commit    string `json:"commit,omitempty"`
}

func LoadKnown(prop string) (map[string]*Known, error) {
	out := map[string]*Known{}
	f, err := os.Open(filepath.Join(VerifDir, "known_findings.jsonl"))
	if err != nil {
		if os.IsNotExist(err) {
			return out, nil
		}
		return nil, err
	}
	defer f.Close()
	sc := bufio.NewScanner(f)
	sc.Buffer(make([]byte, 1<<20), 1<<24)
	ln := 0
	for sc.Scan() {
		ln++
		line := strings.TrimSpace(sc.Text())
		if line == "" || strings.HasPrefix(line, "#") || strings.HasPrefix(line, "fixed:") {
			continue
		}
		var k Known
		if err := json.Unmarshal([]byte(line), &k); err != nil {
			return nil, fmt.Errorf("known_findings.jsonl:%d: %v", ln, err)
		}
		if k.Property == prop && k.Status != "fixed" {
			kk := k
			out[k.Signature] = &kk
		}
	}
	return out, sc.Err()
}

// Main is the entry point of a driver binary.
func Main(checks []Check) {
	if len(os.Args) >= 2 && os.Args[1] == "-worker" {
		workerMain(checks)
		return
	}
	if len(os.Args) < 3 {
		fmt.Fprintln(os.Stderr, "usage: <driver> <ID> quick|thorough|replay [path]")
		os.Exit(2)
	}
	id, tier := os.Args[1], os.Args[2]
	var chk *Check
	for i := range checks {
		if checks[i].ID == id {
			chk = &checks[i]
		}
	}
	if chk == nil {
		fmt.Fprintln(os.Stderr, "unknown check", id)
		os.Exit(2)
	}
	if tier == "replay" {
		os.Exit(replay(chk, os.Args[3]))
	}
	if tier != "quick" && tier != "thorough" {
		fmt.Fprintln(os.Stderr, "tier must be quick|thorough|replay")
		os.Exit(2)
	}
	os.Exit(parent(chk, tier))
}

func workerMain(checks []Check) {
	// -worker ID tier shard N resume only skipcsv progressfile
	a := os.Args[2:]
	id, tier := a[0], a[1]
	shard, _ := strconv.Atoi(a[2])
	n, _ := strconv.Atoi(a[3])
	resume, _ := strconv.ParseInt(a[4], 10, 64)
	only, _ := strconv.ParseInt(a[5], 10, 64)
	skip := map[int64]bool{}
	for _, s := range strings.Split(a[6], ",") {
		if s != "" {
			v, _ := strconv.ParseInt(s, 10, 64)
			skip[v] = true
		}
	}
	var chk *Check
	for i := range checks {
		if checks[i].ID == id {
			chk = &checks[i]
		}
	}
	seed, _ := strconv.ParseInt(os.Getenv("VERIF_SEED"), 10, 64)
	w := &W{ID: id, Tier: tier, Shard: shard, N: n, Seed: seed, Thorough: tier == "thorough",
		resume: resume, only: only, skip: skip, sets: map[string]map[string]bool{}}
	w.Round, _ = strconv.Atoi(os.Getenv("VERIF_ROUND"))
	if pf := os.Getenv("VERIF_PREV"); pf != "" {
		b, err := os.ReadFile(pf)
		if err != nil || json.Unmarshal(b, &w.Prev) != nil {
			fmt.Fprintln(os.Stderr, "cannot read previous-round file", pf, err)
			os.Exit(2)
		}
	}
	w.rep.Fails = map[string]*FailGroup{}
	w.rep.Counters = map[string]int64{}
	w.rep.Sets = map[string][]string{}
	if len(a) > 7 && a[7] != "" {
		w.cur = mmapCell(a[7])
	}
	w.wd = chk.Watchdog
	if w.wd == 0 {
		w.wd = 10 * time.Second
	}
	if sc, _ := strconv.Atoi(os.Getenv("VERIF_WD_SCALE")); sc > 1 {
		w.wd *= time.Duration(sc)
	}
	w.describe = os.Getenv("VERIF_DESCRIBE") == "1"
	if d := os.Getenv("VERIF_DEADLINE_S"); d != "" {
		s, _ := strconv.Atoi(d)
		if s > 0 {
			w.deadline = time.Now().Add(time.Duration(s) * time.Second)
		}
	}
	debug.SetMaxStack(256 << 20)
	go w.watchdog()
	chk.Fn(w)
	w.finish(0)
}

type shardResult struct {
	reports []*Report
	hangs   []*FailGroup
	broken  []string
}

// HashSeed is the seed handed to the hash-seed seams of every worker (E3): fixed so that
// every case is reproducible across processes; C07 enumerates other seeds explicitly.
func HashSeed() string {
	if s := os.Getenv("VERIF_HASH_SEED"); s != "" {
		return s
	}
	return "1"
}

func self() string {
	p, err := os.Executable()
	if err != nil {
		return os.Args[0]
	}
	return p
}

func runWorker(chk *Check, tier string, shard, n int, resume, only int64, skip []int64, progress string, env ...string) (*Report, int, string) {
	sk := make([]string, len(skip))
	for i, s := range skip {
		sk[i] = strconv.FormatInt(s, 10)
	}
	cmd := exec.Command(self(), "-worker", chk.ID, tier, strconv.Itoa(shard), strconv.Itoa(n),
		strconv.FormatInt(resume, 10), strconv.FormatInt(only, 10), strings.Join(sk, ","), progress)
	raceLog := filepath.Join(VerifDir, ".build", "run", fmt.Sprintf("race.%s.%d.%d", chk.ID, shard, os.Getpid()))
	cmd.Env = append(append(os.Environ(), "GOMAXPROCS=2", "GOMEMLIMIT=3GiB", "GOTRACEBACK=single", "VERIF_HASH_SEED="+HashSeed(),
		// race-instrumented drivers (E2): reports go to a log the worker turns into failures; they must not kill it
		"GORACE=halt_on_error=0 exitcode=0 history_size=5 log_path="+raceLog, "VERIF_RACE_LOG="+raceLog), env...)
	if chk.EnvFor != nil {
		cmd.Env = append(cmd.Env, chk.EnvFor(tier, roundOf(env), shard)...)
	}
	if fc := os.Getenv("VERIF_FROZEN_CONCURRENCY"); fc != "" {
		cmd.Env = append(cmd.Env, "FROZEN_CONCURRENCY="+fc)
	}
	var out, errb bytes.Buffer
	cmd.Stdout = &out
	cmd.Stderr = &errb
	err := cmd.Run()
	code := 0
	if err != nil {
		if ee, ok := err.(*exec.ExitError); ok {
			code = ee.ExitCode()
		} else {
			return nil, -1, err.Error()
		}
	}
	// the report is the last non-empty line of stdout
	lines := bytes.Split(bytes.TrimSpace(out.Bytes()), []byte("\n"))
	var rep *Report
	if len(lines) > 0 {
		var r Report
		if json.Unmarshal(lines[len(lines)-1], &r) == nil && r.Fails != nil {
			rep = &r
		}
	}
	return rep, code, errb.String()
}

func hangSig(class, desc string) (sig, witness string) {
	if i := strings.Index(desc, " ## "); i >= 0 {
		return class + "|" + desc[:i], desc[i+4:]
	}
	return class + "|" + NormMsg(desc), desc
}

func fatalSig(stderr string) string {
	msg, fn := "", ""
	lines := strings.Split(stderr, "\n")
	for i, l := range lines {
		if msg == "" && (strings.HasPrefix(l, "fatal error:") || strings.HasPrefix(l, "runtime: goroutine stack exceeds") || strings.HasPrefix(l, "panic:")) {
			msg = NormMsg(l)
		}
		if fn == "" && strings.HasPrefix(l, "\t"+RepoDir+"/") && !strings.Contains(l, "zz_verif") && i > 0 {
			f := strings.TrimSpace(lines[i-1])
			if j := strings.LastIndex(f, "("); j > 0 {
				f = f[:j]
			}
			fn = strings.TrimPrefix(f, "github.com/arr-ai/arrai/")
		}
	}
	if msg == "" {
		msg = "worker died"
	}
	return "fatal|" + msg + "|" + fn
}

func runShard(chk *Check, tier string, shard, n int, env ...string) *shardResult {
	res := &shardResult{}
	progress := filepath.Join(VerifDir, ".build", "run", fmt.Sprintf("%s.%s.%d.cur", chk.ID, tier, shard))
	os.MkdirAll(filepath.Dir(progress), 0o755)
	defer os.Remove(progress)
	var resume int64
	var skip []int64
	for attempt := 0; attempt < 40; attempt++ {
		rep, code, stderr := runWorker(chk, tier, shard, n, resume, -1, skip, progress, env...)
		switch {
		case code == 0 && rep != nil:
			res.reports = append(res.reports, rep)
			return res
		case code == 3 && rep != nil && rep.Hang != nil:
			res.reports = append(res.reports, rep)
			class := "hang"
			if rep.Hang.Kind == "memory" {
				class = "memory"
			}
			sig, wit := hangSig(class, rep.Hang.Desc)
			res.hangs = append(res.hangs, &FailGroup{Sig: sig, Class: class, N: 1, Witnesses: []string{wit}, FirstIdx: rep.Hang.Idx, Shard: shard, Round: roundOf(env)})
			resume = rep.Hang.Idx + 1
		default:
			// fatal crash: find the case from the progress cell
			b, err := os.ReadFile(progress)
			if err != nil || len(b) < 8 || code == -1 {
				res.broken = append(res.broken, fmt.Sprintf("shard %d: worker failed (code %d) and no progress cell: %s", shard, code, tail(stderr, 800)))
				return res
			}
			var idx int64
			for i := 7; i >= 0; i-- {
				idx = idx<<8 | int64(b[i])
			}
			if !strings.Contains(stderr, "fatal error") && !strings.Contains(stderr, "stack exceeds") && !strings.Contains(stderr, "panic:") && !strings.Contains(stderr, "signal: killed") {
				res.broken = append(res.broken, fmt.Sprintf("shard %d: worker exit %d: %s", shard, code, tail(stderr, 800)))
				return res
			}
			desc := describe(chk, tier, shard, n, idx, env...)
			sig := fatalSig(stderr)
			_, wit := hangSig("fatal", desc)
			res.hangs = append(res.hangs, &FailGroup{Sig: sig, Class: "fatal", N: 1, Witnesses: []string{wit}, FirstIdx: idx, Shard: shard, Detail: tail(stderr, 600), Round: roundOf(env)})
			// partial results of this attempt are lost: rerun the remaining range skipping the case
			skip = append(skip, idx)
		}
	}
	res.broken = append(res.broken, fmt.Sprintf("shard %d: too many worker restarts", shard))
	return res
}

func tail(s string, n int) string {
	if len(s) > n {
		return "…" + s[len(s)-n:]
	}
	return s
}

func roundOf(env []string) int {
	for _, e := range env {
		if strings.HasPrefix(e, "VERIF_ROUND=") {
			r, _ := strconv.Atoi(e[len("VERIF_ROUND="):])
			return r
		}
	}
	return 0
}

func describe(chk *Check, tier string, shard, n int, idx int64, env ...string) string {
	cmd := exec.Command(self(), "-worker", chk.ID, tier, strconv.Itoa(shard), strconv.Itoa(n), "0", strconv.FormatInt(idx, 10), "", "")
	cmd.Env = append(append(os.Environ(), "VERIF_DESCRIBE=1", "GOMAXPROCS=2"), env...)
	out, _ := cmd.Output()
	s := strings.TrimSpace(string(out))
	if i := strings.Index(s, "DESCRIBE "); i >= 0 {
		s = s[i+9:]
		if j := strings.IndexByte(s, '\n'); j >= 0 {
			s = s[:j]
		}
		return s
	}
	return fmt.Sprintf("case %d of shard %d/%d", idx, shard, n)
}

func workersFor(chk *Check) int {
	n := runtime.NumCPU()
	if n > 16 {
		n = 16
	}
	if chk.Workers > 0 && chk.Workers < n {
		n = chk.Workers
	}
	if s := os.Getenv("VERIF_WORKERS"); s != "" {
		if v, err := strconv.Atoi(s); err == nil && v > 0 {
			n = v
		}
	}
	return n
}

type merged struct {
	Report
	sets map[string]map[string]bool
}

func merge(all []*Report) *merged {
	m := &merged{sets: map[string]map[string]bool{}}
	m.Fails = map[string]*FailGroup{}
	m.Counters = map[string]int64{}
	sort.Slice(all, func(i, j int) bool { return all[i].Shard < all[j].Shard })
	for _, r := range all {
		m.Evaluations += r.Evaluations
		m.Nontrivial += r.Nontrivial
		m.States += r.States
		m.Transitions += r.Transitions
		m.Cases += r.Cases
		for k, v := range r.Counters {
			m.Counters[k] += v
		}
		for k, l := range r.Sets {
			s := m.sets[k]
			if s == nil {
				s = map[string]bool{}
				m.sets[k] = s
			}
			for _, x := range l {
				s[x] = true
			}
		}
		for _, s := range r.Samples {
			if len(m.Samples) < 8 {
				m.Samples = append(m.Samples, s)
			}
		}
		m.Polluted = m.Polluted || r.Polluted
		m.Capped = append(m.Capped, r.Capped...)
		m.Broken = append(m.Broken, r.Broken...)
		for sig, g := range r.Fails {
			mergeFail(m.Fails, sig, g)
		}
		for k, v := range r.Extra {
			if m.Extra == nil {
				m.Extra = map[string]any{}
			}
			if _, ok := m.Extra[k]; !ok {
				m.Extra[k] = v
			}
		}
	}
	return m
}

func mergeFail(into map[string]*FailGroup, sig string, g *FailGroup) {
	t := into[sig]
	if t == nil {
		c := *g
		into[sig] = &c
		return
	}
	t.N += g.N
	for _, w := range g.Witnesses {
		if len(t.Witnesses) < 4 {
			t.Witnesses = append(t.Witnesses, w)
		}
	}
}

func parent(chk *Check, tier string) int {
	t0 := time.Now()
	n := workersFor(chk)
	seed, _ := strconv.ParseInt(os.Getenv("VERIF_SEED"), 10, 64)
	rounds := 1
	if chk.Rounds != nil {
		rounds = chk.Rounds(tier)
	}
	var reps []*Report
	var broken []string
	var extra []*FailGroup
	roundEnv := make([][]string, rounds)
	for round := 0; round < rounds; round++ {
		env := []string{fmt.Sprintf("VERIF_ROUND=%d", round)}
		if round > 0 {
			pm := merge(reps)
			prev := map[string][]string{}
			for k, set := range pm.sets {
				l := make([]string, 0, len(set))
				for x := range set {
					l = append(l, x)
				}
				sort.Strings(l)
				prev[k] = l
			}
			pf := filepath.Join(VerifDir, ".build", "run", fmt.Sprintf("%s.%s.prev%d.json", chk.ID, tier, round))
			os.MkdirAll(filepath.Dir(pf), 0o755)
			b, _ := json.Marshal(prev)
			os.WriteFile(pf, b, 0o644)
			env = append(env, "VERIF_PREV="+pf)
		}
		roundEnv[round] = env
		results := make([]*shardResult, n)
		var wg sync.WaitGroup
		for s := 0; s < n; s++ {
			wg.Add(1)
			go func(s int) {
				defer wg.Done()
				results[s] = runShard(chk, tier, s, n, env...)
			}(s)
		}
		wg.Wait()
		for _, r := range results {
			reps = append(reps, r.reports...)
			broken = append(broken, r.broken...)
			extra = append(extra, r.hangs...)
		}
		if len(broken) > 0 {
			break
		}
	}
	m := merge(reps)
	for _, g := range extra {
		mergeFail(m.Fails, g.Sig, g)
	}
	broken = append(broken, m.Broken...)
	known, err := LoadKnown(chk.ID)
	if err != nil {
		broken = append(broken, err.Error())
	}
	sigs := make([]string, 0, len(m.Fails))
	for s := range m.Fails {
		sigs = append(sigs, s)
	}
	sort.Strings(sigs)
	type kf struct {
		Signature string `json:"signature"`
		What      string `json:"what"`
		Cases     int64  `json:"cases"`
		Witness   string `json:"witness"`
	}
	var knownFired []kf
	var newSigs []string
	for _, s := range sigs {
		g := m.Fails[s]
		if k, ok := known[s]; ok {
			wit := ""
			if len(g.Witnesses) > 0 {
				wit = g.Witnesses[0]
			}
			fmt.Printf("KNOWN-FINDING: property=%s %s [%s] (%d cases, e.g. %s)\n", chk.ID, k.What, s, g.N, oneLine(wit, 200))
			knownFired = append(knownFired, kf{s, k.What, g.N, wit})
		} else {
			newSigs = append(newSigs, s)
		}
	}
	// confirm new signatures by re-running their first case 5x in fresh workers
	violations := 0
	var vioList []map[string]any
	if len(newSigs) > 0 && os.Getenv("VERIF_NOCONFIRM") == "" {
		confirmN := len(newSigs)
		if confirmN > 12 {
			confirmN = 12
		}
		ok := make([]int, confirmN)
		var cw sync.WaitGroup
		sem := make(chan struct{}, 16)
		var mu sync.Mutex
		for i := 0; i < confirmN; i++ {
			g := m.Fails[newSigs[i]]
			if g.Class == "fatal" || g.Class == "hang" || g.Class == "memory" {
				ok[i] = 5 // already cost a worker; hangs are re-run with a longer budget below
				if g.Class == "hang" {
					ok[i] = 0
					for r := 0; r < 3; r++ {
						cw.Add(1)
						go func(i int, g *FailGroup) {
							defer cw.Done()
							sem <- struct{}{}
							defer func() { <-sem }()
							rep, code, _ := runWorker(chk, tier, g.Shard, n, 0, g.FirstIdx, nil, "", append([]string{"VERIF_WD_SCALE=3"}, roundEnv[g.Round]...)...)
							if code == 3 && rep != nil && rep.Hang != nil {
								mu.Lock()
								ok[i] += 2
								mu.Unlock()
							}
						}(i, g)
					}
				}
				continue
			}
			for r := 0; r < 5; r++ {
				cw.Add(1)
				go func(i int, g *FailGroup) {
					defer cw.Done()
					sem <- struct{}{}
					defer func() { <-sem }()
					rep, _, _ := runWorker(chk, tier, g.Shard, n, 0, g.FirstIdx, nil, "", roundEnv[g.Round]...)
					if rep != nil && rep.Fails[g.Sig] != nil {
						mu.Lock()
						ok[i]++
						mu.Unlock()
					}
				}(i, g)
			}
		}
		cw.Wait()
		for i := 0; i < confirmN; i++ {
			if ok[i] < 5 && m.Polluted && m.Fails[newSigs[i]].Class != "state-mutated" {
				// a value was mutated earlier in that worker (reported separately as a
				// violation); failures downstream of the mutation need not reproduce alone
				fmt.Printf("note: %q did not reproduce in isolation (%d/5); it followed a detected mutation of a shared value\n", newSigs[i], ok[i])
				continue
			}
			if m.Fails[newSigs[i]].Class == "race" {
				// the race detector reports each pair of accesses once per process and which pair it
				// names first depends on its bounded history: a race report is evidence on its own
				continue
			}
			if ok[i] < 5 {
				broken = append(broken, fmt.Sprintf("signature %q reproduced only %d/5 times (case %d of shard %d): nondeterministic harness, no verdict", newSigs[i], ok[i], m.Fails[newSigs[i]].FirstIdx, m.Fails[newSigs[i]].Shard))
			}
		}
	}
	os.MkdirAll(filepath.Join(VerifDir, "replays"), 0o755)
	for i, s := range newSigs {
		g := m.Fails[s]
		violations++
		path := filepath.Join(VerifDir, "replays", fmt.Sprintf("%s-%s-%d.json", chk.ID, tier, i))
		rp := map[string]any{"property": chk.ID, "tier": tier, "shard": g.Shard, "workers": n, "idx": g.FirstIdx, "env": roundEnv[g.Round],
			"signature": s, "class": g.Class, "witnesses": g.Witnesses, "detail": g.Detail, "cases": g.N, "seed": seed}
		b, _ := json.MarshalIndent(rp, "", " ")
		os.WriteFile(path, b, 0o644)
		vioList = append(vioList, map[string]any{"signature": s, "cases": g.N, "witness": first(g.Witnesses), "replay": path})
		if i < 40 {
			fmt.Printf("VIOLATION property=%s replay=%s\n", chk.ID, path)
			fmt.Printf("  signature: %s (%d cases)\n  witness: %s\n", s, g.N, oneLine(first(g.Witnesses), 300))
			if g.Detail != "" {
				fmt.Printf("  detail: %s\n", oneLine(g.Detail, 300))
			}
		}
	}
	wall := time.Since(t0).Seconds()
	distinct := map[string]int{}
	for k, s := range m.sets {
		distinct[k] = len(s)
	}
	exhaustive := len(m.Capped) == 0 && len(broken) == 0
	cov := map[string]any{
		"evaluations":         m.Evaluations,
		"distinct_nontrivial": m.Nontrivial,
		"rule":                chk.Rule,
		"samples":             m.Samples,
		"exhaustive":          exhaustive,
		"caps_hit":            uniq(m.Capped),
		"cases":               m.Cases,
		"workers":             n,
		"counters":            m.Counters,
		"distinct":            distinct,
		"known_findings":      knownFired,
		"new_violations":      vioList,
	}
	for k, v := range m.Extra {
		cov[k] = v
	}
	if chk.Level == "model_checking" {
		cov["states"] = m.States
		cov["transitions"] = m.Transitions
		cov["traces_validated_against_impl"] = m.Transitions
	}
	if len(m.Samples) == 0 {
		cov["samples"] = []any{"(no sample recorded)"}
	}
	ev := map[string]any{
		"property_id": chk.ID, "tier": tier, "seed": seed, "level": chk.Level, "coverage": cov,
		"assumptions": chk.Assume, "wall_s": wall, "violations": violations,
	}
	b, _ := json.MarshalIndent(ev, "", " ")
	os.MkdirAll(filepath.Join(VerifDir, "evidence"), 0o755)
	if err := os.WriteFile(filepath.Join(VerifDir, "evidence", chk.ID+".json"), b, 0o644); err != nil {
		broken = append(broken, err.Error())
	}
	fmt.Printf("%s %s: evaluations=%d nontrivial=%d states=%d transitions=%d known=%d new=%d exhaustive=%v wall=%.1fs\n",
		chk.ID, tier, m.Evaluations, m.Nontrivial, m.States, m.Transitions, len(knownFired), violations, exhaustive, wall)
	if len(broken) > 0 {
		for _, s := range uniq(broken) {
			fmt.Printf("BROKEN: %s\n", oneLine(s, 2000))
		}
		return 2
	}
	if violations > 0 {
		return 1
	}
	return 0
}

func first(l []string) string {
	if len(l) > 0 {
		return l[0]
	}
	return ""
}

func uniq(l []string) []string {
	seen := map[string]bool{}
	out := []string{}
	for _, s := range l {
		if !seen[s] {
			seen[s] = true
			out = append(out, s)
		}
	}
	return out
}

func oneLine(s string, n int) string {
	s = strings.ReplaceAll(s, "\n", "\\n")
	if len(s) > n {
		s = s[:n] + "…"
	}
	return s
}

func replay(chk *Check, path string) int {
	b, err := os.ReadFile(path)
	if err != nil {
		fmt.Fprintln(os.Stderr, err)
		return 2
	}
	var rp struct {
		Tier      string   `json:"tier"`
		Shard     int      `json:"shard"`
		Workers   int      `json:"workers"`
		Idx       int64    `json:"idx"`
		Signature string   `json:"signature"`
		Env       []string `json:"env"`
	}
	if err := json.Unmarshal(b, &rp); err != nil {
		fmt.Fprintln(os.Stderr, err)
		return 2
	}
	rep, code, stderr := runWorker(chk, rp.Tier, rp.Shard, rp.Workers, 0, rp.Idx, nil, "", rp.Env...)
	if rep == nil {
		fmt.Printf("worker exit %d: %s\n", code, tail(stderr, 1000))
		if code != 0 {
			fmt.Printf("VIOLATION property=%s replay=%s\n", chk.ID, path)
			return 1
		}
		return 2
	}
	if rep.Hang != nil {
		fmt.Printf("reproduced hang: %s\nVIOLATION property=%s replay=%s\n", rep.Hang.Desc, chk.ID, path)
		return 1
	}
	for s, g := range rep.Fails {
		fmt.Printf("reproduced: %s\n  witness: %s\n  detail: %s\n", s, first(g.Witnesses), g.Detail)
	}
	if len(rep.Fails) > 0 {
		fmt.Printf("VIOLATION property=%s replay=%s\n", chk.ID, path)
		return 1
	}
	fmt.Println("case passes on the current tree")
	return 0
}
