package e2checks

import (
	"context"
	"errors"
	"fmt"
	"os"
	"runtime"
	"strings"
	"sync"
	"time"

	"github.com/arr-ai/arrai/pkg/fu"
	"github.com/arr-ai/arrai/pkg/importcache"
	"github.com/arr-ai/arrai/pkg/zzverif/vsched"
	"github.com/arr-ai/arrai/pkg/zzverif/vsched/vsync"
	"github.com/arr-ai/arrai/rel"
	"github.com/arr-ai/arrai/syntax"

	"verif/harness/core"
)

// C11: concurrent evaluation over shared values is race-free and gives serial results.
//
// Every non-test file of arr.ai that imports "sync" is rebuilt against the scheduler-aware
// vsync shim, frozen's parallel fan-out (depth/gauge.go) is rewritten onto the scheduler
// shim, and small harness bodies - N goroutines operating on the SAME freshly built value,
// compiled expression or cache - are explored over every schedule up to a preemption
// bound. Oracles: each goroutine's result equals what the same operation returns alone
// (serial result); no deadlock; and the Go race detector, which the scheduler does not
// blind (shim compiled without instrumentation), reports no conflicting access with a
// frame in arr.ai.

type c11Op struct {
	name string
	f    func(shared any) string
}

type c11Body struct {
	name    string
	threads int
	setup   func() any
	ops     []c11Op
	// allowed, if not nil, decides whether a thread's result is acceptable given the
	// operations of all threads (default: equal to the operation's serial result).
	allowed func(me int, combo []int, got string, serial []string) bool
	// free: the body is too long for schedule enumeration (thousands of synchronisation
	// points per execution); its combinations are run once each on real goroutines, with the
	// race detector and the serial results as oracles (the complementary free-running pass).
	free bool
	// delay: budget counts every departure from the deterministic default schedule (see Stats.Delay)
	delay bool
}

type yes struct{}

func (yes) Enabled() bool { return true }

func yield(label string) {
	if vsched.Active() {
		vsched.Block(label, yes{})
	}
}

func safeStr(f func() string) (s string) {
	defer func() {
		if r := recover(); r != nil {
			s = "panic: " + core.NormMsg(fmt.Sprint(r))
		}
	}()
	return f()
}

var c11Exprs = map[string]rel.Expr{}

func c11Compile(src string) rel.Expr {
	if e, ok := c11Exprs[src]; ok {
		return e
	}
	e, err := syntax.Compile(context.Background(), syntax.NoPath, src)
	if err != nil {
		panic(err)
	}
	c11Exprs[src] = e
	return e
}

func evalWith(src string, kv ...any) string {
	e := c11Compile(src)
	sc := rel.EmptyScope
	for i := 0; i+1 < len(kv); i += 2 {
		sc = sc.With(kv[i].(string), kv[i+1].(rel.Expr))
	}
	return safeStr(func() string {
		v, err := e.Eval(context.Background(), sc)
		if err != nil {
			if os.Getenv("VERIF_C11_DEBUG") != "" {
				return "error:" + core.NormMsg(err.Error())
			}
			return "error"
		}
		return fu.Repr(v)
	})
}

type tupleShared struct{ t, u rel.Tuple }

type relShared struct{ r, s, t rel.Value }

type cacheShared struct {
	ctx   context.Context
	calls map[string]int
}

func mustVal(src string) rel.Value {
	v, err := c11Compile(src).Eval(context.Background(), rel.EmptyScope)
	if err != nil {
		panic(err)
	}
	return v
}

func c11Bodies(thorough bool) []c11Body {
	freshTuple := func() any {
		// built through the builder each time: the lazily computed caches are unset
		return &tupleShared{
			t: rel.NewTuple(rel.NewAttr("c", rel.NewNumber(1)), rel.NewAttr("a", rel.NewNumber(2)), rel.NewAttr("b", rel.NewNumber(3)), rel.NewAttr("d", rel.NewNumber(4))),
			u: rel.NewTuple(rel.NewAttr("c", rel.NewNumber(1)), rel.NewAttr("a", rel.NewNumber(2)), rel.NewAttr("b", rel.NewNumber(4)), rel.NewAttr("d", rel.NewNumber(4))),
		}
	}
	tupleOps := []c11Op{
		{"ordered-names", func(s any) string {
			return safeStr(func() string { return fmt.Sprint(rel.TupleOrderedNames(s.(*tupleShared).t.(*rel.GenericTuple))) })
		}},
		{"repr", func(s any) string { return safeStr(func() string { return fu.Repr(s.(*tupleShared).t) }) }},
		{"less", func(s any) string {
			return safeStr(func() string { return fmt.Sprint(s.(*tupleShared).t.Less(s.(*tupleShared).u)) })
		}},
		{"into-set", func(s any) string { return evalWith("{t, u} count", "t", s.(*tupleShared).t, "u", s.(*tupleShared).u) }},
		{"names", func(s any) string {
			return safeStr(func() string { return fmt.Sprint(s.(*tupleShared).t.Names().OrderedNames()) })
		}},
		{"project", func(s any) string { return evalWith("t.|a, c|", "t", s.(*tupleShared).t) }},
	}
	freshRel := func() any {
		mk := func(src string) rel.Value {
			// evaluated afresh: a new Relation with an empty index cache
			v, err := syntax.EvaluateExpr(context.Background(), syntax.NoPath, src)
			if err != nil {
				panic(err)
			}
			return v
		}
		return &relShared{
			r: mk(`{|a, b, c| (1, 1, 1), (1, 2, 2), (2, 1, 3), (2, 2, 4)}`),
			s: mk(`{|b, d| (1, 5), (2, 6)}`),
			t: mk(`{|a, e| (1, 7), (2, 8)}`),
		}
	}
	relOps := []c11Op{
		{"join-on-b", func(s any) string { return evalWith("r <&> s", "r", s.(*relShared).r, "s", s.(*relShared).s) }},
		{"join-on-a", func(s any) string { return evalWith("r <&> t", "r", s.(*relShared).r, "t", s.(*relShared).t) }},
		{"compose-b", func(s any) string { return evalWith("r <-> s", "r", s.(*relShared).r, "s", s.(*relShared).s) }},
		{"exists-a", func(s any) string { return evalWith("r --- t", "r", s.(*relShared).r, "t", s.(*relShared).t) }},
		{"where", func(s any) string { return evalWith("r where .a = 1", "r", s.(*relShared).r) }},
		{"repr", func(s any) string { return safeStr(func() string { return fu.Repr(s.(*relShared).r) }) }},
	}
	// import cache: add functions contain a scheduling point (they run outside the cache's lock)
	freshCache := func() any {
		return &cacheShared{ctx: importcache.WithNewImportCache(context.Background()), calls: map[string]int{}}
	}
	get := func(key string, fail bool, val float64) func(any) string {
		return func(s any) string {
			cs := s.(*cacheShared)
			return safeStr(func() string {
				e, err := importcache.GetOrAddFromCache(cs.ctx, key, func() (rel.Expr, error) {
					yield("add(" + key + ") running")
					if fail {
						return nil, errors.New("boom")
					}
					return rel.NewNumber(val), nil
				})
				switch {
				case err != nil:
					return "error"
				case e == nil:
					return "nil-without-error"
				}
				return fu.Repr(e.(rel.Value))
			})
		}
	}
	cacheOps := []c11Op{{"import-A", get("A", false, 1)}, {"import-B", get("B", false, 2)}, {"import-A-failing", get("A", true, 0)}}
	cacheAllowed := func(me int, combo []int, got string, serial []string) bool {
		if got == "nil-without-error" || strings.HasPrefix(got, "panic") {
			return false
		}
		// a caller gets the outcome of SOME add for its key issued by one of the threads
		keyOf := func(op int) string {
			if op == 1 {
				return "B"
			}
			return "A"
		}
		for _, other := range combo {
			if keyOf(other) == keyOf(combo[me]) && serial[other] == got {
				return true
			}
		}
		return false
	}
	// shared compiled expression evaluated with different scopes
	exprOps := []c11Op{
		{"eval-x=1", func(any) string { return evalWith("(x +> (k: 1)) -> .k + (x.v?:0)", "x", mustVal("(v: 1)")) }},
		{"eval-x=2", func(any) string { return evalWith("(x +> (k: 1)) -> .k + (x.v?:0)", "x", mustVal("(v: 2)")) }},
		{"eval-x=()", func(any) string { return evalWith("(x +> (k: 1)) -> .k + (x.v?:0)", "x", mustVal("()")) }},
	}
	// frozen fan-out: one caller, the library spreads the callbacks over goroutines
	bigSet := func() any { return mustVal("{0, 1, 2, 3, 4, 5, 6, 7, 8, 9, 10, 11}") }
	fanOps := []c11Op{
		{"where-all-pass", func(s any) string { return evalWith("s where . < 100", "s", s) }},
		{"where-one-fails", func(s any) string { return evalWith("s where ((v: .) -> cond {.v = 7: .zz, _: true})", "s", s) }},
		{"where-two-fail", func(s any) string {
			return evalWith("s where ((v: .) -> cond {.v = 7: .zz, .v = 3: .zz, _: true})", "s", s)
		}},
		{"map", func(s any) string { return evalWith("s => . + 1", "s", s) }},
		{"union", func(s any) string { return evalWith("s | {20, 21, 22, 23, 24, 25, 26, 27, 28, 29}", "s", s) }},
	}
	bigRel := func() any {
		return mustVal("{|a, b| (0,0),(1,1),(2,2),(3,3),(4,4),(5,5),(6,6),(7,7),(8,8),(9,9),(10,10),(11,11)}")
	}
	relFanOps := []c11Op{
		{"rel-where-one-fails", func(s any) string { return evalWith("r where cond {.a = 7: .zz, _: true}", "r", s) }},
		{"rel-where-two-fail", func(s any) string {
			return evalWith("r where cond {.a = 7: .zz, .a = 3: .zz, _: true}", "r", s)
		}},
		{"rel-join", func(s any) string { return evalWith("r <&> {|a, c| (1, 1), (7, 7)}", "r", s) }},
	}
	// process-wide lazily built state of the syntax package, reset to "never used" before every execution
	freshLazies := func() any { syntax.VerifResetLazies(strings.NewReader("abc")); return nil }
	lazyOps := []c11Op{
		{"stdin", func(any) string {
			return safeStr(func() string {
				v, err := syntax.VerifStdinRead()
				if err != nil {
					return "error"
				}
				return fu.Repr(v)
			})
		}},
		{"fix", func(any) string {
			return safeStr(func() string { f, ft := syntax.FixFuncs(); return fmt.Sprint(f != nil, ft != nil, f, ft) })
		}},
		{"implicit-decoder", func(any) string { return safeStr(func() string { return fmt.Sprint(syntax.VerifImplicitDecoder()) }) }},
		{"embedded-file", func(any) string {
			return safeStr(func() string { return fmt.Sprint(len(syntax.VerifEmbedded("embed/implicit_import.arrai"))) })
		}},
	}
	// building the std scope converts the whole arr.ai grammar into a value: thousands of
	// first-use points per execution, so it only gets the free-running pass
	scopeOps := []c11Op{
		{"safe-std-scope", func(any) string {
			return safeStr(func() string {
				v, _ := syntax.SafeStdScope().Get("//")
				return fmt.Sprint(v.(rel.Tuple).Names().OrderedNames())
			})
		}},
		{"fix", lazyOps[1].f},
		{"eval-//seq", func(any) string {
			return safeStr(func() string {
				e, err := syntax.Compile(context.Background(), syntax.NoPath, `//seq.join(",", ["a", "b"])`)
				if err != nil {
					return "compile error"
				}
				v, err := e.Eval(context.Background(), rel.EmptyScope)
				if err != nil {
					return "error"
				}
				return fu.Repr(v)
			})
		}},
	}
	n := 2
	if thorough {
		n = 3
	}
	return []c11Body{

		{name: "process-lazies", threads: n, setup: freshLazies, ops: lazyOps},
		{name: "shared-tuple-caches", threads: n, setup: freshTuple, ops: tupleOps},
		{name: "shared-relation-index", threads: n, setup: freshRel, ops: relOps},
		{name: "shared-compiled-expr", threads: n, setup: func() any { return nil }, ops: exprOps},
		{name: "import-cache", threads: 3, setup: freshCache, ops: cacheOps, allowed: cacheAllowed},
		{name: "frozen-fanout-set", threads: 1, setup: bigSet, ops: fanOps, delay: true},
		{name: "frozen-fanout-relation", threads: 1, setup: bigRel, ops: relFanOps, delay: true},
		{name: "std-scope-first-use", threads: 3, setup: func() any { syntax.VerifResetStdScope(); return freshLazies() }, ops: scopeOps, free: true},
	}
}

func checkC11(w *core.W) {
	runtime.GOMAXPROCS(1)
	c17Init() // silences logrus
	bound := 2
	var maxExecs int64 = 20000
	if w.Thorough {
		bound = 3
		maxExecs = 300000
	}
	bodies := c11Bodies(w.Thorough)
	k := 0
	for _, b := range bodies {
		b := b
		// serial results: each operation alone on a fresh shared object, outside the explorer
		serial := make([]string, len(b.ops))
		for i, op := range b.ops {
			serial[i] = op.f(b.setup())
		}
		// all combinations (with repetition, ordered) of b.threads operations
		var combos [][]int
		var rec func(cur []int)
		rec = func(cur []int) {
			if len(cur) == b.threads {
				combos = append(combos, append([]int{}, cur...))
				return
			}
			for i := range b.ops {
				rec(append(cur, i))
			}
		}
		rec(nil)
		for _, combo := range combos {
			k++
			if !w.Mine(k) {
				continue
			}
			combo := combo
			names := make([]string, len(combo))
			for i, c := range combo {
				names[i] = b.ops[c].name
			}
			desc := b.name + ": " + strings.Join(names, " || ")
			if b.free {
				w.Case(func() string { return "concurrent|" + b.name + " ## " + desc + " (free-running)" }, func() {
					b.setup()
					res := make([]string, len(combo))
					var wg sync.WaitGroup
					for i, c := range combo {
						i, c := i, c
						wg.Add(1)
						go func() {
							defer wg.Done()
							res[i] = b.ops[c].f(nil)
						}()
					}
					wg.Wait()
					syntax.StdScope() // rebuilt serially before anything else runs
					w.Eval(true)
					w.Count("free_running_executions", 1)
					for i, c := range combo {
						if res[i] != serial[c] {
							w.Fail("spec", "concurrent|"+b.name+"|result-differs-from-serial:"+b.ops[c].name, desc+" (free-running)", fmt.Sprintf("thread %d got %s, alone it gives %s", i, short(res[i]), short(serial[c])))
						}
					}
				})
				continue
			}
			w.Case(func() string { return "concurrent|" + b.name + " ## " + desc }, func() {
				// internal wall-clock budget per combination: running out of it caps the exploration (reported), never alarms
				st := &Stats{Outcomes: map[string]int64{}, States: map[string]bool{}, Delay: b.delay, Deadline: time.Now().Add(90 * time.Second)}
				reported := map[string]bool{}
				var res []string
				// iterative preemption bounding: every schedule with <=1 preemption first (complete,
				// cheap), then the full bound under the execution cap
				completed := -1
				for _, bnd := range []int{1, bound} {
					if st.Capped || bnd <= completed {
						continue
					}
					Explore(func(prefix []int) *vsched.Exec {
						res = make([]string, len(combo))
						return vsched.Run(prefix, 20000, func() {
							shared := b.setup()
							var wg vsync.WaitGroup
							for i, c := range combo {
								i, c := i, c
								wg.Add(1)
								vsched.Go(func() {
									defer wg.Done()
									res[i] = b.ops[c].f(shared)
								})
							}
							wg.Wait()
						})
					}, bnd, maxExecs, st, func(x *vsched.Exec, choices []int) {
						w.Eval(len(x.Points) > 1)
						w.AddTransitions(1)
						fail := func(kind, detail string) {
							sig := "concurrent|" + b.name + "|" + kind
							if !reported[sig] {
								reported[sig] = true
								w.Fail("spec", sig, desc+"; schedule "+fmt.Sprint(choices), detail)
							}
						}
						switch {
						case x.Deadlock:
							fail("deadlock:"+normBlocked(x.DeadlockInfo), x.DeadlockInfo)
						case x.DeadlockInfo != "":
							fail("panic:"+core.NormMsg(x.DeadlockInfo), x.DeadlockInfo)
						default:
							for i, c := range combo {
								ok := res[i] == serial[c]
								if b.allowed != nil {
									ok = b.allowed(i, combo, res[i], serial)
								}
								if !ok {
									fail("result-differs-from-serial:"+b.ops[c].name, fmt.Sprintf("thread %d (%s) got %s, alone it gives %s", i, b.ops[c].name, short(res[i]), short(serial[c])))
								}
							}
						}
						st.Outcomes[strings.Join(res, " # ")]++
					})
					if !st.Capped {
						completed = bnd
					}
				}
				if os.Getenv("VERIF_C11_DEBUG") != "" {
					df, _ := os.OpenFile(os.Getenv("VERIF_C11_DEBUG"), os.O_APPEND|os.O_CREATE|os.O_WRONLY, 0o644)
					defer df.Close()
					fmt.Fprintf(df, "DEBUG %s: execs=%d capped=%v completed=%d outcomes=%v\n", desc, st.Execs, st.Capped, completed, st.Outcomes)
				}
				w.Count("executions", st.Execs)
				w.Count("scheduling_points", st.Points)
				w.AddStates(len(st.States))
				w.Note("outcomes", fmt.Sprintf("%s: %d", desc, len(st.Outcomes)))
				if st.Capped {
					w.Cap(fmt.Sprintf("%s: execution cap %d hit at preemption bound %d (complete for <=%d preemptions)", desc, maxExecs, bound, completed))
				}
				if w.Shard == 0 {
					w.Sample(map[string]any{"body": desc, "executions": st.Execs, "distinct_outcomes": len(st.Outcomes), "preemption_bound_completed": completed})
				}
			})
		}
	}
}

func short(s string) string {
	if len(s) > 140 {
		return s[:140] + "…"
	}
	return s
}

var C11 = core.Check{
	ID: "C11", Level: "model_checking", Fn: checkC11, Watchdog: 300 * time.Second,
	Rule:   "stateless exploration under the controlled scheduler of harness bodies in which 2 (quick) / 3 (thorough) goroutines operate on the same freshly built object: a generic tuple with unset lazy caches (6 operations), a relation with an empty index cache (6 operations), one compiled expression with different scopes (3), 3 goroutines on one import cache (same key, different key, failing add; add functions contain a scheduling point), and the process-wide lazies of the syntax package reset to never-used before every execution through a verif hook (//os.stdin reader and cache, fix functions, implicit import decoder, embedded-file cache: 4 operations); plus single-caller bodies in which frozen's parallel fan-out (FROZEN_CONCURRENCY=-6, depth/gauge.go rewritten onto the scheduler) spreads where/=>/union/join callbacks over goroutines (predicates failing inside the callback on 0, 1, 2 elements). Every ordered combination of operations x every schedule with <=2 (quick) / <=3 (thorough) preemptions, explored by iterative bounding (all schedules with <=1 first, then the full bound under an execution cap that is reported); in the fan-out bodies, where 6-12 symmetric worker goroutines make even the zero-preemption space factorial, the budget is counted in deviations from the deterministic default schedule instead (delay bounding); each goroutine's result must equal the operation's serial result (import cache: the outcome of some add for its key, never nil without error), no deadlock, and the Go race detector must stay silent for frames in arr.ai. non-trivial = execution with more than one scheduling point",
	Assume: []string{"scheduling points are the sync.Mutex/RWMutex/Once/Cond/WaitGroup operations of arr.ai (every file importing sync is rebuilt against the shim) and the channel/go operations of frozen's gauge.go", "frozen itself and the Go runtime are trusted; the real fan-out threshold (131072 elements) is replaced by the library's own FROZEN_CONCURRENCY knob", "first use of the process-wide standard-library scopes builds the whole arr.ai grammar as a value (thousands of synchronisation points): its 27 three-goroutine combinations are run once each on real goroutines with the race detector and the serial results as oracles (free-running pass, not enumerated)"},
}
