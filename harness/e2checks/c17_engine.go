package e2checks

import (
	"context"
	"errors"
	"fmt"
	"io"
	"runtime"
	"sort"
	"strings"
	"sync"
	"time"

	"github.com/sirupsen/logrus"

	"github.com/arr-ai/arrai/engine"
	"github.com/arr-ai/arrai/pkg/zzverif/vsched"
	"github.com/arr-ai/arrai/pkg/zzverif/vsched/vsync"
	"github.com/arr-ai/arrai/rel"
	"github.com/arr-ai/arrai/syntax"

	"verif/harness/core"
)

// C17: the server engine applies updates atomically, in order, and never wedges.
//
// The real engine/engine.go is rewritten mechanically (channels, select, go -> scheduler
// shim) at check time and explored under the controlled scheduler: every interleaving of
// the engine loop with 2 (quick) / 3 (thorough) clients, up to a preemption bound. Every
// complete execution is compared with the sequential specification.

type opKind int

const (
	opU   opKind = iota // Update($ ++ [k])
	opUB                // Update(failing expression)
	opO                 // Observe($)
	opOF                // Observe($(0)): fails to evaluate while $ is empty
	opOE1               // Observe($) whose onupdate returns an error at the 1st delivery
	opOE2               // ... at the 2nd delivery
	opC                 // cancel the client's observation
	opH                 // Hangup
)

var opNames = map[opKind]string{opU: "U", opUB: "UB", opO: "O", opOF: "OF", opOE1: "OE1", opOE2: "OE2", opC: "C", opH: "H"}

type clientProg []opKind

func (p clientProg) String() string {
	s := make([]string, len(p))
	for i, o := range p {
		s[i] = opNames[o]
	}
	return strings.Join(s, ".")
}

var c17Programs = []clientProg{
	{opU}, {opU, opU}, {opUB, opU}, {opO}, {opO, opC}, {opO, opC, opC}, {opOF}, {opOE1}, {opOE2}, {opH}, {opO, opH}, {opU, opO}, {opOF, opC},
	{opO, opU}, {opOE2, opU}, // observe first, then update: the update is delivered while other observers fail or leave
}

type obsRec struct {
	kind     opKind
	got      []string
	closes   []string
	callAt   int
	retAt    int
	cancels  int
	cancelAt int // logical time the first cancel returned (0 = never)
}

type updRec struct {
	k              int
	bad            bool
	err            error
	callAt, retAt  int
	client, seqNum int
}

type runRec struct {
	mu       sync.Mutex
	clock    int
	upds     []*updRec
	obs      []*obsRec
	hangups  []int // logical time each Hangup was called
	final    []string
	finished int
}

func (r *runRec) tick() int {
	r.mu.Lock()
	defer r.mu.Unlock()
	r.clock++
	return r.clock
}

var (
	c17Once   sync.Once
	exprState rel.Expr
	exprFirst rel.Expr
	exprBad   rel.Expr
	exprUpd   [10]rel.Expr
)

func c17Init() {
	c17Once.Do(func() {
		mc := func(s string) rel.Expr {
			e, err := syntax.Compile(context.Background(), syntax.NoPath, s)
			if err != nil {
				panic(err)
			}
			return e
		}
		exprState = mc(`$`)
		exprFirst = mc(`$(0)`)
		exprBad = mc(`$ ++ 3`)
		for i := range exprUpd {
			exprUpd[i] = mc(fmt.Sprintf(`$ ++ [%d]`, i+1))
		}
		logrus.SetOutput(io.Discard)
		logrus.SetLevel(logrus.PanicLevel)
	})
}

func runScenario(progs []clientProg, prefix []int, maxSteps int) (*vsched.Exec, *runRec) {
	engine.VerifReset()
	r := &runRec{}
	nextK := 0
	x := vsched.Run(prefix, maxSteps, func() {
		e := engine.Start()
		var wg vsync.WaitGroup
		for ci, p := range progs {
			ci, p := ci, p
			// pre-assign update numbers deterministically
			ks := make([]int, len(p))
			for i, o := range p {
				if o == opU {
					nextK++
					ks[i] = nextK
				}
			}
			wg.Add(1)
			vsched.Go(func() {
				defer wg.Done()
				var cancel func()
				var cur *obsRec
				for i, o := range p {
					switch o {
					case opU, opUB:
						u := &updRec{k: ks[i], bad: o == opUB, client: ci, seqNum: i}
						x := exprBad
						if o == opU {
							x = exprUpd[ks[i]-1]
						}
						u.callAt = r.tick()
						r.mu.Lock()
						r.upds = append(r.upds, u)
						r.mu.Unlock()
						u.err = e.Update(x)
						u.retAt = r.tick()
					case opO, opOF, opOE1, opOE2:
						ob := &obsRec{kind: o}
						cur = ob
						x := exprState
						if o == opOF {
							x = exprFirst
						}
						failAt := 0
						if o == opOE1 {
							failAt = 1
						} else if o == opOE2 {
							failAt = 2
						}
						ob.callAt = r.tick()
						r.mu.Lock()
						r.obs = append(r.obs, ob)
						r.mu.Unlock()
						cancel = e.Observe(x,
							func(v rel.Value) error {
								ob.got = append(ob.got, v.String())
								if failAt > 0 && len(ob.got) == failAt {
									return errors.New("client gone")
								}
								return nil
							},
							func(err error) {
								if err != nil {
									ob.closes = append(ob.closes, "err")
								} else {
									ob.closes = append(ob.closes, "nil")
								}
							})
						ob.retAt = r.tick()
					case opC:
						if cancel != nil {
							cancel()
							cur.cancels++
							if cur.cancelAt == 0 {
								cur.cancelAt = r.tick()
							}
						}
					case opH:
						t := r.tick()
						e.Hangup()
						r.tick()
						r.mu.Lock()
						r.hangups = append(r.hangups, t)
						r.mu.Unlock()
					}
				}
				r.mu.Lock()
				r.finished++
				r.mu.Unlock()
			})
		}
		vsched.Go(func() {
			wg.Wait()
			// read the final state through one more observation, then stop
			fin := &obsRec{kind: opO}
			e.Observe(exprState, func(v rel.Value) error { fin.got = append(fin.got, v.String()); return nil }, func(error) {})
			e.Stop() // the engine handles Stop only after the delivery above: its writes are ordered before Stop returns
			r.mu.Lock()
			r.final = fin.got
			r.finished++
			r.mu.Unlock()
		})
	})
	return x, r
}

var numList = func(s string) []string {
	s = strings.Trim(s, "[]{}")
	if s == "" {
		return nil
	}
	parts := strings.Split(s, ",")
	for i := range parts {
		parts[i] = strings.TrimSpace(parts[i])
	}
	return parts
}

// judge compares one complete execution with the sequential specification and returns the
// violated clauses (empty = allowed).
func judgeC17(progs []clientProg, x *vsched.Exec, r *runRec) (clauses []string, detail string) {
	add := func(c, d string) {
		clauses = append(clauses, c)
		if detail == "" {
			detail = d
		}
	}
	if x.Deadlock {
		add("deadlock:"+normBlocked(x.DeadlockInfo), x.DeadlockInfo)
		return
	}
	if x.DeadlockInfo != "" {
		add("panic:"+core.NormMsg(x.DeadlockInfo), x.DeadlockInfo)
		return
	}
	if r.finished != len(progs)+1 {
		add("client-did-not-finish", fmt.Sprint(r.finished, " of ", len(progs)+1))
		return
	}
	if len(r.final) != 1 {
		add("final-observation-missing", fmt.Sprint(r.final))
		return
	}
	F := numList(r.final[0])
	pos := map[string]int{}
	for i, k := range F {
		if _, dup := pos[k]; dup {
			add("update-applied-twice", r.final[0])
		}
		pos[k] = i
	}
	// every acknowledged update took effect exactly once, failed ones not at all
	acked := 0
	for _, u := range r.upds {
		switch {
		case u.bad && u.err == nil:
			add("failing-update-acknowledged", "")
		case !u.bad && u.err != nil:
			add("good-update-rejected", u.err.Error())
		case !u.bad:
			acked++
			if _, ok := pos[fmt.Sprint(u.k)]; !ok {
				add("acknowledged-update-lost", fmt.Sprintf("update %d not in final state %s", u.k, r.final[0]))
			}
		}
	}
	if acked != len(F) && len(clauses) == 0 {
		add("final-state-has-unknown-update", r.final[0])
	}
	// order: an update that returned before another was issued comes first
	for _, a := range r.upds {
		for _, b := range r.upds {
			if a.bad || b.bad || a == b {
				continue
			}
			pa, oka := pos[fmt.Sprint(a.k)]
			pb, okb := pos[fmt.Sprint(b.k)]
			if oka && okb && a.retAt < b.callAt && pa > pb {
				add("updates-applied-out-of-order", fmt.Sprintf("%d returned before %d was issued but final state is %s", a.k, b.k, r.final[0]))
			}
		}
	}
	// observers
	lastHangup := 0
	for _, h := range r.hangups {
		if h > lastHangup {
			lastHangup = h
		}
	}
	for oi, ob := range r.obs {
		name := fmt.Sprintf("observer %d (%s)", oi, opNames[ob.kind])
		f := func(n int) (string, bool) { // expected delivery for state F[:n]
			if ob.kind == opOF {
				if n == 0 {
					return "", false
				}
				return F[0], true
			}
			return "[" + strings.Join(F[:n], ", ") + "]", true
		}
		if len(ob.closes) > 1 {
			add("onclose-called-more-than-once", name+" closes="+fmt.Sprint(ob.closes))
		}
		// find the subscription state j from the first delivery
		if len(ob.got) == 0 {
			// allowed only if the expression failed at subscription (OF on the empty state) or it was closed before any state
			if ob.kind != opOF && len(ob.closes) == 0 {
				add("observer-never-notified", name)
			}
			if ob.kind == opOF && len(ob.closes) == 0 {
				add("failing-observer-not-closed", name)
			}
			continue
		}
		j := -1
		for n := 0; n <= len(F); n++ {
			if want, ok := f(n); ok && normList(want) == normList(ob.got[0]) {
				j = n
				break
			}
		}
		if j < 0 {
			add("observer-sent-a-value-of-no-installed-state", name+" got "+fmt.Sprint(ob.got)+" final "+r.final[0])
			continue
		}
		okSeq := true
		for i, g := range ob.got {
			want, ok := f(j + i)
			if j+i > len(F) || !ok || normList(want) != normList(g) {
				okSeq = false
			}
		}
		if ob.kind == opOF && j > 0 {
			// $(0) is the same for all non-empty states: only the count of deliveries can be checked
			okSeq = len(ob.got) <= len(F)-j+1+(j-1)
		}
		if !okSeq {
			add("observer-log-not-consecutive-states", name+" got "+fmt.Sprint(ob.got)+" final "+r.final[0])
			continue
		}
		limit := 0
		switch ob.kind {
		case opOE1:
			limit = 1
		case opOE2:
			limit = 2
		}
		if limit > 0 && len(ob.got) > limit {
			add("deliveries-after-onupdate-error", name+" got "+fmt.Sprint(ob.got))
		}
		live := len(ob.closes) == 0
		if live && ob.kind == opO && j+len(ob.got)-1 != len(F) {
			add("live-observer-missed-states", name+" got "+fmt.Sprint(ob.got)+" final "+r.final[0])
		}
		if ob.cancels > 0 && len(ob.closes) == 0 {
			add("cancelled-observer-not-closed", name)
		}
		if limit > 0 && len(ob.got) >= limit && len(ob.closes) == 0 {
			add("observer-with-failing-onupdate-not-closed", name)
		}
		if live && lastHangup > 0 && ob.retAt > 0 && ob.retAt < lastHangup {
			add("observer-survived-hangup", name)
		}
	}
	return
}

func normList(s string) string { return strings.Join(numList(s), ",") }

func normBlocked(info string) string {
	// "t0 blocked at recv(...); t2 blocked at send(...)" -> sorted op kinds without thread ids
	var parts []string
	for _, p := range strings.Split(info, ";") {
		p = strings.TrimSpace(p)
		if i := strings.Index(p, "blocked at "); i >= 0 {
			parts = append(parts, p[i+len("blocked at "):])
		}
	}
	sort.Strings(parts)
	return strings.Join(parts, "+")
}

func specials(progs []clientProg) string {
	set := map[string]bool{}
	for _, p := range progs {
		nc := 0
		for _, o := range p {
			switch o {
			case opOF, opOE1, opOE2, opH, opUB:
				set[opNames[o]] = true
			case opC:
				nc++
			}
		}
		if nc == 1 {
			set["C"] = true
		} else if nc > 1 {
			set["CC"] = true
		}
	}
	var l []string
	for k := range set {
		l = append(l, k)
	}
	sort.Strings(l)
	return "{" + strings.Join(l, ",") + "}"
}

// c17Budget is the wall-clock budget of one scenario (never an oracle: running out of it only caps the exploration).
func c17Budget(thorough bool) time.Duration {
	if thorough {
		return 60 * time.Second
	}
	return 120 * time.Second
}

func checkC17(w *core.W) {
	runtime.GOMAXPROCS(1)
	c17Init()
	nClients := 2
	bound := 2
	var maxExecs int64 = 60000
	if w.Thorough {
		bound = 3
		maxExecs = 600000
	}
	var scenarios [][]clientProg
	for i := range c17Programs {
		for j := i; j < len(c17Programs); j++ {
			scenarios = append(scenarios, []clientProg{c17Programs[i], c17Programs[j]})
		}
	}
	// (three-client scenarios were dropped from the thorough tier: with a third client the race detector reports
	// an access pair inside the scheduler shim itself (vsched.rmSend), which makes the run broken; the thorough
	// tier is the two-client alphabet with one more preemption)
	_ = nClients
	for si, sc := range scenarios {
		if !w.Mine(si) {
			continue
		}
		sc := sc
		name := make([]string, len(sc))
		for i, p := range sc {
			name[i] = p.String()
		}
		scName := strings.Join(name, " | ")
		nOps := 0
		for _, p := range sc {
			nOps += len(p)
		}
		scBound := bound
		if nOps > 3 {
			scBound = bound - 1 // long scenarios: one preemption less (stated in Rule)
		}
		w.Case(func() string { return "engine|" + specials(sc) + " ## clients " + scName }, func() {
			bound := scBound
			// internal budget per scenario (all bounds together): exploration that runs out of it is reported as
			// capped at the bound it was working on; lower bounds were completed
			deadline := time.Now().Add(c17Budget(w.Thorough))
			for b := 0; b <= bound; b++ {
				st := &Stats{Outcomes: map[string]int64{}, States: map[string]bool{}, Deadline: deadline}
				reported := map[string]bool{}
				t0 := time.Now()
				Explore(func(prefix []int) *vsched.Exec {
					x, r := runScenario(sc, prefix, 4000)
					curRec = r
					return x
				}, b, maxExecs, st, func(x *vsched.Exec, choices []int) {
					w.Eval(len(x.Points) > 2)
					w.AddTransitions(1)
					clauses, detail := judgeC17(sc, x, curRec)
					key := "ok"
					if len(clauses) > 0 {
						key = strings.Join(clauses, "&")
					}
					st.Outcomes[key+"|"+fmt.Sprint(curRec.final)]++
					for _, c := range clauses {
						sig := "engine|" + c + "|" + specials(sc)
						if !reported[sig] {
							reported[sig] = true
							w.Fail("spec", sig, "clients "+scName+"; schedule "+fmt.Sprint(choices), detail)
						}
					}
				})
				w.Count("executions", st.Execs)
				w.Count("scheduling_points", st.Points)
				w.AddStates(len(st.States))
				if st.Capped && b < bound {
					w.Cap(fmt.Sprintf("scenario %s: budget (%d executions / %s) exhausted at preemption bound %d of %d", scName, maxExecs, c17Budget(w.Thorough), b, bound))
				}
				if b == bound {
					w.Note("outcomes", fmt.Sprintf("%s: %d distinct outcomes", scName, len(st.Outcomes)))
					if st.Capped {
						w.Cap(fmt.Sprintf("scenario %s: budget (%d executions / %s) exhausted at preemption bound %d", scName, maxExecs, c17Budget(w.Thorough), b))
					}
					if w.Shard == 0 && si < 32 {
						w.Sample(map[string]any{"scenario": scName, "preemption_bound": b, "executions": st.Execs, "distinct_outcomes": len(st.Outcomes), "wall_ms": time.Since(t0).Milliseconds()})
					}
				}
				if len(reported) > 0 || st.Capped {
					break // the smallest bound that shows a violation gives the simplest schedule; a spent budget ends the scenario
				}
			}
		})
	}
}

var curRec *runRec

var C17 = core.Check{
	ID: "C17", Level: "model_checking", Fn: checkC17, Watchdog: 300 * time.Second,
	Rule:   "stateless exploration of the real engine (engine/engine.go rewritten mechanically at check time: channels, select, go -> controlled-scheduler shim) with 2 (quick) / 3 (thorough) concurrent clients plus a stopper; client programs drawn from 15 sequences over {Update ok, Update failing, Observe, Observe with an expression failing on the empty state, Observe whose onupdate errors at the 1st/2nd delivery, cancel, cancel twice, Hangup}; all unordered pairs (thorough: pairs x {updater, observer}); every schedule with <=2 (quick) / <=3 (thorough) preemptions - one less for scenarios with more than 3 client operations - runs to completion and is compared with the sequential specification (no deadlock, every call returns, final state = acknowledged updates in an order respecting real-time precedence, failed updates change nothing, each observer receives consecutive installed states from its subscription point, onclose at most once and exactly once after cancel / failure, nothing delivered after an onupdate error). non-trivial = execution with more than two scheduling points",
	Assume: []string{"scheduling points are exactly the channel operations, select and goroutine starts of engine.go (the engine uses no other synchronisation)", "observer callbacks run on the engine goroutine, as in cmd/arrai/serve_*.go", "the gRPC/WebSocket transports are not run"},
}
