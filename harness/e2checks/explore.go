// Package e2checks holds the checks that explore real concurrent code under the controlled
// cooperative scheduler (engine E2 of DESIGN.md): stateless depth-first search over
// scheduling choices with iterative preemption bounding; every execution runs the real
// (mechanically rewritten) implementation to completion.
package e2checks

import (
	"time"

	"github.com/arr-ai/arrai/pkg/zzverif/vsched"
)

// Stats of one exploration.
type Stats struct {
	Execs    int64
	Points   int64
	Capped   bool
	Outcomes map[string]int64
	States   map[string]bool // distinct pending-operation vectors seen at scheduling points
	// Delay switches the budget from preemptions to deviations (delay bounding, Emmi/Qadeer/
	// Rakamaric 2011): the default scheduler is deterministic (keep running; when the running
	// thread blocks or ends, lowest id first) and EVERY departure from it costs one unit, also
	// at points where the running thread is not enabled. Needed where many symmetric worker
	// goroutines make even the zero-preemption space factorial.
	Delay bool
	// Deadline, when set, ends the exploration like the execution cap does (Capped is set and reported):
	// an internal budget never raises an alarm, it only makes the evidence say "not exhaustive".
	Deadline time.Time
}

func preemptionsBefore(x *vsched.Exec, i int, delay bool) int {
	n := 0
	for _, p := range x.Points[:i] {
		if delay && len(p.Enabled) > 0 && p.Enabled[0] >= 0 && p.Chosen != 0 {
			n++
			continue
		}
		if len(p.Enabled) > 0 && p.Enabled[0] >= 0 && p.Running >= 0 && p.Enabled[0] == p.Running && p.Chosen != 0 {
			n++
		}
	}
	return n
}

// Explore runs every schedule of `run` with at most `bound` preemptions (bound < 0:
// unbounded), calling visit for each complete execution. maxExecs > 0 caps the number of
// executions (reported through Stats.Capped).
func Explore(run func(prefix []int) *vsched.Exec, bound int, maxExecs int64, st *Stats, visit func(x *vsched.Exec, choices []int)) {
	var rec func(prefix []int)
	rec = func(prefix []int) {
		if maxExecs > 0 && st.Execs >= maxExecs {
			st.Capped = true
			return
		}
		if !st.Deadline.IsZero() && st.Execs&63 == 0 && time.Now().After(st.Deadline) {
			st.Capped = true
			return
		}
		x := run(prefix)
		st.Execs++
		st.Points += int64(len(x.Points))
		choices := make([]int, len(x.Points))
		for i, p := range x.Points {
			choices[i] = p.Chosen
			if st.States != nil && len(st.States) < 200000 {
				k := ""
				for _, l := range p.Labels {
					k += l + ";"
				}
				st.States[k] = true
			}
		}
		visit(x, choices)
		for i := len(prefix); i < len(x.Points); i++ {
			p := x.Points[i]
			cost := preemptionsBefore(x, i, st.Delay)
			isThreadPoint := p.Enabled[0] >= 0
			for alt := 1; alt < len(p.Enabled); alt++ {
				c := cost
				if isThreadPoint && (st.Delay || p.Running >= 0 && p.Enabled[0] == p.Running) {
					c++
				}
				if bound >= 0 && c > bound {
					continue
				}
				rec(append(append([]int{}, choices[:i]...), alt))
			}
		}
	}
	rec(nil)
}
