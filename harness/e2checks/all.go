package e2checks

import "verif/harness/core"

// All lists the checks served by the E2 driver (vsx).
var All = []core.Check{C11, C17}
