// Package c08util is the generator side of check C08: a small abstract syntax for the
// core arr.ai expression language, a printer that renders one generator AST either with the
// minimum of parentheses implied by the documented precedence table or fully
// parenthesised, the documented source-level rewrites R1..R7 as AST -> AST functions, and
// the bounded-exhaustive program enumerators.
//
// The generator AST has a fixed meaning independent of arr.ai's parser: every node is an
// operator applied to its children. The printer is the only place that knows how that
// meaning is spelled in arr.ai source.
package c08util

import (
	"sort"
	"strings"
)

type Kind int

const (
	KLit   Kind = iota // Op = source text of an atomic constant
	KName              // Op = name ("x", "y", ".")
	KLet               // Op = bound name; Kids = [e1, body]        let Op = e1; body
	KFn                // Op = parameter;  Kids = [body]            \Op body
	KApp               // Kids = [f, arg]                           f(arg)
	KArrow             // Op = -> => >> :> where orderby ...; Kids = [lhs, rhs]; rhs of kind KFn = explicit binder, otherwise the implicit \. binder
	KBin               // Op = binary operator; Kids = [l, r]
	KCmp               // Ops = comparison operators; Kids = n+1 operands (n-ary chain)
	KIf                // Kids = [x, c, f]                          x if c else f
	KPre               // Op = prefix operator; Kids = [e]          (level 14: - + ! ^ ; level 3: => >> :>)
	KPost              // Op = count | single; Kids = [e]
	KGet               // Op = attribute; Kids = [e]                e.Op
	KCond              // Kids = [c1, v1, c2, v2, ..., (default)]; Dflt = has a trailing `_: default`
	KSet               // {k1, k2, ...}
	KArr               // [k1, k2, ...]
	KTup               // (Names[i]: Kids[i], ...)
	KDict              // {k1: v1, k2: v2}   Kids = [k1, v1, k2, v2]
	KRel               // {|Names| (row), (row)}  Kids = rows*len(Names), row-major
)

var kindNames = map[Kind]string{KLit: "Lit", KName: "Name", KLet: "Let", KFn: "Fn", KApp: "App", KArrow: "Arrow", KBin: "Bin",
	KCmp: "Cmp", KIf: "If", KPre: "Pre", KPost: "Post", KGet: "Get", KCond: "Cond", KSet: "Set", KArr: "Arr", KTup: "Tup",
	KDict: "Dict", KRel: "Rel"}

func (k Kind) String() string { return kindNames[k] }

// Deco is a meaning-preserving decoration of one node (rewrite R4).
type Deco int

const (
	DNone    Deco = iota
	DParen        // ( e )
	DComment      // comment + newline + tab before, blank + comment + newline after
	DSpace        // newlines / tabs / blanks around
)

type Node struct {
	K     Kind
	Op    string
	Ops   []string // KCmp
	Names []string // KTup, KRel
	Kids  []*Node
	Dflt  bool // KCond
	Deco  Deco
	// KLet / KFn with a destructuring pattern: Pat is the pattern source printed in place
	// of the name, PatNames the names it binds (Op is then unused).
	Pat      string
	PatNames []string
	// PatFree lists the enclosing names the pattern reads through expression patterns, each
	// written exactly as `(name)` in Pat.
	PatFree []string
}

// WithPatFree records the enclosing names that the pattern of n reads.
func (n *Node) WithPatFree(names ...string) *Node {
	c := *n
	c.PatFree = names
	return &c
}

func (n *Node) readsInPat(name string) bool {
	for _, f := range n.PatFree {
		if f == name {
			return true
		}
	}
	return false
}

// LetPat / FnPat bind by pattern.
func LetPat(pat string, names []string, e1, body *Node) *Node {
	return &Node{K: KLet, Pat: pat, PatNames: names, Kids: []*Node{e1, body}}
}
func FnPat(pat string, names []string, body *Node) *Node {
	return &Node{K: KFn, Pat: pat, PatNames: names, Kids: []*Node{body}}
}

// Binder is the source text of the binder of a let / function node.
func (n *Node) Binder() string {
	if n.Pat != "" {
		return n.Pat
	}
	return n.Op
}

func Lit(src string) *Node               { return &Node{K: KLit, Op: src} }
func Name(n string) *Node                { return &Node{K: KName, Op: n} }
func Let(x string, e1, body *Node) *Node { return &Node{K: KLet, Op: x, Kids: []*Node{e1, body}} }
func Fn(x string, body *Node) *Node      { return &Node{K: KFn, Op: x, Kids: []*Node{body}} }
func App(f, a *Node) *Node               { return &Node{K: KApp, Kids: []*Node{f, a}} }
func Arrow(op string, l, r *Node) *Node  { return &Node{K: KArrow, Op: op, Kids: []*Node{l, r}} }
func Bin(op string, l, r *Node) *Node    { return &Node{K: KBin, Op: op, Kids: []*Node{l, r}} }
func Cmp(op string, l, r *Node) *Node    { return &Node{K: KCmp, Ops: []string{op}, Kids: []*Node{l, r}} }
func Cmp3(op1, op2 string, a, b, c *Node) *Node {
	return &Node{K: KCmp, Ops: []string{op1, op2}, Kids: []*Node{a, b, c}}
}
func If(x, c, f *Node) *Node         { return &Node{K: KIf, Kids: []*Node{x, c, f}} }
func Pre(op string, e *Node) *Node   { return &Node{K: KPre, Op: op, Kids: []*Node{e}} }
func Post(op string, e *Node) *Node  { return &Node{K: KPost, Op: op, Kids: []*Node{e}} }
func Get(e *Node, attr string) *Node { return &Node{K: KGet, Op: attr, Kids: []*Node{e}} }
func Cond(dflt bool, kids ...*Node) *Node {
	return &Node{K: KCond, Dflt: dflt, Kids: kids}
}
func SetOf(kids ...*Node) *Node { return &Node{K: KSet, Kids: kids} }
func ArrOf(kids ...*Node) *Node { return &Node{K: KArr, Kids: kids} }
func TupOf(names []string, kids ...*Node) *Node {
	return &Node{K: KTup, Names: names, Kids: kids}
}
func DictOf(kids ...*Node) *Node { return &Node{K: KDict, Kids: kids} }
func RelOf(names []string, kids ...*Node) *Node {
	return &Node{K: KRel, Names: names, Kids: kids}
}

// ErrExpr is an expression that compiles but always fails when evaluated.
func ErrExpr() *Node { return Get(TupOf([]string{"a"}, Lit("1")), "zz") }

func (n *Node) Clone() *Node {
	c := *n
	c.Kids = make([]*Node, len(n.Kids))
	for i, k := range n.Kids {
		c.Kids[i] = k.Clone()
	}
	return &c
}

// Size is the number of AST nodes.
func (n *Node) Size() int {
	s := 1
	for _, k := range n.Kids {
		s += k.Size()
	}
	return s
}

// Path addresses a node: the sequence of child indices from the root.
type Path []int

// Walk visits every node in pre-order with its path (the path slice is reused).
func (n *Node) Walk(f func(p Path, n *Node)) {
	var rec func(p Path, n *Node)
	rec = func(p Path, n *Node) {
		f(p, n)
		for i, k := range n.Kids {
			rec(append(p, i), k)
		}
	}
	rec(nil, n)
}

func (n *Node) At(p Path) *Node {
	for _, i := range p {
		n = n.Kids[i]
	}
	return n
}

// ReplaceAt returns a copy of the tree with the node at p replaced by r (r is not copied).
func (n *Node) ReplaceAt(p Path, r *Node) *Node {
	if len(p) == 0 {
		return r
	}
	c := *n
	c.Kids = append([]*Node{}, n.Kids...)
	c.Kids[p[0]] = n.Kids[p[0]].ReplaceAt(p[1:], r)
	return &c
}

// Label is a short class name of a node for signatures: kind plus operator.
func (n *Node) Label() string {
	switch n.K {
	case KArrow, KBin, KPre, KPost:
		return n.K.String() + "(" + n.Op + ")"
	case KCmp:
		return "Cmp(" + strings.Join(n.Ops, " ") + ")"
	case KName:
		if n.Op == "." {
			return "Name(.)"
		}
		return "Name"
	case KLit:
		return "Lit"
	}
	return n.K.String()
}

// bindsAll lists every name bound in the i-th child.
func (n *Node) bindsAll(i int) []string {
	if n.Pat != "" && (n.K == KFn || (n.K == KLet && i == 1)) {
		return n.PatNames
	}
	if b := n.binds(i); b != "" {
		return []string{b}
	}
	return nil
}

func (n *Node) bindsName(i int, name string) bool {
	for _, b := range n.bindsAll(i) {
		if b == name {
			return true
		}
	}
	return false
}

// binds reports the single name that node n binds in its i-th child ("" = none or a pattern).
func (n *Node) binds(i int) string {
	if n.Pat != "" {
		return ""
	}
	switch n.K {
	case KLet:
		if i == 1 {
			return n.Op
		}
	case KFn:
		return n.Op
	case KArrow:
		if i == 1 && n.Kids[1].K != KFn {
			return "."
		}
	case KPre:
		if preLevel3[n.Op] && n.Kids[0].K != KFn {
			return "."
		}
	}
	return ""
}

var preLevel3 = map[string]bool{"=>": true, ">>": true, ":>": true}

// Free returns the sorted free names of n.
func (n *Node) Free() []string {
	m := map[string]bool{}
	n.free(map[string]int{}, m)
	out := make([]string, 0, len(m))
	for k := range m {
		out = append(out, k)
	}
	sort.Strings(out)
	return out
}

func (n *Node) free(bound map[string]int, out map[string]bool) {
	if n.K == KName {
		if bound[n.Op] == 0 {
			out[n.Op] = true
		}
		return
	}
	if n.K == KPre && preLevel3[n.Op] && bound["."] == 0 {
		out["."] = true // `=> e` is `. => e`
	}
	for _, f := range n.PatFree {
		if bound[f] == 0 {
			out[f] = true // expression patterns are evaluated in the scope enclosing the binder
		}
	}
	for i, k := range n.Kids {
		bs := n.bindsAll(i)
		for _, b := range bs {
			bound[b]++
		}
		k.free(bound, out)
		for _, b := range bs {
			bound[b]--
		}
	}
}

func (n *Node) HasFree(name string) bool {
	for _, f := range n.Free() {
		if f == name {
			return true
		}
	}
	return false
}

func (n *Node) Closed() bool { return len(n.Free()) == 0 }

// Rename replaces the free occurrences of name `from` by name `to` (the caller guarantees
// `to` is fresh, so no capture can occur).
func (n *Node) Rename(from, to string) *Node {
	if n.K == KName {
		if n.Op == from {
			return Name(to)
		}
		return n
	}
	c := *n
	if n.readsInPat(from) {
		c.Pat = strings.ReplaceAll(n.Pat, "("+from+")", "("+to+")")
		c.PatFree = nil
		for _, f := range n.PatFree {
			if f == from {
				f = to
			}
			c.PatFree = append(c.PatFree, f)
		}
	}
	c.Kids = make([]*Node, len(n.Kids))
	for i, k := range n.Kids {
		if n.bindsName(i, from) {
			c.Kids[i] = k
		} else {
			c.Kids[i] = k.Rename(from, to)
		}
	}
	if n.K == KPre && preLevel3[n.Op] && from == "." {
		// the implicit lhs `.` of a prefix arrow cannot be renamed in place: spell it out
		return Arrow(n.Op, Name(to), c.Kids[0])
	}
	return &c
}

// names used anywhere (bound or free), for fresh-name generation
func (n *Node) allNames(m map[string]bool) {
	if n.K == KName || n.K == KLet || n.K == KFn {
		m[n.Op] = true
		for _, b := range n.PatNames {
			m[b] = true
		}
	}
	for _, k := range n.Kids {
		k.allNames(m)
	}
}

// Fresh returns a name not used in any of the given trees.
func Fresh(trees ...*Node) string {
	m := map[string]bool{}
	for _, t := range trees {
		t.allNames(m)
	}
	for _, c := range []string{"z", "w", "v", "u", "t", "s"} {
		if !m[c] {
			return c
		}
	}
	for i := 0; ; i++ {
		c := "z" + string(rune('0'+i))
		if !m[c] {
			return c
		}
	}
}
