package c08util

// Grammar configures the bounded-exhaustive program enumerator: every closed, well-scoped
// AST with at most MaxSize nodes built from the listed constructors.
type Grammar struct {
	Name    string
	Lits    []string // atomic constants
	Binders []string // names that let / \ may bind (subset of x, y)
	Let     bool
	Fn      bool
	App     bool
	Arrows  []string // arrow operators (implicit binder; an explicit \name binder arises when the rhs is a function literal)
	PreArr  []string // prefix arrows (`=> e` = `. => e`)
	Bins    []string
	Cmps    []string
	Pres    []string
	Posts   []string
	Attrs   []string // .attr
	Set1    bool     // {e}
	Set2    bool     // {e, e}
	Arr1    bool
	Arr2    bool
	Tup1    []string // (a: e)
	Dict1   bool     // {k: v}
	Cond1   bool     // cond {c: v}
	Cond2   bool     // cond {c: v, _: d}
	If      bool
	MaxSize int
}

const (
	sx = 1 << iota
	sy
	sdot
)

func bit(name string) int {
	switch name {
	case "x":
		return sx
	case "y":
		return sy
	case ".":
		return sdot
	}
	panic("c08util: unknown binder " + name)
}

type enumKey struct{ size, scope int }

type enumerator struct {
	g    *Grammar
	memo map[enumKey][]*Node
}

// Enumerate lists all closed programs of g with 1..MaxSize nodes, smallest first, in a
// deterministic order.
func (g *Grammar) Enumerate() []*Node {
	e := &enumerator{g, map[enumKey][]*Node{}}
	var out []*Node
	for s := 1; s <= g.MaxSize; s++ {
		out = append(out, e.gen(s, 0)...)
	}
	return out
}

func (e *enumerator) gen(size, scope int) []*Node {
	if size < 1 {
		return nil
	}
	k := enumKey{size, scope}
	if r, ok := e.memo[k]; ok {
		return r
	}
	g := e.g
	var out []*Node
	if size == 1 {
		for _, l := range g.Lits {
			out = append(out, Lit(l))
		}
		for _, n := range []string{"x", "y", "."} {
			if scope&bit(n) != 0 {
				out = append(out, Name(n))
			}
		}
		e.memo[k] = out
		return out
	}
	// one child
	for _, a := range e.gen(size-1, scope) {
		for _, op := range g.Pres {
			out = append(out, Pre(op, a))
		}
		for _, op := range g.Posts {
			out = append(out, Post(op, a))
		}
		for _, at := range g.Attrs {
			out = append(out, Get(a, at))
		}
		if g.Set1 {
			out = append(out, SetOf(a))
		}
		if g.Arr1 {
			out = append(out, ArrOf(a))
		}
		for _, at := range g.Tup1 {
			out = append(out, TupOf([]string{at}, a))
		}
	}
	if g.Fn {
		for _, b := range g.Binders {
			for _, a := range e.gen(size-1, scope|bit(b)) {
				out = append(out, Fn(b, a))
			}
		}
	}
	if scope&sdot != 0 {
		for _, op := range g.PreArr {
			for _, a := range e.gen(size-1, scope) { // `.` is rebound below, and was bound already
				out = append(out, Pre(op, a))
			}
		}
	}
	// two children
	for sa := 1; sa <= size-2; sa++ {
		sb := size - 1 - sa
		as := e.gen(sa, scope)
		if g.Let {
			for _, b := range g.Binders {
				bs := e.gen(sb, scope|bit(b))
				for _, a := range as {
					for _, c := range bs {
						out = append(out, Let(b, a, c))
					}
				}
			}
		}
		if len(g.Arrows) > 0 {
			impl := e.gen(sb, scope|sdot)
			expl := e.gen(sb, scope)
			for _, op := range g.Arrows {
				for _, a := range as {
					for _, c := range impl {
						if c.K != KFn {
							out = append(out, Arrow(op, a, c))
						}
					}
					for _, c := range expl {
						if c.K == KFn {
							out = append(out, Arrow(op, a, c))
						}
					}
				}
			}
		}
		bs := e.gen(sb, scope)
		for _, a := range as {
			for _, c := range bs {
				if g.App {
					out = append(out, App(a, c))
				}
				for _, op := range g.Bins {
					out = append(out, Bin(op, a, c))
				}
				for _, op := range g.Cmps {
					out = append(out, Cmp(op, a, c))
				}
				if g.Set2 {
					out = append(out, SetOf(a, c))
				}
				if g.Arr2 {
					out = append(out, ArrOf(a, c))
				}
				if g.Dict1 {
					out = append(out, DictOf(a, c))
				}
				if g.Cond1 {
					out = append(out, Cond(false, a, c))
				}
			}
		}
	}
	// three children
	if g.Cond2 || g.If {
		for sa := 1; sa <= size-3; sa++ {
			for sb := 1; sb <= size-2-sa; sb++ {
				sc := size - 1 - sa - sb
				for _, a := range e.gen(sa, scope) {
					for _, b := range e.gen(sb, scope) {
						for _, c := range e.gen(sc, scope) {
							if g.Cond2 {
								out = append(out, Cond(true, a, b, c))
							}
							if g.If {
								out = append(out, If(a, b, c))
							}
						}
					}
				}
			}
		}
	}
	e.memo[k] = out
	return out
}

// ---- operator pairs (family P) ----

// OpDesc describes one constructor with holes for the operator-pair enumeration: Arity
// holes, candidate leaves per hole (chosen to suit the operator's operand types), and
// Binds[i] = a name bound in hole i ("" = none; the bound name is then an extra leaf).
type OpDesc struct {
	Name   string
	Arity  int
	Leaves [][]*Node
	Binds  []string
	Make   func(kids []*Node) *Node
}

func leaves(srcs ...string) []*Node {
	var out []*Node
	for _, s := range srcs {
		switch s {
		case ".", "x", "y":
			out = append(out, Name(s))
		default:
			out = append(out, Lit(s))
		}
	}
	return out
}

// PairPrograms enumerates, for every ordered pair (outer, inner) of constructors and every
// hole of outer, the trees outer[hole := inner[leaves]][other holes := leaves] over all
// leaf assignments. A tree with a free `.` is closed by `dotval -> tree`.
func PairPrograms(ops []OpDesc, nLeaves int, dotvals []string, each func(outer, inner *OpDesc, hole int, t, core, in *Node)) {
	cut := func(l []*Node) []*Node {
		if len(l) > nLeaves {
			return l[:nLeaves]
		}
		return l
	}
	for oi := range ops {
		outer := &ops[oi]
		for hole := 0; hole < outer.Arity; hole++ {
			for ii := range ops {
				inner := &ops[ii]
				// candidate lists: outer holes (except `hole`) then inner holes
				var lists [][]*Node
				for i := 0; i < outer.Arity; i++ {
					if i != hole {
						l := cut(outer.Leaves[i])
						if outer.Binds != nil && outer.Binds[i] != "" {
							l = append(append([]*Node{}, l...), Name(outer.Binds[i]))
						}
						lists = append(lists, l)
					}
				}
				for i := 0; i < inner.Arity; i++ {
					l := cut(inner.Leaves[i])
					extra := []*Node{}
					if inner.Binds != nil && inner.Binds[i] != "" {
						extra = append(extra, Name(inner.Binds[i]))
					}
					if outer.Binds != nil && outer.Binds[hole] != "" && (len(extra) == 0 || extra[0].Op != outer.Binds[hole]) {
						extra = append(extra, Name(outer.Binds[hole]))
					}
					lists = append(lists, append(append([]*Node{}, l...), extra...))
				}
				idx := make([]int, len(lists))
				for {
					pos := 0
					okids := make([]*Node, outer.Arity)
					for i := 0; i < outer.Arity; i++ {
						if i != hole {
							okids[i] = lists[pos][idx[pos]]
							pos++
						}
					}
					ikids := make([]*Node, inner.Arity)
					for i := 0; i < inner.Arity; i++ {
						ikids[i] = lists[pos][idx[pos]]
						pos++
					}
					in := inner.Make(ikids)
					okids[hole] = in
					t := outer.Make(okids)
					if t.HasFree(".") {
						for _, dv := range dotvals {
							each(outer, inner, hole, Arrow("->", Lit(dv), t), t, in)
						}
					} else if t.Closed() {
						each(outer, inner, hole, t, t, in)
					}
					// next assignment
					j := len(idx) - 1
					for ; j >= 0; j-- {
						idx[j]++
						if idx[j] < len(lists[j]) {
							break
						}
						idx[j] = 0
					}
					if j < 0 {
						break
					}
				}
			}
		}
	}
}

func binOp(op string, l, r []*Node) OpDesc {
	return OpDesc{Name: op, Arity: 2, Leaves: [][]*Node{l, r}, Make: func(k []*Node) *Node { return Bin(op, k[0], k[1]) }}
}
func cmpOp(op string, l, r []*Node) OpDesc {
	return OpDesc{Name: op, Arity: 2, Leaves: [][]*Node{l, r}, Make: func(k []*Node) *Node { return Cmp(op, k[0], k[1]) }}
}
func arrowOp(op string, l, r []*Node) OpDesc {
	return OpDesc{Name: op, Arity: 2, Leaves: [][]*Node{l, r}, Binds: []string{"", "."},
		Make: func(k []*Node) *Node {
			if k[1].K == KFn {
				return Arrow(op, k[0], Fn(".", k[1])) // keep the implicit-binder meaning
			}
			return Arrow(op, k[0], k[1])
		}}
}

// PairOps is the constructor list of family P. all = every operator of the documented
// table; otherwise one or two representatives per level.
func PairOps(all bool) []OpDesc {
	N := leaves("2", "3", "0")
	S := leaves("{1, 2}", "{2, 3}", "{}")
	T := leaves("(a: 1)", "(a: {1, 2}, b: 2)")
	A := leaves("[1, 2]", "[3]")
	R := leaves("{(a: 1, b: 2)}", "{(a: 1, c: 3), (a: 2, c: 4)}")
	dotN := []*Node{Bin("+", Name("."), Lit("1")), Name(".")}
	dotB := []*Node{Cmp(">", Name("."), Lit("1")), Name(".")}
	idx2 := []*Node{Fn("i", Fn("n", Bin("+", Name("i"), Name("n"))))}
	ops := []OpDesc{
		// level 1
		arrowOp("->", append(append([]*Node{}, N[:2]...), S[0]), dotN),
		{Name: "->\\x", Arity: 2, Leaves: [][]*Node{N, leaves("2")}, Binds: []string{"", "x"},
			Make: func(k []*Node) *Node { return Arrow("->", k[0], Fn("x", k[1])) }},
		arrowOp("=>", S, dotN),
		arrowOp("where", S, dotB),
	}
	if all {
		ops = append(ops,
			arrowOp(">>", A, dotN),
			arrowOp(":>", T, dotN),
			arrowOp("orderby", S, dotN),
			arrowOp("sum", S, dotN),
			arrowOp("max", S, dotN),
			arrowOp("min", S, dotN),
			arrowOp("mean", S, dotN),
			arrowOp("median", S, dotN),
			OpDesc{Name: "=>\\x", Arity: 2, Leaves: [][]*Node{S, leaves("2")}, Binds: []string{"", "x"},
				Make: func(k []*Node) *Node { return Arrow("=>", k[0], Fn("x", k[1])) }},
		)
	}
	ops = append(ops,
		// level 2
		binOp(">>>", A, idx2),
		// level 3 (needs `.`; the program is closed by `dotval -> ...`)
		OpDesc{Name: "pre=>", Arity: 1, Leaves: [][]*Node{dotN}, Binds: []string{"."},
			Make: func(k []*Node) *Node {
				if k[0].K == KFn {
					return Pre("=>", Fn(".", k[0]))
				}
				return Pre("=>", k[0])
			}},
		// level 4
		binOp("with", S, N),
		// level 5, 6
		binOp("||", append(leaves("0", "{}"), N[0]), N),
		binOp("&&", append(leaves("0", "2"), S[0]), N),
		// level 7
		binOp("+>", T, leaves("(b: 3)", "(a: 5)")),
		// level 8
		cmpOp("=", N, N),
		cmpOp("<", N, N),
		// level 10
		binOp("+", N, N),
		binOp("|", S, S),
		// level 11
		binOp("&", S, S),
		// level 12
		binOp("*", N, N),
		// level 13
		binOp("^", N, N),
		// level 14
		OpDesc{Name: "neg", Arity: 1, Leaves: [][]*Node{N}, Make: func(k []*Node) *Node { return Pre("-", k[0]) }},
		OpDesc{Name: "not", Arity: 1, Leaves: [][]*Node{append(leaves("0"), S...)}, Make: func(k []*Node) *Node { return Pre("!", k[0]) }},
		// level 15
		OpDesc{Name: "count", Arity: 1, Leaves: [][]*Node{S}, Make: func(k []*Node) *Node { return Post("count", k[0]) }},
		// level 16
		OpDesc{Name: ".a", Arity: 1, Leaves: [][]*Node{T}, Make: func(k []*Node) *Node { return Get(k[0], "a") }},
		OpDesc{Name: "call", Arity: 2, Leaves: [][]*Node{append([]*Node{Fn("n", Bin("*", Name("n"), Lit("2")))}, A...), leaves("1", "0")},
			Make: func(k []*Node) *Node { return App(k[0], k[1]) }},
		// level 17, open atoms
		OpDesc{Name: "let", Arity: 2, Leaves: [][]*Node{N, leaves("2")}, Binds: []string{"", "x"},
			Make: func(k []*Node) *Node { return Let("x", k[0], k[1]) }},
		OpDesc{Name: "cond", Arity: 3, Leaves: [][]*Node{leaves("0", "1"), N[:2], leaves("5")},
			Make: func(k []*Node) *Node { return Cond(true, k[0], k[1], k[2]) }},
	)
	if all {
		ops = append(ops,
			binOp("without", S, N),
			cmpOp("!=", N, N), cmpOp("<=", N, N), cmpOp(">", N, N), cmpOp(">=", N, N),
			cmpOp("<:", N, S), cmpOp("!<:", N, S), cmpOp("(<)", S, S), cmpOp("(<=)", S, S), cmpOp("(>)", S, S),
			binOp("-", N, N), binOp("++", A, A), binOp("-%", N, N),
			binOp("&~", S, S), binOp("~~", S, S), binOp("<&>", R, R), binOp("-&-", R, R), binOp("<->", R, R),
			binOp("---", R, R), binOp("-&>", R, R), binOp("<&-", R, R), binOp("-->", R, R), binOp("<--", R, R),
			binOp("/", N, N), binOp("%", N, N), binOp("//", N, N), binOp("\\", N, A),
			OpDesc{Name: "pos", Arity: 1, Leaves: [][]*Node{N}, Make: func(k []*Node) *Node { return Pre("+", k[0]) }},
			OpDesc{Name: "powerset", Arity: 1, Leaves: [][]*Node{S}, Make: func(k []*Node) *Node { return Pre("^", k[0]) }},
			OpDesc{Name: "single", Arity: 1, Leaves: [][]*Node{leaves("{2}", "{(a: 1)}")}, Make: func(k []*Node) *Node { return Post("single", k[0]) }},
			OpDesc{Name: "pre>>", Arity: 1, Leaves: [][]*Node{dotN}, Binds: []string{"."},
				Make: func(k []*Node) *Node {
					if k[0].K == KFn {
						return Pre(">>", Fn(".", k[0]))
					}
					return Pre(">>", k[0])
				}},
			OpDesc{Name: "fn-call", Arity: 2, Leaves: [][]*Node{leaves("2"), N}, Binds: []string{"x", ""},
				Make: func(k []*Node) *Node { return App(Fn("x", k[0]), k[1]) }},
			OpDesc{Name: "if", Arity: 3, Leaves: [][]*Node{N[:2], leaves("0", "1"), leaves("5")},
				Make: func(k []*Node) *Node { return If(k[0], k[1], k[2]) }},
		)
	}
	return ops
}
