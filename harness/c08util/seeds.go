package c08util

// Seeds: a fixed list of larger programs (7-12 nodes) that the size-bounded enumerations
// cannot reach: curried calls, chained tails, closures capturing shadowed names, nested
// implicit binders, displays of computed values, chained comparisons. Every rewrite is
// applied at every position of every seed (family S).
func Seeds() []*Node {
	x, y, f, t, dot := Name("x"), Name("y"), Name("f"), Name("t"), Name(".")
	one, two, three := Lit("1"), Lit("2"), Lit("3")
	s12 := Lit("{1, 2}")
	add := func(a, b *Node) *Node { return Bin("+", a, b) }
	return []*Node{
		// curried function, two argument lists
		App(App(Fn("x", Fn("y", add(x, y))), one), two),
		Let("f", Fn("x", Fn("y", add(x, y))), App(App(f, one), two)),
		// chained attribute access and call on an attribute
		Get(Get(TupOf([]string{"a"}, TupOf([]string{"b"}, one)), "a"), "b"),
		App(Get(TupOf([]string{"a"}, Fn("y", add(y, one))), "a"), two),
		Let("t", TupOf([]string{"a"}, Lit("[1, 2]")), App(Get(t, "a"), one)),
		// closure captures the binding visible at its definition, not the later shadow
		Let("x", one, Let("f", Fn("y", add(x, y)), Let("x", two, App(f, x)))),
		Let("x", one, Arrow("->", two, Fn("y", Let("x", three, add(x, y))))),
		Let("y", one, Let("x", y, Let("y", two, add(x, y)))),
		Let("x", one, Let("f", Fn("y", x), Let("y", two, App(f, three)))),
		// nested implicit binders
		Arrow("=>", Lit("{{1, 2}, {3}}"), Arrow("=>", dot, add(dot, one))),
		Arrow("=>", s12, Arrow("->", add(dot, one), Bin("*", dot, dot))),
		Arrow("where", Arrow("=>", s12, add(dot, one)), Cmp(">", dot, two)),
		Arrow("->", TupOf([]string{"a", "b"}, one, two), add(Get(dot, "a"), Get(dot, "b"))),
		Arrow("=>", Lit("{(a: 1, b: 2), (a: 3, b: 4)}"), TupOf([]string{"c"}, add(Get(dot, "a"), Get(dot, "b")))),
		Arrow(">>", Lit("[1, 2, 3]"), Bin("*", dot, two)),
		Arrow(":>", Lit("(a: 1, b: 2)"), add(dot, one)),
		Bin(">>>", Lit("[1, 2]"), Fn("i", Fn("n", add(Name("i"), Name("n"))))),
		Let("x", two, Arrow("=>", s12, Fn("y", Bin("*", x, y)))),
		Arrow("->", s12, Pre("=>", add(dot, one))),
		// displays of computed values, sugar with computed parts
		Let("x", one, ArrOf(x, add(x, one), Lit(`"a"`))),
		Let("x", one, DictOf(x, two, two, SetOf(x))),
		Let("x", one, SetOf(TupOf([]string{"a", "b"}, x, two), TupOf([]string{"a", "b"}, two, x))),
		Post("count", Bin("|", SetOf(one, two), Lit("{2, 3}"))),
		App(Lit(`"ab"`), one),
		App(Lit("{1: 2}"), one),
		// arithmetic / comparison / logic mixtures
		add(one, Bin("*", two, Bin("^", three, Pre("-", two)))),
		Cmp3("<", "<=", one, add(one, one), three),
		Bin("||", Bin("&&", Cmp("<", one, two), Lit("{}")), Lit(`"a"`)),
		Cond(true, Cmp(">", one, two), one, Cmp("<", one, two), two, three),
		Let("x", Lit("0"), Cond(true, x, Get(x, "a"), Bin("&&", x, Get(x, "b")), two, three)),
		Let("x", Lit("(a: 1)"), Bin("||", Get(x, "a"), Get(x, "b"))),
		Bin("with", Bin("without", s12, one), three),
		Bin("+>", Lit("(a: 1)"), TupOf([]string{"b"}, add(one, one))),
		// destructuring patterns in let / function / arrow binders
		LetPat("(a: x, b: y)", []string{"x", "y"}, Lit("(a: 1, b: 2)"), Bin("-", x, y)),
		LetPat("[x, y]", []string{"x", "y"}, ArrOf(one, add(one, one)), Bin("-", x, y)),
		LetPat("(a: x, ...)", []string{"x"}, Lit("(a: 1, b: 2)"), Let("y", x, add(x, y))),
		Let("x", three, LetPat("[x, y]", []string{"x", "y"}, Lit("[1, 2]"), Bin("-", x, y))),
		Let("y", three, LetPat("{1: x}", []string{"x"}, Lit("{1: 2}"), Bin("-", x, y))),
		Arrow("=>", Lit("{(a: 1, b: 2), (a: 3, b: 5)}"), FnPat("(a: x, b: y)", []string{"x", "y"}, Bin("-", y, x))),
		App(FnPat("[x, y]", []string{"x", "y"}, Bin("-", x, y)), Lit("[3, 1]")),
		// expression patterns read the scope enclosing the binder, whichever way the binder is spelled
		Let("x", one, LetPat("[(x), y]", []string{"y"}, Lit("[1, 2]"), y).WithPatFree("x")),
		Let("x", one, App(FnPat("[(x), y]", []string{"y"}, add(x, y)).WithPatFree("x"), Lit("[1, 2]"))),
		Let("x", two, Arrow("=>", Lit("{[2, 3], [2, 5]}"), FnPat("[(x), y]", []string{"y"}, y).WithPatFree("x"))),
		Let("x", one, LetPat("(a: (x), b: y)", []string{"y"}, Lit("(a: 1, b: 2)"), add(x, y)).WithPatFree("x")),
		Let("x", one, Let("f", FnPat("[(x), ...t]", []string{"t"}, t).WithPatFree("x"), Let("x", two, App(f, Lit("[1, 2, 3]"))))),
	}
}
