package c08util

import (
	"strings"
)

// The precedence / associativity table used as the SPECIFICATION (DESIGN.md Appendix A,
// transcribed from rule `expr` of syntax/arrai.wbnf at the pinned commit; loosest level
// first). It is data of the checker and is never re-read from the repository, so a change
// of the grammar is measured against this table and not against itself.
//
//	 1  -> (-> \p) => >> :> orderby order rank where sum max mean median min   postfix chain, left
//	 2  >>>                                                                     left
//	 3  prefix :> => >>                                                         prefix
//	 4  with without                                                            left
//	 5  ||                                                                      left
//	 6  &&                                                                      left
//	 7  +>                                                                      left
//	 8  = != < <= > >= <: !<: (<) ...                                           n-ary chain, never re-parenthesised
//	 9  x if c else y                                                           postfix
//	10  ++ + | - -%                                                             left
//	11  &~ & ~~ ~ <&> <-> -&- --- -&> <&- --> <--                               left
//	12  // * / % \                                                              left
//	13  ^                                                                       right
//	14  prefix - + ! * ^                                                        prefix
//	15  postfix count single                                                    postfix (at most one)
//	16  .a  (args)                                                              postfix chain
//	17  literals (e) \p e  let ..; e  cond                                      atoms; function, let and else bodies extend as far right as possible
const (
	LArrow   = 1
	LSeqIdx  = 2
	LPreArr  = 3
	LWith    = 4
	LOr      = 5
	LAnd     = 6
	LMerge   = 7
	LCmp     = 8
	LIf      = 9
	LAdd     = 10
	LInter   = 11
	LMul     = 12
	LPow     = 13
	LPrefix  = 14
	LPostfix = 15
	LTail    = 16
	LAtom    = 17
)

// BinLevel: documented level of every binary operator the generator may use.
var BinLevel = map[string]int{
	">>>":  LSeqIdx,
	"with": LWith, "without": LWith,
	"||": LOr, "&&": LAnd, "+>": LMerge,
	"++": LAdd, "+": LAdd, "|": LAdd, "-": LAdd, "-%": LAdd,
	"&~": LInter, "&": LInter, "~~": LInter, "<&>": LInter, "<->": LInter, "-&-": LInter, "---": LInter,
	"-&>": LInter, "<&-": LInter, "-->": LInter, "<--": LInter,
	"//": LMul, "*": LMul, "/": LMul, "%": LMul, "\\": LMul,
	"^": LPow,
}

// RightAssoc: the only right-associative binary operator.
var RightAssoc = map[string]bool{"^": true}

func PreLevel(op string) int {
	if preLevel3[op] {
		return LPreArr
	}
	return LPrefix
}

// Level is the documented level of the construct at the root of n.
func Level(n *Node) int {
	switch n.K {
	case KArrow:
		return LArrow
	case KBin:
		return BinLevel[n.Op]
	case KCmp:
		return LCmp
	case KIf:
		return LIf
	case KPre:
		return PreLevel(n.Op)
	case KPost:
		return LPostfix
	case KGet, KApp:
		return LTail
	}
	return LAtom
}

// closedAtom: an atom that needs no parentheses anywhere (delimited on both sides).
func closedAtom(n *Node) bool {
	switch n.K {
	case KLit, KName, KCond, KSet, KArr, KTup, KDict, KRel:
		return true
	}
	return false
}

type Printer struct {
	Full bool // parenthesise every non-atomic operand
}

type rendered struct {
	s    string
	lvl  int
	open bool // the text ends in a construct that extends as far right as possible
}

func wordy(op string) bool { return op != "" && (op[0] >= 'a' && op[0] <= 'z') }

// dotTrap: a left operand whose text ends in the name `.` followed by a word, `&`, `|` or
// `~` would be lexed as an attribute access / projection (`. where` = `.where`,
// `. & x` = `.&x`, `. | x |` = `.|x|`): a lexical matter outside the precedence table, so
// the printer parenthesises the operand in both modes.
func dotTrap(left, op string) bool {
	if !endsInDot(left) {
		return false
	}
	return wordy(op) || op[0] == '&' || op[0] == '|' || op[0] == '~'
}

// endsInDot: the text ends in the name `.` (possibly followed by blanks)
func endsInDot(s string) bool { return strings.HasSuffix(strings.TrimRight(s, " \t\n"), ".") }

func (p Printer) Print(n *Node) string { return p.render(n).s }

// operand renders child n for a position that requires level >= min; last = the child is
// the rightmost token sequence of its parent (nothing of the parent follows it).
func (p Printer) operand(n *Node, min int, last bool, nextOp string) (string, bool) {
	r := p.render(n)
	need := r.lvl < min || (!last && r.open)
	if p.Full && !(closedAtom(n) && n.Deco == DNone) && n.Deco != DParen {
		need = true
	}
	if !need && nextOp != "" && dotTrap(r.s, nextOp) {
		need = true
	}
	if need {
		return "(" + r.s + ")", false
	}
	return r.s, r.open
}

// inner renders a child in a delimited position (any level allowed, closed by a delimiter).
func (p Printer) inner(n *Node) string {
	s, _ := p.operand(n, LArrow, true, "")
	return s
}

func decorate(n *Node, s string) string {
	switch n.Deco {
	case DComment:
		// a comment runs to the end of the line
		return "# c " + n.Label() + "\n\t" + s + " # d\n"
	case DSpace:
		return "\n\t " + s + " \n "
	}
	return s
}

func (p Printer) render(n *Node) rendered {
	r := p.renderBare(n)
	if n.Deco == DParen {
		return rendered{"(" + r.s + ")", LAtom, false}
	}
	r.s = decorate(n, r.s) // level and openness are unchanged by comments and blanks
	return r
}

func (p Printer) renderBare(n *Node) rendered {
	switch n.K {
	case KLit, KName:
		return rendered{n.Op, LAtom, false}
	case KLet:
		return rendered{"let " + n.Binder() + " = " + p.inner(n.Kids[0]) + "; " + p.inner(n.Kids[1]), LAtom, true}
	case KFn:
		return rendered{"\\" + n.Binder() + " " + p.inner(n.Kids[0]), LAtom, true}
	case KApp:
		f, _ := p.operand(n.Kids[0], LTail, false, "")
		return rendered{f + "(" + p.inner(n.Kids[1]) + ")", LTail, false}
	case KArrow:
		l, _ := p.operand(n.Kids[0], LArrow, false, n.Op)
		rhs := n.Kids[1]
		if rhs.K == KFn && rhs.Deco != DParen {
			// a function literal right of an arrow is the explicit binder (parenthesising
			// the literal itself is rewrite R4, never done by the printer)
			if n.Op == "->" {
				// `-> \p body` is its own level-1 operator: the body is a level-2 operand
				b, open := p.operand(rhs.Kids[0], LSeqIdx, true, "")
				return rendered{l + " -> " + decorate(rhs, "\\"+rhs.Binder()+" "+b), LArrow, open}
			}
			rr := p.render(rhs)
			return rendered{l + " " + n.Op + " " + rr.s, LArrow, rr.open}
		}
		r, open := p.operand(rhs, LSeqIdx, true, "")
		return rendered{l + " " + n.Op + " " + r, LArrow, open}
	case KBin:
		lv := BinLevel[n.Op]
		lmin, rmin := lv, lv+1
		if RightAssoc[n.Op] {
			lmin, rmin = lv+1, lv
		}
		l, _ := p.operand(n.Kids[0], lmin, false, n.Op)
		if n.Op == ">>>" && n.Kids[1].K == KFn && n.Kids[1].Deco != DParen {
			// like the arrows, >>> takes a function literal as its explicit binder
			rr := p.render(n.Kids[1])
			return rendered{l + " " + n.Op + " " + rr.s, lv, rr.open}
		}
		r, open := p.operand(n.Kids[1], rmin, true, "")
		return rendered{l + " " + n.Op + " " + r, lv, open}
	case KCmp:
		var sb strings.Builder
		open := false
		for i, k := range n.Kids {
			next := ""
			if i < len(n.Ops) {
				next = n.Ops[i]
			}
			s, o := p.operand(k, LCmp+1, i == len(n.Kids)-1, next)
			if i > 0 {
				sb.WriteString(" " + n.Ops[i-1] + " ")
			}
			sb.WriteString(s)
			open = o
		}
		return rendered{sb.String(), LCmp, open}
	case KIf:
		x, _ := p.operand(n.Kids[0], LIf+1, false, "if")
		c, _ := p.operand(n.Kids[1], LArrow, true, "else") // `. else` would be lexed as `.else`
		return rendered{x + " if " + c + " else " + p.inner(n.Kids[2]), LIf, true}
	case KPre:
		lv := PreLevel(n.Op)
		if lv == LPreArr {
			if n.Kids[0].K == KFn && n.Kids[0].Deco != DParen {
				rr := p.render(n.Kids[0])
				return rendered{n.Op + " " + rr.s, lv, rr.open}
			}
			s, open := p.operand(n.Kids[0], LPreArr+1, true, "")
			return rendered{n.Op + " " + s, lv, open}
		}
		s, open := p.operand(n.Kids[0], LPrefix, true, "")
		return rendered{n.Op + s, lv, open}
	case KPost:
		s, _ := p.operand(n.Kids[0], LTail, false, n.Op)
		return rendered{s + " " + n.Op, LPostfix, false}
	case KGet:
		k := n.Kids[0]
		if k.K == KName && k.Op == "." && k.Deco == DNone && !p.Full {
			return rendered{"." + n.Op, LTail, false} // .a is the documented shorthand of (.).a
		}
		s, _ := p.operand(k, LTail, false, "")
		if k.K == KLit && k.Deco == DNone && len(s) > 0 && (s[0] >= '0' && s[0] <= '9') {
			s = "(" + s + ")" // 1.a would be lexed as the number `1.`
		}
		if endsInDot(s) {
			s = "(" + s + ")" // `. .a` would be lexed as the attribute named `.`
		}
		return rendered{s + "." + n.Op, LTail, false}
	case KCond:
		var parts []string
		m := len(n.Kids)
		if n.Dflt {
			m--
		}
		for i := 0; i+1 < m; i += 2 {
			parts = append(parts, p.inner(n.Kids[i])+": "+p.inner(n.Kids[i+1]))
		}
		if n.Dflt {
			parts = append(parts, "_: "+p.inner(n.Kids[m]))
		}
		return rendered{"cond {" + strings.Join(parts, ", ") + "}", LAtom, false}
	case KSet:
		return rendered{"{" + p.list(n.Kids) + "}", LAtom, false}
	case KArr:
		return rendered{"[" + p.list(n.Kids) + "]", LAtom, false}
	case KTup:
		parts := make([]string, len(n.Kids))
		for i, k := range n.Kids {
			parts[i] = n.Names[i] + ": " + p.inner(k)
		}
		return rendered{"(" + strings.Join(parts, ", ") + ")", LAtom, false}
	case KDict:
		var parts []string
		for i := 0; i+1 < len(n.Kids); i += 2 {
			parts = append(parts, p.inner(n.Kids[i])+": "+p.inner(n.Kids[i+1]))
		}
		return rendered{"{" + strings.Join(parts, ", ") + "}", LAtom, false}
	case KRel:
		w := len(n.Names)
		var rows []string
		for i := 0; i+w <= len(n.Kids); i += w {
			rows = append(rows, "("+p.list(n.Kids[i:i+w])+")")
		}
		return rendered{"{|" + strings.Join(n.Names, ", ") + "| " + strings.Join(rows, ", ") + "}", LAtom, false}
	}
	panic("c08util: unknown node kind")
}

func (p Printer) list(kids []*Node) string {
	parts := make([]string, len(kids))
	for i, k := range kids {
		parts[i] = p.inner(k)
	}
	return strings.Join(parts, ", ")
}

// Min prints with the minimum of parentheses implied by the table; Full parenthesises
// every operand that is not a closed atom.
func Min(n *Node) string  { return Printer{}.Print(n) }
func Full(n *Node) string { return Printer{Full: true}.Print(n) }
