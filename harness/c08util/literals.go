package c08util

import (
	"strconv"
	"strings"
)

// LitCase is one sugared literal with its documented spelled-out forms, written down by
// hand from docs/docs/lang/literals.md (strings/arrays/bytes/dicts are relations
// {|@, @char|...}, {|@, @item|...}, {|@, @byte|...}, {|@, @value|...}; string escapes
// "roughly follow C string syntax").
type LitCase struct {
	Cat    string // category, used as the signature class
	Src    string // the sugared literal
	Tuples string // spelled out as a set of tuples
	Rel    string // spelled out as a relation literal ("" = none)
}

// seqForms spells a sequence-like value: attr is @char/@item/@byte/@value, keys the @
// values (source text), vals the payloads (source text).
func seqForms(attr string, keys, vals []string) (tuples, rel string) {
	if len(keys) == 0 {
		return "{}", ""
	}
	var ts, rs []string
	for i := range keys {
		ts = append(ts, "(@: "+keys[i]+", "+attr+": "+vals[i]+")")
		rs = append(rs, "("+keys[i]+", "+vals[i]+")")
	}
	return "{" + strings.Join(ts, ", ") + "}", "{|@, " + attr + "| " + strings.Join(rs, ", ") + "}"
}

func strCase(cat, src string, runes ...rune) LitCase {
	var keys, vals []string
	for i, r := range runes {
		keys = append(keys, strconv.Itoa(i))
		vals = append(vals, strconv.Itoa(int(r)))
	}
	t, r := seqForms("@char", keys, vals)
	return LitCase{cat, src, t, r}
}

func LitCases() []LitCase {
	seq := func(cat, src, attr string, keys, vals []string) LitCase {
		t, r := seqForms(attr, keys, vals)
		return LitCase{cat, src, t, r}
	}
	strA := `{(@: 0, @char: 97)}`
	return []LitCase{
		strCase("string-double-quoted", `"ab"`, 'a', 'b'),
		strCase("string-single-quoted", `'ab'`, 'a', 'b'),
		strCase("string-backquoted", "`ab`", 'a', 'b'),
		strCase("string-escape-letter", `"a\nb\t"`, 'a', '\n', 'b', '\t'),
		strCase("string-escape-quote", `"\"'\\"`, '"', '\'', '\\'),
		strCase("string-escape-hex-last", `"b\x41"`, 'b', 'A'),
		strCase("string-escape-hex", `"\x41b"`, 'A', 'b'),
		strCase("string-escape-unicode", `"\u0041b"`, 'A', 'b'),
		strCase("string-escape-octal", `"\101"`, 'A'),
		strCase("string-empty", `""`),
		{"char", `%a`, `97`, ""},
		{"number-exponent", `1.5e1`, `15`, ""},
		{"true", `true`, `{()}`, ""},
		{"false", `false`, `{}`, ""},
		seq("array", `[1, 2]`, "@item", []string{"0", "1"}, []string{"1", "2"}),
		seq("array-sparse", `[1, , 2]`, "@item", []string{"0", "2"}, []string{"1", "2"}),
		seq("array-nested", `[[1], "a"]`, "@item", []string{"0", "1"}, []string{"{(@: 0, @item: 1)}", strA}),
		{"array-empty", `[]`, `{}`, ""},
		seq("bytes", `<<1, 2>>`, "@byte", []string{"0", "1"}, []string{"1", "2"}),
		seq("dict", `{1: 2, 3: 4}`, "@value", []string{"1", "3"}, []string{"2", "4"}),
		seq("dict-string-key", `{"a": 1}`, "@value", []string{strA}, []string{"1"}),
		seq("dict-nested", `{1: {2: 3}}`, "@value", []string{"1"}, []string{"{(@: 2, @value: 3)}"}),
	}
}

// LitContexts: the literal alone, as a set member, let-bound, as an argument.
func LitContexts(l *Node) []*Node {
	return []*Node{l, SetOf(l), Let("x", l, Name("x")), App(Fn("x", TupOf([]string{"a"}, Name("x"))), l)}
}
