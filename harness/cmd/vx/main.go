package main

import (
	"verif/harness/checks"
	"verif/harness/core"
)

func main() { core.Main(checks.All) }
