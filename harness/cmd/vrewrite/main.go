// Command rewrite mechanically replaces Go concurrency syntax (chan types, make(chan),
// send/receive, select, go, close) and the "sync" import by calls into the vsched shim,
// so the explorer controls every scheduling decision of the *current* source file.
package main

import (
	"bytes"
	"fmt"
	"go/ast"
	"go/format"
	"go/parser"
	"go/token"
	"os"
	"strconv"
)

const shimPath = "github.com/arr-ai/arrai/pkg/zzverif/vsched"

var tmpN int

func sel(x, name string) ast.Expr { return &ast.SelectorExpr{X: ast.NewIdent(x), Sel: ast.NewIdent(name)} }

func call(fn ast.Expr, args ...ast.Expr) *ast.CallExpr { return &ast.CallExpr{Fun: fn, Args: args} }

func fail(fset *token.FileSet, n ast.Node, msg string) {
	fmt.Fprintf(os.Stderr, "rewrite: unsupported construct at %s: %s\n", fset.Position(n.Pos()), msg)
	os.Exit(3)
}

func main() {
	in, out := os.Args[1], os.Args[2]
	swapSync := len(os.Args) > 3 && os.Args[3] == "sync"
	fset := token.NewFileSet()
	// the sync mode only touches the import spec: keep comments, so that compiler directives
	// (//go:embed in syntax/bindata.go) survive
	mode := parser.Mode(0)
	if swapSync {
		mode = parser.ParseComments
	}
	f, err := parser.ParseFile(fset, in, nil, mode)
	if err != nil {
		panic(err)
	}
	usedShim := false
	// 1. expressions and types (post-order via Inspect + parent replacement)
	var rewriteExpr func(e ast.Expr) ast.Expr
	rewriteExpr = func(e ast.Expr) ast.Expr {
		switch x := e.(type) {
		case *ast.ChanType:
			usedShim = true
			return &ast.StarExpr{X: &ast.IndexExpr{X: sel("vsched", "Chan"), Index: rewriteExpr(x.Value)}}
		case *ast.UnaryExpr:
			if x.Op == token.ARROW {
				usedShim = true
				return call(&ast.SelectorExpr{X: rewriteExpr(x.X), Sel: ast.NewIdent("Recv")})
			}
		case *ast.CallExpr:
			if id, ok := x.Fun.(*ast.Ident); ok {
				if id.Name == "make" && len(x.Args) >= 1 {
					if ct, ok := x.Args[0].(*ast.ChanType); ok {
						usedShim = true
						var capExpr ast.Expr = &ast.BasicLit{Kind: token.INT, Value: "0"}
						if len(x.Args) > 1 {
							capExpr = x.Args[1]
						}
						return call(&ast.IndexExpr{X: sel("vsched", "MakeChan"), Index: rewriteExpr(ct.Value)}, capExpr)
					}
				}
				if id.Name == "close" && len(x.Args) == 1 {
					usedShim = true
					return call(&ast.SelectorExpr{X: x.Args[0], Sel: ast.NewIdent("Close")})
				}
			}
		}
		return e
	}
	// generic walker that rewrites expression-holding fields
	var walkStmts func(list []ast.Stmt) []ast.Stmt
	var walkStmt func(s ast.Stmt) ast.Stmt
	apply := func(n ast.Node) {
		ast.Inspect(n, func(n ast.Node) bool {
			switch x := n.(type) {
			case *ast.Field:
				x.Type = rewriteExpr(x.Type)
			case *ast.ValueSpec:
				if x.Type != nil {
					x.Type = rewriteExpr(x.Type)
				}
				for i := range x.Values {
					x.Values[i] = rewriteExpr(x.Values[i])
				}
			case *ast.CompositeLit:
				for i := range x.Elts {
					x.Elts[i] = rewriteExpr(x.Elts[i])
				}
			case *ast.CallExpr:
				for i := range x.Args {
					x.Args[i] = rewriteExpr(x.Args[i])
				}
			case *ast.AssignStmt:
				if len(x.Lhs) == 2 && len(x.Rhs) == 1 {
					if u, ok := x.Rhs[0].(*ast.UnaryExpr); ok && u.Op == token.ARROW {
						usedShim = true
						x.Rhs[0] = call(&ast.SelectorExpr{X: u.X, Sel: ast.NewIdent("Recv2")})
						return true
					}
				}
				for i := range x.Rhs {
					x.Rhs[i] = rewriteExpr(x.Rhs[i])
				}
			case *ast.ReturnStmt:
				for i := range x.Results {
					x.Results[i] = rewriteExpr(x.Results[i])
				}
			case *ast.ExprStmt:
				x.X = rewriteExpr(x.X)
			case *ast.BinaryExpr:
				x.X, x.Y = rewriteExpr(x.X), rewriteExpr(x.Y)
			case *ast.KeyValueExpr:
				x.Value = rewriteExpr(x.Value)
			case *ast.BlockStmt:
				x.List = walkStmts(x.List)
			case *ast.CaseClause:
				x.Body = walkStmts(x.Body)
			case *ast.RangeStmt:
				if _, ok := x.X.(*ast.UnaryExpr); ok {
					fail(fset, x, "range over receive")
				}
			}
			return true
		})
	}
	walkStmt = func(s ast.Stmt) ast.Stmt {
		switch x := s.(type) {
		case *ast.SendStmt:
			usedShim = true
			return &ast.ExprStmt{X: call(&ast.SelectorExpr{X: x.Chan, Sel: ast.NewIdent("Send")}, rewriteExpr(x.Value))}
		case *ast.GoStmt:
			usedShim = true
			if fl, ok := x.Call.Fun.(*ast.FuncLit); ok && len(x.Call.Args) == 0 {
				return &ast.ExprStmt{X: call(sel("vsched", "Go"), fl)}
			}
			// hoist arguments, evaluated at the go statement like Go does
			var pre []ast.Stmt
			var args []ast.Expr
			for _, a := range x.Call.Args {
				tmpN++
				name := "_vga" + strconv.Itoa(tmpN)
				pre = append(pre, &ast.AssignStmt{Lhs: []ast.Expr{ast.NewIdent(name)}, Tok: token.DEFINE, Rhs: []ast.Expr{a}})
				args = append(args, ast.NewIdent(name))
			}
			body := &ast.BlockStmt{List: []ast.Stmt{&ast.ExprStmt{X: &ast.CallExpr{Fun: x.Call.Fun, Args: args, Ellipsis: x.Call.Ellipsis}}}}
			fl := &ast.FuncLit{Type: &ast.FuncType{Params: &ast.FieldList{}}, Body: body}
			pre = append(pre, &ast.ExprStmt{X: call(sel("vsched", "Go"), fl)})
			return &ast.BlockStmt{List: pre}
		case *ast.SelectStmt:
			usedShim = true
			var pre []ast.Stmt
			var cases []ast.Expr
			var clauses []ast.Stmt
			hasDefault := "false"
			idx := 0
			for _, c := range x.Body.List {
				cc := c.(*ast.CommClause)
				if cc.Comm == nil {
					hasDefault = "true"
					clauses = append(clauses, &ast.CaseClause{List: []ast.Expr{&ast.UnaryExpr{Op: token.SUB, X: &ast.BasicLit{Kind: token.INT, Value: "1"}}}, Body: cc.Body})
					continue
				}
				tmpN++
				tmp := "_vc" + strconv.Itoa(tmpN)
				var bodyPre []ast.Stmt
				switch comm := cc.Comm.(type) {
				case *ast.SendStmt:
					pre = append(pre, &ast.AssignStmt{Lhs: []ast.Expr{ast.NewIdent(tmp)}, Tok: token.DEFINE, Rhs: []ast.Expr{comm.Chan}})
					cases = append(cases, call(sel("vsched", "SendCase"), ast.NewIdent(tmp), comm.Value))
				case *ast.ExprStmt: // case <-c:
					u, ok := comm.X.(*ast.UnaryExpr)
					if !ok || u.Op != token.ARROW {
						fail(fset, comm, "select case expr")
					}
					pre = append(pre, &ast.AssignStmt{Lhs: []ast.Expr{ast.NewIdent(tmp)}, Tok: token.DEFINE, Rhs: []ast.Expr{u.X}})
					cases = append(cases, call(sel("vsched", "RecvCase"), ast.NewIdent(tmp)))
				case *ast.AssignStmt: // case v := <-c / v, ok := <-c / v = <-c
					u, ok := comm.Rhs[0].(*ast.UnaryExpr)
					if !ok || u.Op != token.ARROW {
						fail(fset, comm, "select case assign")
					}
					pre = append(pre, &ast.AssignStmt{Lhs: []ast.Expr{ast.NewIdent(tmp)}, Tok: token.DEFINE, Rhs: []ast.Expr{u.X}})
					cases = append(cases, call(sel("vsched", "RecvCase"), ast.NewIdent(tmp)))
					m := "Taken"
					if len(comm.Lhs) == 2 {
						m = "TakenOK"
					}
					bodyPre = append(bodyPre, &ast.AssignStmt{Lhs: comm.Lhs, Tok: comm.Tok, Rhs: []ast.Expr{call(&ast.SelectorExpr{X: ast.NewIdent(tmp), Sel: ast.NewIdent(m)})}})
					if comm.Tok == token.DEFINE { // silence "declared and not used"
						for _, l := range comm.Lhs {
							if id, ok := l.(*ast.Ident); ok && id.Name != "_" {
								bodyPre = append(bodyPre, &ast.AssignStmt{Lhs: []ast.Expr{ast.NewIdent("_")}, Tok: token.ASSIGN, Rhs: []ast.Expr{ast.NewIdent(id.Name)}})
							}
						}
					}
				default:
					fail(fset, cc, "select comm")
				}
				clauses = append(clauses, &ast.CaseClause{List: []ast.Expr{&ast.BasicLit{Kind: token.INT, Value: strconv.Itoa(idx)}}, Body: append(bodyPre, walkStmts(cc.Body)...)})
				idx++
			}
			args := append([]ast.Expr{ast.NewIdent(hasDefault)}, cases...)
			sw := &ast.SwitchStmt{Tag: call(sel("vsched", "Select"), args...), Body: &ast.BlockStmt{List: clauses}}
			return &ast.BlockStmt{List: append(pre, sw)}
		case *ast.LabeledStmt:
			x.Stmt = walkStmt(x.Stmt)
			return x
		}
		return s
	}
	walkStmts = func(list []ast.Stmt) []ast.Stmt {
		for i, s := range list {
			list[i] = walkStmt(s)
		}
		return list
	}
	// order matters: statement-level rewrites are triggered from apply's BlockStmt/CaseClause visits
	apply(f)

	// imports
	for _, imp := range f.Imports {
		if swapSync && imp.Path.Value == `"sync"` {
			imp.Path.Value = strconv.Quote(shimPath + "/vsync")
			if imp.Name == nil {
				imp.Name = ast.NewIdent("sync")
			}
		}
	}
	var buf bytes.Buffer
	if err := format.Node(&buf, fset, f); err != nil {
		panic(err)
	}
	src := buf.String()
	if usedShim {
		// add the shim import textually after the package clause
		i := bytes.Index(buf.Bytes(), []byte("\nimport"))
		if i < 0 {
			i = bytes.Index(buf.Bytes(), []byte("\n")) // after package line
			src = src[:i+1] + "\nimport \"" + shimPath + "\"\n" + src[i+1:]
		} else {
			src = src[:i+1] + "import \"" + shimPath + "\"\n" + src[i+1:]
		}
	}
	if err := os.WriteFile(out, []byte(src), 0o644); err != nil {
		panic(err)
	}
}
