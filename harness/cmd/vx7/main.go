// Command vx7 is the E1 driver built with the environment seams of engine E3 (fixed hash
// seeds and Go-map iteration order as a function of the configuration); it serves C07.
package main

import (
	"verif/harness/checks"
	"verif/harness/core"
	_ "verif/harness/mapiter"
)

func main() { core.Main(checks.All) }
