// Command vsx is the E2 driver: checks that explore real concurrent code under the
// controlled scheduler. It is built with -race and with an overlay that replaces the files
// under exploration by their mechanically rewritten form.
package main

import (
	"verif/harness/core"
	"verif/harness/e2checks"
)

func main() { core.Main(e2checks.All) }
