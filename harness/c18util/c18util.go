// Package c18util holds the observers of C18: an in-memory file system and an HTTP
// transport that record every access made while sandboxed arr.ai source is evaluated.
// Neither touches the real world: the file system is a MemMapFs, the transport refuses
// every request before anything is dialled.
package c18util

import (
	"encoding/hex"
	"errors"
	"net/http"
	"os"
	"path/filepath"
	"strings"
	"sync"

	"github.com/spf13/afero"
)

// Event is one recorded access.
type Event struct{ Op, Name string }

// RecFs is an in-memory afero.Fs that records Open/OpenFile/Stat. A file whose base name
// is h<hex>.arrai exists in every directory and contains the hex-decoded text: the
// environment offers sandboxed source an importable file with any content it asks for.
type RecFs struct {
	afero.Fs
	mu     sync.Mutex
	events []Event
}

func NewRecFs() *RecFs { return &RecFs{Fs: afero.NewMemMapFs()} }

// Put creates a file without recording anything.
func (r *RecFs) Put(name, content string) {
	_ = r.Fs.MkdirAll(filepath.Dir(name), 0o755)
	_ = afero.WriteFile(r.Fs, name, []byte(content), 0o644)
}

// HexName is the file name (without extension) under which src can be imported.
func HexName(src string) string { return "h" + hex.EncodeToString([]byte(src)) }

func (r *RecFs) materialise(name string) {
	base := filepath.Base(name)
	if !strings.HasPrefix(base, "h") || !strings.HasSuffix(base, ".arrai") {
		return
	}
	b, err := hex.DecodeString(strings.TrimSuffix(base[1:], ".arrai"))
	if err != nil {
		return
	}
	if _, err := r.Fs.Stat(name); err == nil {
		return
	}
	r.Put(name, string(b))
}

func (r *RecFs) rec(op, name string) {
	r.mu.Lock()
	r.events = append(r.events, Event{op, name})
	r.mu.Unlock()
}

func (r *RecFs) Open(name string) (afero.File, error) {
	r.rec("open", name)
	r.materialise(name)
	return r.Fs.Open(name)
}

func (r *RecFs) OpenFile(name string, flag int, perm os.FileMode) (afero.File, error) {
	r.rec("open", name)
	r.materialise(name)
	return r.Fs.OpenFile(name, flag, perm)
}

func (r *RecFs) Stat(name string) (os.FileInfo, error) {
	r.rec("stat", name)
	r.materialise(name)
	return r.Fs.Stat(name)
}

// Mark returns the current length of the event log; Since returns the events after a mark.
func (r *RecFs) Mark() int {
	r.mu.Lock()
	defer r.mu.Unlock()
	return len(r.events)
}

func (r *RecFs) Since(mark int) []Event {
	r.mu.Lock()
	defer r.mu.Unlock()
	return append([]Event(nil), r.events[mark:]...)
}

// RecTransport records every HTTP request and refuses it.
type RecTransport struct {
	mu   sync.Mutex
	reqs []string
}

var ErrRefused = errors.New("c18: network access refused by the recording transport")

func (t *RecTransport) RoundTrip(req *http.Request) (*http.Response, error) {
	t.mu.Lock()
	t.reqs = append(t.reqs, req.Method+" "+req.URL.String())
	t.mu.Unlock()
	return nil, ErrRefused
}

func (t *RecTransport) Mark() int {
	t.mu.Lock()
	defer t.mu.Unlock()
	return len(t.reqs)
}

func (t *RecTransport) Since(mark int) []string {
	t.mu.Lock()
	defer t.mu.Unlock()
	return append([]string(nil), t.reqs[mark:]...)
}

// Install makes the transport the one every default HTTP client of the process uses.
func (t *RecTransport) Install() {
	http.DefaultTransport = t
	http.DefaultClient.Transport = t
}
