package checks

import (
	"context"
	"fmt"
	"math"
	"os"
	"sort"
	"strconv"
	"strings"
	"time"

	"github.com/arr-ai/arrai/rel"
	"github.com/arr-ai/arrai/syntax"

	"verif/harness/c10util"
	"verif/harness/core"
)

// C10: every program ends in a value or an error, never a crash or a hang.
//
// (a) source strings: all sequences of <= 3 (quick) / <= 4 (thorough, reduced alphabet for
//     length 4) tokens over a fixed alphabet of grammar terminals and their malformed
//     prefixes, joined both without and with a blank; every byte prefix and every
//     single-byte deletion of a corpus of well-formed programs;
// (b) every unary/binary/ternary operator form and every function of the safe standard
//     library applied to every operand tuple over a kind alphabet (curried, <= 3 arguments).
// Oracle: syntax.EvaluateExpr (or Expr.Eval for compiled operator forms) returns a value or
// an error; reporting that value/error the way `arrai eval` does terminates as well. A
// panic (signature = panic|message|first repo frame), a fatal error or a watchdog expiry is
// a failure.

// ---------- (a) token alphabet ----------

// c10TokensCore: 41 tokens (quick and thorough).
var c10TokensCore = []string{
	"1", "x", ".", `"a"`, `"`, `'`, `\x`, `$"`, "${", "}", "{", "{:", ":}", "//", "//{", "%",
	`\`, `\\`, "->", "->*", "nest", "unnest", "|", "(", ")", "[", "]", ",", ":", ";", "=",
	"let", "<<", ">>", "?", "+", "count", "...", "\x00", "\xff", "@",
}

// c10TokensExtra: further tokens used by the thorough tier for lengths <= 3.
var c10TokensExtra = []string{
	`\u`, "/", "-", "*", "if", "cond", "where", "=>", "&", "^", "<:", "with", "#", "\u2035", "rec", "\n",
	"1e999", "else", "~",
}

// c10Len4 is the reduced alphabet whose sequences of length 4 the thorough tier adds.
var c10Len4 = []string{
	"1", "x", `"`, `'`, `\x`, `$"`, "${", "}", "{", "{:", ":}", "//", "//{", "/", `\`, "->",
	"unnest", "|", "(", ")", "[", "]", ",", ":",
}

// c10Corpus: well-formed programs covering the grammar's constructs; every byte prefix and
// every single-byte deletion is run. No recursion (let rec, //fn.fix), no //os, //net, //log.
var c10Corpus = []string{
	`1 + 2 * 3 - 4 / 5 % 6 -% 7 // 8`,
	`2 ^ 3 ^ 2`,
	`-1 + +2`,
	`!{} && {()} || 0`,
	`"abc" ++ 'def' ++ ` + "\u2035raw\u2035",
	`"esc \n \t \x41 \u0041 \101 \\ \""`,
	`$"a${1 + 2}b${[1, 2]::, }c${"x":5s}"`,
	"$'\n  x ${ [1, 2] >> . + 1 ::\\i:\\n}\n  y'",
	`{1, 2, 3} where . > 1`,
	`{1, 2} => . * 2`,
	`[1, 2, 3] >> . + 1`,
	`[1, 2, 3] >>> \i \x i + x`,
	`(a: 1, b: 2) :> . + 1`,
	`{(a: 1, b: 2), (a: 3, b: 4)} nest |b|c`,
	`{(a: 1, b: 2), (a: 3, b: 4)} nest ~|a|c`,
	`{(a: 1, b: {(c: 2)})} unnest b`,
	`{|a, b| (1, 2), (3, 4)}`,
	`{"a": 1, "b": [2, 3]}("b")(0)`,
	`[1, 2, 3](1:2) ++ [4, 5, 6](::2)`,
	`"hello"(1:3)`,
	`<<1, 2, "abc", %a, (65)>>`,
	`%a + %\n`,
	`let x = 1; x + 1`,
	`let [a, b] = [1, 2]; a + b`,
	`let [x, ...xs] = [1, 2, 3]; xs`,
	`let (a: x, ...) = (a: 1, b: 2); x`,
	`let (a?: x:42) = (); x`,
	`let {"k": v, ...} = {"k": 1, "j": 2}; v`,
	`let {x, ...} = {1}; x`,
	`let f = \x x + 1; f(2)`,
	`(\x \y x + y)(1)(2)`,
	`(\(a: x) x)((a: 1))`,
	`(\[x, ...xs] xs)([1, 2])`,
	`1 -> . + 1 -> \x x * 2`,
	`(\x x) count`,
	`cond {1 > 2: "a", _: "b"}`,
	`cond 1 {1: "one", (2): "two", _: "other"}`,
	`cond [1, 2] {[a, b]: a + b, _: 0}`,
	`cond (a: 1) {(a: x): x}`,
	`1 if {()} else 2`,
	`{1, 2} | {2, 3} & {3} &~ {4} ~~ {5}`,
	`{(a: 1)} <&> {(a: 1, b: 2)}`,
	`{(a: 1, b: 2)} -&- {(b: 2, c: 3)}`,
	`{(a: 1, b: 2)} <-> {(b: 2, c: 3)}`,
	`{(a: 1)} --- {(a: 1)} -&> {(a: 1)} <&- {(a: 1)} --> {(a: 1)} <-- {(a: 1)}`,
	`[1, 2] ++ [3]`,
	`(a: 1) +> (b: 2)`,
	`{"a": 1} +> {"b": 2}`,
	`{1, 2} with 3 without 1`,
	`(a: (b: 1)).a.b`,
	`(a: 1).b?:2`,
	`(a: 1)?.b:2`,
	`{"a": 1}?("b"):2`,
	`(a: 1, b: 2).|a|`,
	`(a: 1, b: 2).~|a|`,
	`[1, 2, 3] count`,
	`{1} single`,
	`{3, 1, 2} orderby .`,
	`{3, 1, 2} order \a \b a < b`,
	`{3, 1, 2} rank (r: .)`,
	`{1, 2, 3} sum .`,
	`{1, 2} max . + {1, 2} min . + {1, 2} mean . + {1, 2} median .`,
	`{(a: 1, b: 2)} => (.a + .b)`,
	`{1, 2} filter . {1: "one"}`,
	`[1, , 3]`,
	`1\[1, 2]`,
	`2\"abc"`,
	`//seq.concat([[1], [2]])`,
	`//str.upper("abc")`,
	`//encoding.json.decode('{"a": [1, null]}')`,
	`//{./x}`,
	`//{/x}`,
	`//[//encoding.json.decode]{./x.json}`,
	`{://grammar.lang.wbnf[grammar]: a -> "b"; :}`,
	`let g = {://grammar.lang.wbnf: a -> "b"; :}; {:g[a]:b:}`,
	`{://grammar.lang.arrai:1:}`,
	"1 # comment\n + 2",
	`(a: 1, 'b c': 2, "d": 3)`,
	`let x = 1; (:x)`,
	`{(@: 0, @char: 97)}`,
	`{(@: 0, @item: 1)}`,
	`{(@: 0, @byte: 1)}`,
	`{(@: 1, @value: 2)}`,
	`1 <: {1, 2}`,
	`{1} (<) {1, 2}`,
	`{1} !(<>=) {2}`,
	`^{1, 2}`,
	`*"1 + 1"`,
	`(a: (b: 1)) ->*a ->*b (2)`,
	`\\1`,
	`@{a b}`,
	`let (@: x) = (@: 1); x`,
	`[1, 2](5)?:0`,
	`[1, 2, 3](:1)`,
	`"abc"(:1:2)`,
	`(a: (b: 1)).a?.c:0`,
	// short malformed programs first found by the thorough token enumeration
	`{:():}`,
	`cond ${}`,
	`{('a, b': 1), (a: 1, b: 2)}`,
	`[1] | [2]`,
	`(&a: 1).a`,
	`(&a: \x 1).a`,
	`let {"a": x, "a": y} = {"a": 1}; x`,
	`let (a: x, a: y) = (a: 1); x`,
	`let [x, x] = [1, 2]; x`,
	`{"a": 1, "a": 2}`,
	`(a: 1, a: 2)`,
}

// ---------- (b) kind alphabet and operator forms ----------

type c10Kind struct {
	Name, Src string
}

var c10KindsQuick = []c10Kind{
	{"one", `1`}, {"half", `0.5`}, {"neg", `-1`}, {"nan", `(0/0)`}, {"string", `"ab"`},
	{"empty", `{}`}, {"emptytuple", `()`}, {"tuple", `(a: 1, b: "x")`}, {"set", `{1, 2}`},
	{"heteroset", `{1, "a", (a: 1)}`}, {"sparsearray", `[1, , 2]`}, {"offsetarray", `1\[7, 8]`},
	{"dict", `{"a": 1}`}, {"fn", `\x x`}, {"nativefn", `//str.upper`}, {"bytes", `<<1, 2>>`},
	{"relation", `{(a: 1, b: 2), (a: 2, b: 3)}`}, {"chartuple", `(@: 1, @char: 97)`},
	{"array", `[1, 2]`}, {"dictofdict", `{1: {2: 3}, "k": [1]}`},
}

var c10KindsExtra = []c10Kind{
	{"zero", `0`}, {"offsetstring", `1\"ab"`}, {"heterorel", `{(a: 1), (b: 2)}`},
	{"nestedarray", `[[1], "a"]`}, {"three", `3`}, {"neghalf", `-2.5`}, {"heteroset2", `{2, "b", (b: 1), [1]}`},
}

// operator forms; a, b, c are bound to alphabet values through the scope.
var c10Unary = []string{
	`-a`, `+a`, `!a`, `*a`, `^a`, `=> a`, `>> a`, `:> a`, `a count`, `a single`,
	`a.a`, `a."a"`, `a.|a|`, `a.~|a|`, `a.&a`, `a.a?:0`, `a("a")?:0`, `a(0)?:0`, `a.a?.b:0`, `a(0)?(1):0`, `a.a?("a"):0`,
	`a(0)`, `a(1)`, `a(2)`, `a(3)`, `a(-1)`, `a("a")`, `a(0:1)`, `a(1:)`, `a(0::2)`, `a(2:0:-1)`, `a(0:2:0)`, `a(0.5:)`,
	`a -> .`, `a -> \x x`, `a -> \[x] x`, `a -> \[x, ...t] t`, `a -> \(a: x) x`, `a -> \(a: x, ...t) t`, `a -> \(a?: x:0) x`,
	`a -> \{"a": x} x`, `a -> \{"a": x, ...t} t`, `a -> \{x} x`, `a -> \{x, ...t} t`, `a -> \{1, x} x`, `a -> \[1, x] x`, `a -> \1 2`, `a -> \"ab" 2`,
	`a -> \(@: x, @char: y) y`, `a -> \[[x]] x`, `a -> \{"a"?: x:0} x`,
	`a => .`, `a >> .`, `a :> .`, `a => .a`, `a => (x: .)`, `a >> \x x`, `a >>> \i \x x`, `a => \(:a, ...) a`,
	`a where .`, `a where .a = 1`, `a where {}`, `a orderby .`, `a orderby .a`, `a orderby [.a, .b]`, `a order \x \y x < y`, `a rank (r: .)`, `a rank (r: .a)`,
	`a sum .`, `a max .`, `a mean .`, `a median .`, `a min .`, `a sum .a`,
	`a nest b`, `a nest |a|n`, `a nest ~|a|n`, `a nest |a, b|n`, `a nest |z|n`,
	`a filter . {1: 2}`, `a filter . {(a: x, ...): x}`, `a filter . {[x, ...]: x}`, `a filter .a {x: x}`,
	`cond a {1: 2, _: 3}`, `cond a {(a: x, ...): x, _: 0}`, `cond a {[x, ...]: x}`, `cond a {{"a": x}: x}`, `cond {a: 1, _: 2}`, `cond a {{x, ...}: x}`, `cond a {"ab": 1}`,
	`$"${a}"`, `$"${a:s}"`, `$"${a:d}"`, `$"${a::, }"`, `$"${a:03.1f:}"`, `$"${a:q::}"`, `$"${a:s:, :-}"`, "$\"\n  ${a::\\i}\"",
	`<<a>>`, `<<(a)>>`, `[a]`, `{a}`, `(x: a)`, `{a: 1}`, `{1: a}`, `{|x| (a)}`, `[a, , a]`, `{a, a}`, `{a: 1, a: 2}`, `{(x: a), (y: a)}`, `{(x: a), (x: 1, y: a)}`,
	`let [x] = a; x`, `let (a: x) = a; x`, `let {"a": x} = a; x`, `let {x} = a; x`, `let (:a, ...) = a; a`, `let x = a; x`, `let 1 = a; 2`,
	`a if a else a`, `1 if a else 2`, `a(a)`, `a -> $"${.}"`, `a && a`, `a -> (\x x)`, `(\. .)(a)`,
	`a < a`, `a = a`, `a <: a`, `a with a`, `a without a`, `a ++ a`, `a +> a`, `a | a`, `a <&> a`, `a -&- a`, `a <-> a`,
}

var c10Binary = []string{
	`a + b`, `a - b`, `a * b`, `a / b`, `a % b`, `a -% b`, `a // b`, `a ^ b`, `a \ b`,
	`a = b`, `a != b`, `a < b`, `a <= b`, `a > b`, `a >= b`, `a <: b`, `a !<: b`,
	`a (<) b`, `a (<=) b`, `a (>) b`, `a (>=) b`, `a (<>) b`, `a (<>=) b`, `a !(<) b`, `a !(<>=) b`,
	`a && b`, `a || b`, `a with b`, `a without b`, `a | b`, `a & b`, `a &~ b`, `a ~~ b`,
	`a <&> b`, `a <-> b`, `a -&- b`, `a --- b`, `a -&> b`, `a <&- b`, `a --> b`, `a <-- b`,
	`a ++ b`, `a +> b`, `a >>> b`, `a(b)`, `a -> b`, `a => b`, `a >> b`, `a :> b`,
	`a where b`, `a orderby b`, `a order b`, `a rank b`, `a sum b`, `a max b`, `a mean b`, `a median b`, `a min b`,
	`a(b)?:0`, `a.a?:b`, `a(0)?:b`, `a(b:)`, `a(0:b)`, `a(b:b)`, `a(0::b)`,
	`{a: b}`, `(x: a, y: b)`, `[a, b]`, `{a, b}`, `[a, , b]`, `{a: 1, b: 2}`, `{|x, y| (a, b)}`, `{|x| (a), (b)}`, `{(x: a), (y: b)}`,
	`(@: a, @char: b)`, `(@: a, @item: b)`, `(@: a, @byte: b)`, `(@: a, @value: b)`,
	`{(@: a, @char: b)}`, `{(@: a, @item: b)}`, `{(@: a, @byte: b)}`, `{(@: a, @value: b)}`,
	`{(@: a, @char: b), (@: 0, @char: 97)}`, `{(@: a, @item: b), (@: 0, @item: 1)}`, `{(@: a, @byte: b), (@: 0, @byte: 1)}`, `{(@: a, @value: b), (@: 1, @value: 2)}`,
	`{(@: 0, @item: a), (@: 0, @item: b)}`, `{(@: a, @item: 1), (@: b, @item: 1)}`, `{(@: a, @value: 1), (@: b, @value: 1)}`,
	`cond a {b: 1, _: 2}`, `cond a {(b): 1, _: 2}`, `a filter . {(b): 1}`, `a -> \x b(x)`, `let f = a; f(b)`, `a -> \(b) 1`,
	`$"${a:s:${b}}"`, `$"${a::${b}:${b}}"`, `a if b else 0`, `<<a, b>>`, `<<(a), (b)>>`, `a => b(.)`, `a >> b(.)`, `a where b(.)`, `a orderby b(.)`,
	`a nest |a|n => .n | b`, `(a +> b) +> a`, `(a | b) & a`, `(a ++ b) ++ a`, `(a with b) without a`, `(a <&> b) <&> a`, `[a] ++ b`, `a ++ [b]`, `{a} | b`,
}

var c10Ternary = []string{
	`a if b else c`, `a(b:c)`, `a(b)(c)`, `a(b)?:c`, `cond a {b: c, _: 0}`, `[a, b, c]`, `{a, b, c}`, `{a: b, c: 1}`,
	`{(@: a, @item: b), (@: 0, @item: c)}`, `{(@: a, @char: b), (@: c, @char: 97)}`, `{(@: a, @value: b), (@: a, @value: c)}`,
	`(a | b) | c`, `(a ++ b) ++ c`, `a(b:c:1)`,
}

// c10Witness is a runnable program equivalent to applying the operator form to the operands.
func c10Witness(op string, kinds []c10Kind, idx ...int) string {
	var sb strings.Builder
	for i, k := range idx {
		fmt.Fprintf(&sb, "let %c = %s; ", 'a'+i, kinds[k].Src)
	}
	sb.WriteString(op)
	return sb.String()
}

// ---------- outcome handling ----------

type c10Ctx struct {
	w *core.W
}

// record classifies one outcome; returns its class.
func (c c10Ctx) record(family string, o c10util.Out, witness func() string) string {
	w := c.w
	switch {
	case o.Panic != "":
		w.Fail("panic", o.Panic, witness(), "")
		w.Count(family+".panic", 1)
		return "panic"
	case o.Err == nil && o.V == nil:
		w.Fail("wrong", family+"|nil-value-and-nil-error", witness(), "")
		return "nil"
	case o.Err != nil:
		w.Count(family+".error", 1)
		return "error"
	}
	w.Count(family+".value", 1)
	return "value"
}

func checkC10(w *core.W) {
	c10util.Isolate()
	c := c10Ctx{w}
	ctx := c10util.NewCtx()
	kinds := append([]c10Kind{}, c10KindsQuick...)
	if w.Thorough {
		kinds = append(kinds, c10KindsExtra...)
	}
	vals := make([]rel.Value, len(kinds))
	for i, k := range kinds {
		if k.Name == "nan" {
			vals[i] = rel.NewNumber(math.NaN())
			continue
		}
		var v rel.Value
		var err error
		if sig := core.Try(func() { v, err = syntax.EvaluateExpr(ctx, "", k.Src) }); sig != "" || err != nil || v == nil {
			w.BrokenF("C10 alphabet element %s = %q cannot be built: %v %s", k.Name, k.Src, err, sig)
			return
		}
		vals[i] = v
	}
	K := len(kinds)

	timing := os.Getenv("VERIF_C10_TIMING") != ""
	t0 := time.Now()
	lap := func(name string) {
		if timing {
			w.Count("ms."+name, time.Since(t0).Milliseconds())
			t0 = time.Now()
		}
	}
	if w.Round == 0 {
		c10Sources(w, c)
		lap("sources")
		c10Operators(w, c, ctx, kinds, vals)
		lap("operators")
	}
	c10Stdlib(w, c, ctx, kinds, vals, K)
	lap("stdlib")
	if w.Round == 2 && w.Shard == 0 {
		c10RenderParseError(w)
	}
	w.Count("net_requests_blocked", c10util.NetBlocked.Load())
}

// c10RenderParseError is the single case in which the error returned for a grammar-level
// rejection is rendered (everywhere else such errors are only classified by type): the
// rendering of wbnf's ParseError takes minutes for a 1-byte program. It runs last in the
// last round because the rendering goroutine cannot be stopped; the worker exits right after.
func c10RenderParseError(w *core.W) {
	w.Case(func() string { return "report-error|render-parse-error ## \"(\"" }, func() {
		o := c10util.RunSource("(")
		w.Eval(true)
		if o.Err == nil {
			return
		}
		done := make(chan struct{})
		go func() {
			defer func() { _ = recover(); close(done) }()
			_ = o.Err.Error()
		}()
		select {
		case <-done:
		case <-time.After(4 * time.Second):
			w.Fail("hang", "hang|report-error|render-parse-error", `"("`, "Error() of the error returned by syntax.EvaluateExpr did not return within 4 s")
		}
	})
}

// ---------- (a) ----------

func c10RunSource(w *core.W, c c10Ctx, family, class, src string) {
	w.Case(func() string { return family + "|" + class + " ## " + strconv.Quote(src) }, func() {
		o := c10util.RunSource(src)
		cls := c.record(family, o, func() string { return strconv.Quote(src) })
		kind := cls
		if cls == "error" {
			kind = c10util.ErrKind(o.Err)
			w.Count(family+".err."+kind, 1)
			if kind != "parse" {
				w.Note("error-messages", core.NormMsg(c10util.ErrText(o.Err)))
			}
		}
		// non-trivial: the text got past the grammar (a value, a compile/eval error, or a panic)
		w.Eval(kind != "parse")
		if cls == "value" && len(src) > 6 && len(w.SamplesLeft()) > 3 {
			w.Sample(fmt.Sprintf("source %q => value", src))
		}
	})
}

func c10Sources(w *core.W, c c10Ctx) {
	toks := append([]string{}, c10TokensCore...)
	if w.Thorough {
		toks = append(toks, c10TokensExtra...)
	}
	seps := []string{"", " "}
	k := 0
	for _, t := range toks { // length 1
		if w.Mine(k) {
			c10RunSource(w, c, "src", "tokens1", t)
		}
		k++
	}
	for _, t1 := range toks { // length 2 and 3; sharded by the first two tokens
		for _, t2 := range toks {
			mine := w.Mine(k)
			k++
			if !mine {
				continue
			}
			for _, sep := range seps {
				c10RunSource(w, c, "src", "tokens2", t1+sep+t2)
				for _, t3 := range toks {
					c10RunSource(w, c, "src", "tokens3", t1+sep+t2+sep+t3)
				}
			}
		}
	}
	if w.Thorough {
		for _, t1 := range c10Len4 {
			for _, t2 := range c10Len4 {
				mine := w.Mine(k)
				k++
				if !mine {
					continue
				}
				for _, t3 := range c10Len4 {
					for _, t4 := range c10Len4 {
						c10RunSource(w, c, "src", "tokens4", t1+t2+t3+t4)
					}
				}
			}
		}
	}
	// corpus: every byte prefix and every single-byte deletion
	for _, p := range c10Corpus {
		mine := w.Mine(k)
		k++
		if !mine {
			continue
		}
		for i := 1; i <= len(p); i++ {
			c10RunSource(w, c, "src", "prefix", p[:i])
		}
		for i := 0; i < len(p); i++ {
			c10RunSource(w, c, "src", "deletion", p[:i]+p[i+1:])
		}
	}
}

// ---------- (b) operators ----------

func c10Operators(w *core.W, c c10Ctx, ctx context.Context, kinds []c10Kind, vals []rel.Value) {
	K := len(kinds)
	k := 1000003 // independent of the source enumeration
	compile := func(src string) (rel.Expr, bool) {
		var e rel.Expr
		var err error
		if sig := core.Try(func() { e, err = syntax.Compile(ctx, "", src) }); sig != "" || err != nil {
			w.BrokenF("C10 operator form %q does not compile: %s %s", src, c10util.ErrText(err), sig)
			return nil, false
		}
		return e, true
	}
	run := func(src string, expr rel.Expr, idx ...int) {
		w.Case(func() string { return "op|" + src + " ## " + c10Witness(src, kinds, idx...) }, func() {
			sc := rel.EmptyScope
			for i, x := range idx {
				sc = sc.With(string(rune('a'+i)), vals[x])
			}
			o := c10util.EvalExpr(ctx, expr, sc)
			cls := c.record("op", o, func() string { return c10Witness(src, kinds, idx...) })
			// non-trivial: the operand tuple is rejected (error) or crashes; a value means the
			// operands were acceptable to this operator
			w.Eval(cls != "value")
			w.Note("op-outcomes", src+" => "+cls)
			if cls == "error" && len(w.SamplesLeft()) > 1 && len(idx) == 2 && idx[0] > 8 {
				w.Sample(fmt.Sprintf("%s => error %s", c10Witness(src, kinds, idx...), core.NormMsg(c10util.ErrText(o.Err))))
			}
		})
	}
	// every worker compiles only the forms it runs (sharded by form; ternary by form and a)
	for _, src := range c10Unary {
		mine := w.Mine(k)
		k++
		if !mine {
			continue
		}
		if e, ok := compile(src); ok {
			for a := 0; a < K; a++ {
				run(src, e, a)
			}
		}
	}
	for _, src := range c10Binary {
		mine := w.Mine(k)
		k++
		if !mine {
			continue
		}
		if e, ok := compile(src); ok {
			for a := 0; a < K; a++ {
				for b := 0; b < K; b++ {
					run(src, e, a, b)
				}
			}
		}
	}
	for _, src := range c10Ternary {
		var e rel.Expr
		for a := 0; a < K; a++ {
			mine := w.Mine(k)
			k++
			if !mine {
				continue
			}
			if e == nil {
				var ok bool
				if e, ok = compile(src); !ok {
					break
				}
			}
			for b := 0; b < K; b++ {
				for cc := 0; cc < K; cc++ {
					run(src, e, a, b, cc)
				}
			}
		}
	}
}

// ---------- (b) standard library ----------

// subtrees of the safe library that are not applied: they reach the host (environment,
// stdin, file system, stderr, commands) or are recursion combinators (the property covers
// non-recursive input only).
var c10StdSkip = map[string]bool{
	"std": true, "grammar.lang": true, "os": true, "net": true, "log": true, "deprecated": true,
	"fn.fix": true, "fn.fixt": true,
}

// a chain is a function path followed by steps: an alphabet index (argument) or ".attr".
func c10ChainArgs(key string) int {
	n := 0
	for _, s := range strings.Split(key, "|")[1:] {
		if !strings.HasPrefix(s, ".") {
			n++
		}
	}
	return n
}

func c10ChainSrc(key string, kinds []c10Kind) string {
	parts := strings.Split(key, "|")
	s := "//" + parts[0]
	for _, p := range parts[1:] {
		if strings.HasPrefix(p, ".") {
			s += p
		} else {
			i, _ := strconv.Atoi(p)
			s += "(" + kinds[i].Src + ")"
		}
	}
	return s
}

func c10Stdlib(w *core.W, c c10Ctx, ctx context.Context, kinds []c10Kind, vals []rel.Value, K int) {
	call, err := syntax.Compile(ctx, "", "f(x)")
	if err != nil {
		w.BrokenF("cannot compile f(x): %v", err)
		return
	}
	byPath := map[string]rel.Value{}
	var keys []string
	for _, f := range c10util.StdFuncs(c10StdSkip) {
		byPath[f.Path] = f.F
		if w.Round == 0 {
			keys = append(keys, f.Path)
		}
	}
	if w.Round == 0 {
		if w.Shard == 0 {
			w.Count("std.functions", int64(len(keys)))
		}
	} else {
		for _, key := range w.Prev["c10-next"] {
			if c10ChainArgs(key) == w.Round {
				keys = append(keys, key)
			}
		}
	}
	sort.Strings(keys)
	// replay re-evaluates a chain that succeeded in an earlier round
	replay := func(key string) (rel.Value, bool) {
		parts := strings.Split(key, "|")
		v, ok := byPath[parts[0]]
		if !ok {
			return nil, false
		}
		for _, p := range parts[1:] {
			if strings.HasPrefix(p, ".") {
				t, isT := v.(rel.Tuple)
				if !isT {
					return nil, false
				}
				if v, ok = t.Get(p[1:]); !ok {
					return nil, false
				}
				continue
			}
			i, _ := strconv.Atoi(p)
			o := c10util.EvalOnly(ctx, call, rel.EmptyScope.With("f", v).With("x", vals[i]))
			if o.Panic != "" || o.Err != nil || o.V == nil {
				return nil, false
			}
			v = o.V
		}
		return v, true
	}
	for n, key := range keys {
		if !w.Mine(n) {
			continue
		}
		key := key
		f, ok := replay(key)
		if !ok {
			w.BrokenF("C10: chain %s did not replay deterministically", key)
			continue
		}
		path := strings.Split(key, "|")[0]
		for i := 0; i < K; i++ {
			i := i
			w.Case(func() string { return "std|" + path + " ## " + c10ChainSrc(key+"|"+strconv.Itoa(i), kinds) }, func() {
				o := c10util.EvalExpr(ctx, call, rel.EmptyScope.With("f", f).With("x", vals[i]))
				wit := func() string { return c10ChainSrc(key+"|"+strconv.Itoa(i), kinds) }
				cls := c.record("std", o, wit)
				w.Eval(cls != "value")
				w.Note("std-outcomes", path+"/"+strconv.Itoa(c10ChainArgs(key)+1)+" => "+cls)
				if cls != "value" {
					return
				}
				next := key + "|" + strconv.Itoa(i)
				if c10ChainArgs(next) >= 3 {
					return
				}
				if c10util.IsFn(o.V) {
					w.Note("c10-next", next)
				} else if t, ok := o.V.(rel.Tuple); ok && t.Count() <= 8 {
					for _, name := range t.Names().OrderedNames() {
						if a, _ := t.Get(name); c10util.IsFn(a) {
							w.Note("c10-next", next+"|."+name)
						}
					}
				}
			})
		}
	}
}

var C10 = core.Check{
	ID: "C10", Level: "exploration", Fn: checkC10,
	Rounds:   func(string) int { return 3 },
	Watchdog: 20e9,
	Rule: "(a) every sequence of <=3 tokens over a 41-token alphabet of grammar terminals and malformed prefixes (thorough: 60 tokens, plus length 4 over 24 tokens joined without blank), joined with and without a blank, plus every byte prefix and single-byte deletion of a 107-program corpus, run through syntax.EvaluateExpr and reported like `arrai eval`; " +
		"(b) every operator form (unary/binary/ternary, compiled once, operands bound in scope) and every function of syntax.SafeStdScope (curried, <=3 arguments, also function-valued attributes of results) applied to all operand tuples over a 20-kind (thorough 27) alphabet including ill-typed kinds; " +
		"non-trivial = (a) the text got past the grammar (value, compile/eval error or panic), (b) the operand tuple was rejected (error) or crashed",
	Assume: []string{
		"the worker process cannot use net/http, find executables or see the real file system (imports resolve against an empty in-memory fs)",
		"//os, //net, //log, //deprecated.exec and the recursion combinators //fn.fix, //fn.fixt are not applied",
		"import graphs/cycles are covered by another check",
		"a watchdog expiry (20 s per case) counts as a hang; fatal errors (stack overflow) kill the worker and are recorded by the engine",
	},
}
