package checks

import (
	"context"
	"crypto/sha1"
	"encoding/hex"
	"fmt"
	"os"
	"runtime/debug"
	"sort"
	"strings"
	"time"

	"github.com/arr-ai/arrai/pkg/buildinfo"
	"github.com/arr-ai/arrai/pkg/ctxfs"
	"github.com/arr-ai/arrai/pkg/ctxrootcache"
	"github.com/arr-ai/arrai/pkg/importcache"
	"github.com/arr-ai/arrai/rel"
	"github.com/arr-ai/arrai/syntax"

	"verif/harness/c18util"
	"verif/harness/core"
	"verif/harness/obs"
)

// C18: sandboxed evaluation (//eval.eval, //eval.evaluator(config).eval) reaches only the
// scope and the library it was given.
//
// Explicit-state search over capability states. A state is the set of values that source
// text can obtain in one evaluation context (identified by what every top-level `//name`
// and every scope name resolves to); a transition applies one language construct: a `//`
// path, a scope name, an attribute access, a call, a closure/let wrapper, an import, or a
// context switch (//eval.value, //eval.eval, //eval.evaluator(cfg).eval, import) whose
// argument is again source text of the same grammar. Every transition is executed on the
// real implementation through the real sandbox entry point and compared with a reference
// model of the context (which library tuple and which names it was given).
//
// Nothing unsafe is ever executed: native functions are classified by identity (Go symbol
// of their body, name) and the unsafe ones are never called; file access goes to a
// recording in-memory file system and every HTTP request is recorded and refused.

const (
	c18File = 1 << iota
	c18Net
	c18Exec
)

var c18KindNames = []struct {
	bit  uint8
	name string
}{{c18File, "file"}, {c18Net, "net"}, {c18Exec, "exec"}}

// c18Anchors: where the full library keeps its file-reading, network and command-execution
// functions. Everything else is classified relative to these.
var c18Anchors = []struct {
	path string
	kind uint8
}{
	{"os.file", c18File},
	{"net.http.get", c18Net},
	{"net.http.post", c18Net},
	{"deprecated.exec", c18Exec},
}

// c18Info is the result of walking one value.
type c18Info struct {
	id     string
	kinds  uint8     // unsafe kinds reachable inside the value
	origin [3]string // per kind: library instance of the first unsafe function found
	where  [3]string // per kind: walk path to it
	hasFn  bool
}

func (a *c18Info) absorb(b *c18Info, step string) {
	for i, k := range c18KindNames {
		if b.kinds&k.bit != 0 && a.kinds&k.bit == 0 {
			a.kinds |= k.bit
			a.origin[i] = b.origin[i]
			a.where[i] = step + b.where[i]
		}
	}
	a.hasFn = a.hasFn || b.hasFn
}

type c18Env struct {
	w          *core.W
	ctx        context.Context
	fs         *c18util.RecFs
	tr         *c18util.RecTransport
	full, safe rel.Tuple
	label      map[*rel.NativeFunction]string
	symKind    map[string]uint8 // Go symbols that identify an unsafe function
	nameKind   map[string]uint8 // names that identify an unsafe function
	noCall     map[string]bool  // symbols of the unsafe functions, shared or not: never invoked
	tupMemo    map[*rel.GenericTuple]*c18Info
	natMemo    map[*rel.NativeFunction]*c18Info
	paths      []*c18Term // every path of the full library tree
	tops       []string   // its top-level names
	cwd        string
	probes     []*c18Term           // terms that identify a state
	canon      map[string][2]string // configuration-independent states: fingerprint -> (route, configuration that expands it)
	seenVals   map[string]bool      // values whose calls/attributes were already explored in this worker
}

func c18Hash(s string) string {
	h := sha1.Sum([]byte(s))
	return hex.EncodeToString(h[:8])
}

func c18Bare(name string) string {
	name = strings.TrimSuffix(strings.TrimPrefix(name, "⦑"), "⦒")
	if i := strings.IndexByte(name, '$'); i >= 0 {
		name = name[:i]
	}
	return name
}

// unsafeKind classifies a native function without calling it.
func (e *c18Env) unsafeKind(f *rel.NativeFunction) uint8 {
	if k, ok := e.symKind[rel.VerifNativeFnSym(f)]; ok {
		return k
	}
	return e.nameKind[c18Bare(f.Name())]
}

func c18Lookup(lib rel.Tuple, segs []string) (rel.Value, bool) {
	var cur rel.Value = lib
	for _, s := range segs {
		t, ok := cur.(rel.Tuple)
		if !ok {
			return nil, false
		}
		v, found := t.Get(s)
		if !found {
			return nil, false
		}
		cur = v
	}
	return cur, true
}

func c18SortedNames(t rel.Tuple) []string {
	names := t.Names().Names()
	sort.Strings(names)
	return names
}

// analyze walks a value through tuples, set members and the scopes captured by closures.
func (e *c18Env) analyze(v rel.Value, depth int) *c18Info {
	if depth > 40 {
		return &c18Info{id: "deep"}
	}
	switch x := v.(type) {
	case nil:
		return &c18Info{id: "nil"}
	case *rel.NativeFunction:
		if m := e.natMemo[x]; m != nil {
			return m
		}
		in := &c18Info{hasFn: true}
		if l, ok := e.label[x]; ok {
			in.id = "n:" + l
		} else {
			in.id = "n?:" + x.Name() + "@" + rel.VerifNativeFnSym(x)
		}
		if k := e.unsafeKind(x); k != 0 {
			in.kinds = k
			org := "other"
			if l, ok := e.label[x]; ok {
				org = l[:strings.IndexByte(l, ':')]
			}
			for i, kn := range c18KindNames {
				if kn.bit == k {
					in.origin[i] = org
					in.where[i] = x.Name()
				}
			}
		}
		e.natMemo[x] = in
		return in
	case rel.Closure, rel.ExprClosure:
		in := &c18Info{hasFn: true}
		sc, _ := rel.VerifClosureScope(v)
		var b strings.Builder
		b.WriteString("c:" + c18Hash(v.String()) + "{")
		for _, name := range sc.OrderedNames() {
			ex, _ := sc.Get(name)
			if val, ok := ex.(rel.Value); ok {
				ci := e.analyze(val, depth+1)
				in.absorb(ci, "<captured "+name+">.")
				b.WriteString(name + "=" + ci.id + ",")
			} else {
				b.WriteString(name + "=expr,")
			}
		}
		b.WriteString("}")
		in.id = "c:" + c18Hash(b.String())
		return in
	case rel.Tuple:
		gt, isGT := x.(*rel.GenericTuple)
		if isGT {
			if m := e.tupMemo[gt]; m != nil {
				return m
			}
		}
		in := &c18Info{}
		s := x.String()
		if !strings.Contains(s, "⦑") && !strings.Contains(s, "\\") {
			in.id = "d:" + c18Hash(s)
		} else {
			var b strings.Builder
			b.WriteString("t(")
			for _, name := range c18SortedNames(x) {
				c, _ := x.Get(name)
				ci := e.analyze(c, depth+1)
				in.absorb(ci, "."+name)
				b.WriteString(name + ":" + ci.id + ",")
			}
			b.WriteString(")")
			in.id = "t:" + c18Hash(b.String())
		}
		if isGT {
			e.tupMemo[gt] = in
		}
		return in
	case rel.Set:
		in := &c18Info{}
		s := x.String()
		if !strings.Contains(s, "⦑") && !strings.Contains(s, "\\") {
			in.id = "d:" + c18Hash(s)
			return in
		}
		var ids []string
		n := 0
		for en := x.Enumerator(); en.MoveNext(); {
			n++
			if n > 2000 {
				ids = append(ids, "…")
				break
			}
			ci := e.analyze(en.Current(), depth+1)
			in.absorb(ci, "<member>.")
			ids = append(ids, ci.id)
		}
		sort.Strings(ids)
		in.id = "s:" + c18Hash(strings.Join(ids, ","))
		return in
	}
	return &c18Info{id: "d:" + c18Hash(v.String())}
}

// c18Term is one piece of source text evaluated inside a context, with what the model
// needs to know about it.
type c18Term struct {
	src   string
	segs  []string // `//` path (nil for other terms)
	name  string   // scope name term
	class string   // safe-path | unsafe-path | nonexistent-path | name | import-url | call | attr
	inLib bool     // the path exists in the full library
	free  bool     // no expectation from the model (calls, attribute accesses on results)
}

// c18Con is a construct that switches the evaluation context: its argument is source text.
type c18Con struct {
	name string
	wrap func(src string) string
}

func c18Quote(s string) string {
	return `"` + strings.ReplaceAll(strings.ReplaceAll(s, `\`, `\\`), `"`, `\"`) + `"`
}

var c18Cons = []*c18Con{
	{"value", func(s string) string { return "//eval.value(" + c18Quote(s) + ")" }},
	{"eval", func(s string) string { return "//eval.eval(" + c18Quote(s) + ")" }},
	// the same two with the source handed over as a byte array (both accept string | bytes)
	{"value-bytes", func(s string) string { return "//eval.value(<<" + c18Quote(s) + ">>)" }},
	{"eval-bytes", func(s string) string { return "//eval.eval(<<" + c18Quote(s) + ">>)" }},
	{"evaluator()", func(s string) string { return "//eval.evaluator(()).eval(" + c18Quote(s) + ")" }},
	{"evaluator(stdlib:())", func(s string) string { return "//eval.evaluator((stdlib: ())).eval(" + c18Quote(s) + ")" }},
	{"evaluator(stdlib:(eval))", func(s string) string {
		return "//eval.evaluator((stdlib: (eval: //eval))).eval(" + c18Quote(s) + ")"
	}},
	{"evaluator(scope:(y))", func(s string) string {
		return "//eval.evaluator((scope: (y: //eval))).eval(" + c18Quote(s) + ")"
	}},
	{"import-local", func(s string) string { return "//{./" + c18util.HexName(s) + "}" }},
	{"import-root", func(s string) string { return "//{/" + c18util.HexName(s) + "}" }},
	{"import-decoder", func(s string) string { return `//[(decode: \b (` + s + `))]{./d.bin}` }},
}

func c18WrapRoute(route []*c18Con, s string) string {
	for i := len(route) - 1; i >= 0; i-- {
		s = route[i].wrap(s)
	}
	return s
}

func c18RouteName(route []*c18Con) string {
	if len(route) == 0 {
		return "<sandbox>"
	}
	p := make([]string, len(route))
	for i, c := range route {
		p[i] = c.name
	}
	return strings.Join(p, " > ")
}

// c18M is the reference model of an evaluation context: the library tuple bound to `//`
// (nil: none was given, every `//` reference must fail), the names in scope, and whether
// the context lies behind a construct that the model says cannot be passed.
type c18M struct {
	lib    rel.Tuple
	names  map[string]rel.Value
	class  string // root | nested-default | nested-empty-lib | nested-sublib | nested-scope
	escape string // "" | value | import: first construct after which nothing was given
}

func (m *c18M) ctxClass() string {
	if m.escape != "" {
		return "escaped:" + m.escape
	}
	return m.class
}

func c18Has(lib rel.Tuple, path ...string) bool {
	if lib == nil {
		return false
	}
	_, ok := c18Lookup(lib, path)
	return ok
}

// next is the model's transition relation for context switches: the context the construct
// leads to, and whether the construct is available at all.
func (e *c18Env) next(m *c18M, c *c18Con) (*c18M, bool) {
	if m.escape != "" {
		return &c18M{class: "beyond", escape: m.escape}, false
	}
	switch strings.TrimSuffix(c.name, "-bytes") {
	case "value":
		// //eval.value is handed no library and no scope
		return &c18M{class: "no-lib", escape: "value"}, c18Has(m.lib, "eval", "value")
	case "eval":
		return &c18M{lib: e.safe, class: "nested-default"}, c18Has(m.lib, "eval", "eval")
	case "evaluator()":
		return &c18M{lib: e.safe, class: "nested-default"}, c18Has(m.lib, "eval", "evaluator")
	case "evaluator(stdlib:())":
		return &c18M{lib: rel.EmptyTuple, class: "nested-empty-lib"}, c18Has(m.lib, "eval", "evaluator")
	case "evaluator(stdlib:(eval))":
		if !c18Has(m.lib, "eval", "evaluator") {
			return &c18M{class: "dead"}, false
		}
		ev, _ := m.lib.Get("eval")
		return &c18M{lib: rel.NewTuple(rel.NewAttr("eval", ev)), class: "nested-sublib"}, true
	case "evaluator(scope:(y))":
		if !c18Has(m.lib, "eval", "evaluator") {
			return &c18M{class: "dead"}, false
		}
		ev, _ := m.lib.Get("eval")
		return &c18M{lib: e.safe, names: map[string]rel.Value{"y": ev}, class: "nested-scope"}, true
	}
	// imports: sandboxed source was given no file system; imported text is given nothing
	return &c18M{class: "no-lib", escape: "import"}, false
}

// expected returns what the model says a term evaluates to (ok=false: must fail).
func (m *c18M) expected(t *c18Term) (rel.Value, bool) {
	switch {
	case t.segs != nil:
		if m.lib == nil {
			return nil, false
		}
		return c18Lookup(m.lib, t.segs)
	case t.name != "":
		v, ok := m.names[t.name]
		return v, ok
	}
	return nil, false
}

type c18Cfg struct {
	name    string
	val     rel.Tuple
	evalFn  rel.Set
	model   *c18M
	granted uint8
	deep    bool // explore nested contexts
}

type c18Search struct {
	e        *c18Env
	cfg      *c18Cfg
	maxDepth int
	maxCall  int
	args     []string
}

func (e *c18Env) run(fn rel.Set, src string) (o obs.Outcome) {
	defer func() {
		if r := recover(); r != nil {
			msg, site, in := core.PanicSite(r, debug.Stack())
			if !in {
				panic(r)
			}
			o = obs.Outcome{Panic: "panic|" + msg + "|" + site}
		}
	}()
	ctx := importcache.WithNewImportCache(e.ctx)
	v, err := rel.SetCall(ctx, fn, rel.NewString([]rune(src)))
	return obs.Outcome{V: v, Err: err}
}

func c18EscapeOf(route []*c18Con) string {
	for _, c := range route {
		switch {
		case c.name == "value":
			return "value"
		case strings.HasPrefix(c.name, "import"):
			return "import"
		}
	}
	return "none"
}

// c18OpenFlavours attributes the files opened during one evaluation to the import forms of
// the grammar (by the file that was opened); "unattributed" when no import was involved.
func c18OpenFlavours(route []*c18Con, t *c18Term, evs []c18util.Event) []string {
	imports := t.class == "import-url"
	for _, c := range route {
		imports = imports || strings.HasPrefix(c.name, "import")
	}
	fl := map[string]bool{}
	for _, ev := range evs {
		switch {
		case ev.Op != "open":
		case !imports:
			fl["unattributed"] = true
		case strings.HasSuffix(ev.Name, "d.bin"):
			fl["import-decoder"] = true
		case strings.HasPrefix(ev.Name, "/"):
			fl["import-root"] = true
		default:
			fl["import-local"] = true
		}
	}
	l := make([]string, 0, len(fl))
	for k := range fl {
		l = append(l, k)
	}
	sort.Strings(l)
	return l
}

// eval executes one transition and checks every clause of the oracle on it.
func (s *c18Search) eval(route []*c18Con, m *c18M, t *c18Term) (obs.Outcome, *c18Info) {
	e, w := s.e, s.e.w
	src := c18WrapRoute(route, t.src)
	wit := func() string {
		x := "cfg=" + s.cfg.name + " route=" + c18RouteName(route) + " :: " + src
		if src != t.src && strings.Contains(src, "{./h") || strings.Contains(src, "{/h") {
			x += "   (innermost text: " + t.src + "; a file h<hex>.arrai holds the hex-decoded text)"
		}
		return x
	}
	fm, tm := e.fs.Mark(), e.tr.Mark()
	o := e.run(s.cfg.evalFn, src)
	w.AddTransitions(1)
	w.Count("constructs:"+t.class, 1)

	// (b) observers: no file was opened, no request attempted
	evs := e.fs.Since(fm)
	for _, ev := range evs {
		if ev.Op == "open" {
			w.Count("fs_open_events", 1)
		} else {
			w.Count("fs_stat_events", 1)
		}
	}
	if s.cfg.granted&c18File == 0 {
		for _, fl := range c18OpenFlavours(route, t, evs) {
			w.Fail("fs-read", "fs-read|"+fl, wit(), fmt.Sprintf("file(s) opened by sandboxed source: %v", evs))
		}
	}
	if reqs := e.tr.Since(tm); len(reqs) > 0 {
		w.Count("net_request_events", int64(len(reqs)))
		if s.cfg.granted&c18Net == 0 {
			fl := "unattributed"
			if t.class == "import-url" {
				fl = "import-url"
			}
			w.Fail("net-request", "net-request|"+fl, wit(), "request attempted (and refused by the recorder): "+reqs[0])
		}
	}

	// (a) no unsafe function that was not passed in is reachable from the result
	var info *c18Info
	if o.OK() {
		info = e.analyze(o.V, 0)
		if bad := info.kinds &^ s.cfg.granted; bad != 0 {
			for i, k := range c18KindNames {
				if bad&k.bit == 0 {
					continue
				}
				sig := "unsafe-reached|" + k.name + "|"
				if info.origin[i] == "safe" {
					sig += "in-safe-library"
				} else {
					sig += "origin=" + info.origin[i] + "-library|via=" + c18EscapeOf(route)
				}
				w.Fail("unsafe-reached", sig, wit(), "result"+" contains "+info.where[i])
			}
		}
	}

	// (c) the reference resolves exactly as the model of the context says
	nontrivial := info != nil && info.hasFn
	if !t.free && !(t.name != "" && m.escape != "") { // names behind an escape: the model has no opinion
		want, ok := m.expected(t)
		if !ok && t.inLib {
			nontrivial = true
		}
		sigBase := "confine|" + m.ctxClass() + "|" + t.class + "|"
		switch {
		case ok && !o.OK():
			w.Fail("confine", sigBase+"failed-but-was-given", wit(), o.Class())
		case !ok && o.OK():
			w.Fail("confine", sigBase+"resolved-but-not-given", wit(), c18Short(o.V.String()))
		case ok && o.OK():
			if wi := e.analyze(want, 0); wi.id != info.id {
				w.Fail("confine", sigBase+"resolved-to-something-else", wit(), c18Short(o.V.String()))
			}
		}
	}
	w.Eval(nontrivial)
	switch {
	case o.Panic != "":
		w.Note("panics", o.Panic)
		w.Note("outcomes", t.class+"|panic")
	case o.Err != nil:
		w.Note("outcomes", t.class+"|error")
	default:
		w.Note("outcomes", t.class+"|value|unsafe="+fmt.Sprint(info.kinds))
		w.Note("values", info.id)
	}
	return o, info
}

func c18Short(s string) string {
	if len(s) > 120 {
		return s[:120] + "…"
	}
	return s
}

func c18OutcomeID(o obs.Outcome, info *c18Info) string {
	if o.OK() {
		return info.id
	}
	return "FAIL"
}

type c18Node struct {
	route []*c18Con
	m     *c18M
}

type c18Obtained struct {
	src   string
	v     rel.Value
	info  *c18Info
	depth int
	path  bool
}

func c18Ident(s string) bool {
	if s == "" {
		return false
	}
	for i, r := range s {
		switch {
		case r == '_' || (r >= 'a' && r <= 'z') || (r >= 'A' && r <= 'Z'):
		case r >= '0' && r <= '9' && i > 0:
		default:
			return false
		}
	}
	return true
}

// search runs the explicit-state search for one configuration.
func (s *c18Search) search() {
	e, w := s.e, s.e.w
	seen := map[string]bool{}
	queue := []*c18Node{{route: nil, m: s.cfg.model}}
	probes := e.probes

	for len(queue) > 0 {
		n := queue[0]
		queue = queue[1:]
		// identify the state: what the top-level references and the names resolve to
		var fp strings.Builder
		var got []c18Obtained
		for _, t := range probes {
			o, info := s.eval(n.route, n.m, t)
			fp.WriteString(t.src + "=" + c18OutcomeID(o, info) + ";")
			if o.OK() {
				got = append(got, c18Obtained{src: t.src, v: o.V, info: info, path: t.segs != nil})
			}
		}
		key := c18Hash(fp.String())
		if seen[key] {
			w.Count("routes_to_known_state", 1)
			continue
		}
		seen[key] = true
		// states that do not depend on the configuration (the default library without names,
		// the empty library, everything behind an escape) are expanded under one designated
		// configuration that grants nothing; elsewhere only their probes are checked
		if r, ok := e.canon[key]; ok && len(n.route) > 0 && r[1] != s.cfg.name {
			w.Count("states_left_to_designated_configuration", 1)
			w.Note("delegated", r[0]+" -> "+r[1])
			continue
		}
		w.AddStates(1)
		w.Note("states", key)
		w.Note("state_classes", n.m.ctxClass())
		if len(w.SamplesLeft()) > 0 && len(n.route) == 2 {
			w.Sample("cfg=" + s.cfg.name + " state reached by " + c18RouteName(n.route) + ", e.g. " + c18WrapRoute(n.route, "//os.file"))
		}

		// every remaining reference of the grammar in this state
		for _, t := range e.paths {
			if len(t.segs) == 1 {
				continue
			}
			o, info := s.eval(n.route, n.m, t)
			if o.OK() {
				got = append(got, c18Obtained{src: t.src, v: o.V, info: info, path: true})
			}
		}
		s.eval(n.route, n.m, &c18Term{src: "//{c18.invalid/p}", class: "import-url"})
		// closures and let do not change what `//` and names mean (only where the model gives something)
		if n.m.escape == "" {
			for _, t := range probes {
				for _, wr := range []struct{ tag, pre, post string }{{"lambda", `(\z `, `)(0)`}, {"let", `let z = 0; `, ``}, {"lambda2", `(\z \w `, `)(0)(0)`},
					// the probe as the default of an absent pattern component (defaults are evaluated in a scope of their own)
					{"array-default", "let [_, ?z: ", "] = [0]; z"}, {"tuple-default", "let (a?: z: ", ") = (); z"},
					{"param-default", `(\[_, ?z: `, `] z)([0])`},
					{"cond-arm", "cond 0 {1: 0, _: ", "}"}, {"arrow", "0 -> \\z ", ""}} {
					if wr.tag == "lambda2" && !w.Thorough {
						continue
					}
					t2 := *t
					t2.src = wr.pre + t.src + wr.post
					t2.class = t.class + "+" + wr.tag
					s.eval(n.route, n.m, &t2)
				}
			}
		}

		// value-level transitions: call every newly obtained safe function, open every new tuple
		work := got
		for len(work) > 0 {
			ob := work[0]
			work = work[1:]
			vk := fmt.Sprint(s.cfg.granted, "|", ob.info.id)
			if e.seenVals[vk] {
				continue
			}
			e.seenVals[vk] = true
			if ob.depth >= s.maxCall {
				continue
			}
			var next []*c18Term
			switch x := ob.v.(type) {
			case *rel.NativeFunction:
				if e.unsafeKind(x) != 0 || e.noCall[rel.VerifNativeFnSym(x)] {
					w.Count("unsafe_function_not_invoked", 1)
					continue
				}
				for _, a := range s.args {
					next = append(next, &c18Term{src: "(" + ob.src + ")(" + a + ")", class: "call", free: true})
				}
			case rel.Closure, rel.ExprClosure:
				for _, a := range s.args {
					next = append(next, &c18Term{src: "(" + ob.src + ")(" + a + ")", class: "call", free: true})
				}
			case rel.Tuple:
				if ob.path || !ob.info.hasFn {
					continue // members of library tuples are path terms already
				}
				for _, name := range c18SortedNames(x) {
					if c18Ident(name) {
						next = append(next, &c18Term{src: "(" + ob.src + ")." + name, class: "attr", free: true})
					}
				}
			}
			for _, t := range next {
				o, info := s.eval(n.route, n.m, t)
				if o.OK() && info.hasFn {
					work = append(work, c18Obtained{src: t.src, v: o.V, info: info, depth: ob.depth + 1})
				}
			}
		}

		// context switches
		if len(n.route) >= s.maxDepth || !s.cfg.deep {
			continue
		}
		for _, c := range c18Cons {
			route := append(append([]*c18Con{}, n.route...), c)
			m2, live := e.next(n.m, c)
			// is the construct available here at all? (source "0")
			o, _ := s.eval(route, m2, &c18Term{src: "0", class: "context-switch", free: true})
			if !o.OK() {
				w.Note("outcomes", "switch:"+c.name+"|unavailable")
				if live {
					w.Fail("confine", "construct|"+n.m.ctxClass()+"|"+c.name+"|unavailable-but-was-given",
						"cfg="+s.cfg.name+" route="+c18RouteName(route)+" :: "+c18WrapRoute(route, "0"), o.Class())
				}
				continue
			}
			w.Note("outcomes", "switch:"+c.name+"|available")
			queue = append(queue, &c18Node{route: route, m: m2})
		}
	}
}

// c18Setup builds the observers, the two libraries and the term list.
func c18Setup(w *core.W) *c18Env {
	// belt and braces: nothing can be found to execute, nothing can be dialled
	os.Setenv("PATH", "/c18-nonexistent")
	e := &c18Env{w: w, fs: c18util.NewRecFs(), tr: &c18util.RecTransport{},
		label: map[*rel.NativeFunction]string{}, symKind: map[string]uint8{}, nameKind: map[string]uint8{}, noCall: map[string]bool{},
		tupMemo: map[*rel.GenericTuple]*c18Info{}, natMemo: map[*rel.NativeFunction]*c18Info{},
		canon: map[string][2]string{}, seenVals: map[string]bool{}}
	e.tr.Install()
	e.cwd, _ = os.Getwd()
	e.fs.Put(e.cwd+"/go.mod", "module c18\n")
	e.fs.Put("d.bin", "0")
	e.fs.Put(e.cwd+"/d.bin", "0")
	ctx := context.Background()
	ctx = ctxfs.SourceFsOnto(ctx, e.fs)
	ctx = ctxfs.RuntimeFsOnto(ctx, e.fs)
	ctx = ctxrootcache.WithRootCache(ctx)
	ctx = buildinfo.WithPackageBuildData(ctx)
	e.ctx = ctx

	fv, _ := syntax.StdScope().Get("//")
	sv, _ := syntax.SafeStdScope().Get("//")
	e.full, _ = fv.(rel.Tuple)
	e.safe, _ = sv.(rel.Tuple)
	if e.full == nil || e.safe == nil {
		w.BrokenF("C18: library scopes are not tuples")
		return nil
	}
	e.tops = c18SortedNames(e.full)

	// label every native function of both instances; collect the path list from the full tree
	symNames := map[string]map[string]bool{} // symbol -> bare names of the full-library functions running it
	nameSyms := map[string]map[string]bool{} // bare name -> symbols
	var walk func(inst string, v rel.Value, segs []string, collect int)
	walk = func(inst string, v rel.Value, segs []string, collect int) {
		path := strings.Join(segs, ".")
		if len(segs) > 0 && len(segs) <= collect {
			e.paths = append(e.paths, &c18Term{src: "//" + path, segs: append([]string{}, segs...), inLib: true})
		}
		switch x := v.(type) {
		case *rel.NativeFunction:
			if _, ok := e.label[x]; !ok {
				e.label[x] = inst + ":" + path
				if inst == "full" {
					sym, name := rel.VerifNativeFnSym(x), c18Bare(x.Name())
					if symNames[sym] == nil {
						symNames[sym] = map[string]bool{}
					}
					if nameSyms[name] == nil {
						nameSyms[name] = map[string]bool{}
					}
					symNames[sym][name] = true
					nameSyms[name][sym] = true
				}
			}
		case rel.Tuple:
			if len(segs) >= 2 && segs[0] == "grammar" && segs[1] == "lang" && len(segs) > 2 {
				return // grammar ASTs are plain data
			}
			for _, name := range c18SortedNames(x) {
				if !c18Ident(name) && name != "@internal" {
					continue
				}
				if len(segs) == 0 && name == "std" {
					continue // second pass, so that labels prefer the short path
				}
				cd := collect
				if !c18Ident(name) {
					cd = 0
				}
				walk(inst, c18Must(x, name), append(segs, name), cd)
			}
		}
	}
	walk("full", e.full, nil, 4)
	walk("safe", e.safe, nil, 0)
	for _, inst := range []struct {
		n string
		t rel.Tuple
	}{{"full", e.full}, {"safe", e.safe}} {
		if std, ok := inst.t.Get("std"); ok {
			cd := 0
			if inst.n == "full" {
				cd = 3
			}
			walk(inst.n, std, []string{"std"}, cd)
		}
	}
	// a few references that exist nowhere
	e.paths = append(e.paths,
		&c18Term{src: "//zz_none", segs: []string{"zz_none"}},
		&c18Term{src: "//os.zz_none", segs: []string{"os", "zz_none"}},
		&c18Term{src: "//std.safe.os.file", segs: []string{"std", "safe", "os", "file"}},
		&c18Term{src: "//std.safe.os.exists", segs: []string{"std", "safe", "os", "exists"}},
		&c18Term{src: "//std.safe.deprecated.exec", segs: []string{"std", "safe", "deprecated", "exec"}},
		&c18Term{src: "//std.safe.eval.value", segs: []string{"std", "safe", "eval", "value"}},
	)

	// the unsafe set, by identity: the Go symbol of the body identifies a function when it is
	// a top-level Go function, or a closure that only the unsafe functions run (a closure
	// of a generic currying helper is shared with safe functions and identifies nothing);
	// the name identifies it as long as no other code runs under the same name
	found := 0
	anchorNames := map[string]bool{}
	for _, a := range c18Anchors {
		anchorNames[a.path[strings.LastIndexByte(a.path, '.')+1:]] = true
	}
	for _, a := range c18Anchors {
		v, ok := c18Lookup(e.full, strings.Split(a.path, "."))
		nf, isNF := v.(*rel.NativeFunction)
		if !ok || !isNF {
			w.Note("anchors_missing", a.path)
			continue
		}
		found++
		sym, name := rel.VerifNativeFnSym(nf), c18Bare(nf.Name())
		e.noCall[sym] = true
		identifies := true
		if strings.Contains(sym, ".func") || strings.HasSuffix(sym, "-fm") {
			for n := range symNames[sym] {
				if !anchorNames[n] {
					identifies = false
				}
			}
		}
		if identifies {
			e.symKind[sym] = a.kind
		}
		if len(nameSyms[name]) == 1 {
			e.nameKind[name] = a.kind
		} else {
			w.BrokenF("C18: the name %q of unsafe function //%s is also the name of a library function running other code; it cannot identify it", name, a.path)
		}
	}
	if found == 0 {
		w.BrokenF("C18: none of the unsafe functions was found in the full library")
		return nil
	}
	// term classes: a path is unsafe when the full library keeps an unsafe function at or below it
	seenSrc := map[string]bool{}
	var uniq []*c18Term
	for _, t := range e.paths {
		if seenSrc[t.src] {
			continue
		}
		seenSrc[t.src] = true
		v, ok := c18Lookup(e.full, t.segs)
		t.inLib = ok
		switch {
		case !ok:
			t.class = "nonexistent-path"
		case e.analyze(v, 0).kinds != 0:
			t.class = "unsafe-path"
		default:
			t.class = "safe-path"
		}
		uniq = append(uniq, t)
	}
	e.paths = uniq
	for _, t := range e.paths {
		if len(t.segs) == 1 {
			e.probes = append(e.probes, t)
		}
	}
	e.probes = append(e.probes,
		&c18Term{src: "x", name: "x", class: "name"},
		&c18Term{src: "y", name: "y", class: "name"},
		&c18Term{src: "zz_none", name: "zz_none", class: "name"},
	)
	return e
}

// fingerprint identifies the state a route leads to, without judging anything.
func (e *c18Env) fingerprint(fn rel.Set, route []*c18Con) string {
	var fp strings.Builder
	for _, t := range e.probes {
		o := e.run(fn, c18WrapRoute(route, t.src))
		var info *c18Info
		if o.OK() {
			info = e.analyze(o.V, 0)
		}
		fp.WriteString(t.src + "=" + c18OutcomeID(o, info) + ";")
	}
	return c18Hash(fp.String())
}

func c18Must(t rel.Tuple, name string) rel.Value {
	v, _ := t.Get(name)
	return v
}

func (e *c18Env) configs() []*c18Cfg {
	type libOpt struct {
		name string
		lib  rel.Tuple // nil = no stdlib key
		deep bool
	}
	type scopeOpt struct {
		name  string
		attrs []rel.Attr
	}
	libs := []libOpt{{"default", nil, true}, {"stdlib=()", rel.EmptyTuple, true}}
	for _, m := range e.tops {
		libs = append(libs, libOpt{"stdlib=(" + m + ": full." + m + ")", rel.NewTuple(rel.NewAttr(m, c18Must(e.full, m))), true})
	}
	quickDeep := map[string]bool{"eval": true, "os": true, "deprecated": true, "std": true, "seq": true}
	for _, m := range c18SortedNames(e.safe) {
		libs = append(libs, libOpt{"stdlib=safe-without-" + m, e.safe.Without(m), e.w.Thorough || quickDeep[m]})
	}
	upper, _ := c18Lookup(e.full, []string{"str", "upper"})
	file, _ := c18Lookup(e.full, []string{"os", "file"})
	scopes := []scopeOpt{
		{"", nil},
		{"scope=(x: 42)", []rel.Attr{rel.NewAttr("x", rel.NewNumber(42))}},
		{"scope=(x: //str.upper)", []rel.Attr{rel.NewAttr("x", upper)}},
		{"scope=(x: //os.file)", []rel.Attr{rel.NewAttr("x", file)}},
		{"scope=(x: (eval: //eval))", []rel.Attr{rel.NewAttr("x", rel.NewTuple(rel.NewAttr("eval", c18Must(e.full, "eval"))))}},
	}
	mk := obs.MustCompile(`//eval.evaluator(cfg).eval`)
	var out []*c18Cfg
	add := func(l libOpt, s scopeOpt) {
		var attrs []rel.Attr
		name := l.name
		if l.lib != nil {
			attrs = append(attrs, rel.NewAttr("stdlib", l.lib))
		}
		if s.attrs != nil {
			attrs = append(attrs, rel.NewAttr("scope", rel.NewTuple(s.attrs...)))
			name += " " + s.name
		}
		// a one-attribute tuple literal would do as well; build it the way source `(stdlib: …, scope: …)` does
		var b rel.TupleBuilder
		for _, a := range attrs {
			b.Put(a.Name, a.Value)
		}
		cfg := &c18Cfg{name: name, val: b.Finish(), deep: l.deep}
		m := &c18M{lib: l.lib, names: map[string]rel.Value{}, class: "root"}
		if l.lib == nil {
			m.lib = e.safe
		} else {
			cfg.granted |= e.analyze(l.lib, 0).kinds
		}
		for _, a := range s.attrs {
			m.names[a.Name] = a.Value
			cfg.granted |= e.analyze(a.Value, 0).kinds
		}
		cfg.model = m
		o := obs.Eval(mk, syntax.StdScope().With("cfg", cfg.val))
		fn, _ := o.V.(rel.Set)
		if !o.OK() || fn == nil {
			e.w.BrokenF("C18: cannot build the evaluator for %s: %v %s", name, o.Err, o.Panic)
			return
		}
		cfg.evalFn = fn
		out = append(out, cfg)
	}
	for _, l := range libs {
		add(l, scopes[0])
	}
	for _, l := range libs {
		for _, s := range scopes[1:] {
			if e.w.Thorough || l.name == "default" || l.name == "stdlib=()" || l.name == "stdlib=(eval: full.eval)" || l.name == "stdlib=(os: full.os)" {
				add(l, s)
			}
		}
	}
	// the other entry point: //eval.eval(src) itself
	if o := obs.Eval(obs.MustCompile(`//eval.eval`), syntax.StdScope()); o.OK() {
		fn, _ := o.V.(rel.Set)
		out = append(out, &c18Cfg{name: "//eval.eval", val: rel.EmptyTuple, evalFn: fn, deep: true,
			model: &c18M{lib: e.safe, names: map[string]rel.Value{}, class: "root"}})
		byName := map[string]*c18Con{}
		for _, c := range c18Cons {
			byName[c.name] = c
		}
		for _, r := range []struct {
			route []*c18Con
			owner string
		}{
			{nil, "default"},
			{[]*c18Con{byName["value"]}, "stdlib=()"},
			{[]*c18Con{byName["evaluator(stdlib:())"]}, "//eval.eval"},
			{[]*c18Con{byName["evaluator(stdlib:(eval))"]}, "default"},
			{[]*c18Con{byName["evaluator(scope:(y))"]}, "//eval.eval"},
		} {
			if fp := e.fingerprint(fn, r.route); e.canon[fp][1] == "" {
				e.canon[fp] = [2]string{c18RouteName(r.route), r.owner}
			}
		}
	} else {
		e.w.BrokenF("C18: //eval.eval is not available in the full library: %v %s", o.Err, o.Panic)
	}
	// the three configurations that expand shared states go to different workers
	if n := len(out); n > 3 && out[n-1].name == "//eval.eval" {
		last := out[n-1]
		copy(out[3:], out[2:n-1])
		out[2] = last
	}
	return out
}

func checkC18(w *core.W) {
	debug.SetGCPercent(400) // the libraries are a large, long-lived heap; the evaluations are short-lived garbage
	e := c18Setup(w)
	if e == nil {
		return
	}
	// the safe library itself contains no file-reading, network or command-execution function
	if w.Mine(0) {
		w.Case(func() string { return "safe-library ## walk of syntax.SafeStdScope()" }, func() {
			in := e.analyze(e.safe, 0)
			w.Eval(true)
			w.AddTransitions(1)
			for i, k := range c18KindNames {
				if in.kinds&k.bit != 0 {
					w.Fail("safe-library", "safe-library-contains|"+k.name, "//"+strings.TrimPrefix(in.where[i], "."), "the safe library holds "+in.where[i])
				}
			}
			w.Count("library_paths", int64(len(e.paths)))
			w.Count("native_functions_labelled", int64(len(e.label)))
		})
	}
	cfgs := e.configs()
	for k, cfg := range cfgs {
		if !w.Mine(k + 1) {
			continue
		}
		cfg := cfg
		w.Case(func() string { return "search|" + cfg.name + " ## capability search under " + cfg.name }, func() {
			s := &c18Search{e: e, cfg: cfg, maxDepth: 2, maxCall: 2, args: []string{`"0"`, `()`}}
			if w.Thorough {
				s.maxDepth, s.maxCall = 3, 3
				s.args = append(s.args, `0`)
			}
			w.Count("configurations", 1)
			t0 := time.Now()
			s.search()
			if os.Getenv("C18_TIMING") != "" {
				w.Count("ms:"+cfg.name, time.Since(t0).Milliseconds())
			}
		})
	}
}

var C18 = core.Check{
	ID: "C18", Level: "model_checking", Fn: checkC18, Watchdog: 10 * time.Minute,
	Rule: "explicit-state search per sandbox configuration (stdlib in {absent, (), each single member of the full library, safe library minus one member} x scope in {none, a number, a safe function, //os.file, a tuple holding //eval}; plus the //eval.eval entry point). " +
		"State = what every top-level `//name` and every scope name resolves to in an evaluation context; transitions = every `//` path of the full library tree, scope names, unknown references, URL import, closure/let wrappers, calls of every obtained safe function with \"0\"/()/0, attribute access on results, " +
		"and nine context switches (//eval.value, //eval.eval, four //eval.evaluator configurations, local/root/decoder import) nested to depth 2 (quick) / 3 (thorough), each executed on the real sandbox and compared with a model of the context (given library tuple, given names). " +
		"Non-trivial = confinement decides the outcome (the reference exists in the full library but was not given) or the result holds a function value that the reachability walk inspects.",
	Assume: []string{
		"unsafe = the native functions the full library keeps at //os.file, //net.http.get, //net.http.post, //deprecated.exec, identified by Go symbol of the body or by name; they are never invoked",
		"//os.exists, //os.tree, //os.get_env, //os.&stdin, //os.cwd are part of the project's safe split and are not counted as file reading",
		"file contents offered to imports are chosen by the environment (any h<hex>.arrai exists); module imports with three or more path segments (which run `go mod download`) are not generated",
		"functions are called with the arguments \"0\", () and 0 only; data arguments that would make a safe function misbehave are outside this property",
	},
}
