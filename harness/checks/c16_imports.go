package checks

import (
	"context"
	"fmt"
	"os"
	"path"
	"path/filepath"
	"sort"
	"strings"
	"time"

	"github.com/arr-ai/arrai/pkg/arraictx"
	"github.com/arr-ai/arrai/pkg/ctxfs"
	"github.com/arr-ai/arrai/pkg/ctxrootcache"
	"github.com/arr-ai/arrai/pkg/importcache"
	"github.com/arr-ai/arrai/rel"
	"github.com/arr-ai/arrai/syntax"

	"verif/harness/c16util"
	"verif/harness/core"
	"verif/harness/model"
	"verif/harness/obs"
)

// C16: local imports stay inside the module, are consistent, and import cycles fail fast.
//
// Three bounded-exhaustive parts, all on the real syntax.EvaluateExpr with a recording
// afero filesystem handed over through ctxfs:
//
//	A  every import path string of the stated alphabet, from every importer configuration
//	   (3 module layouts x 3 directory depths x 3 spellings of the script path), on a
//	   "universal decoy" filesystem in which every path is a readable file that identifies
//	   itself: the set of opened paths must lie below the module root (own directory when
//	   there is no module); plain POSIX spellings of a file below the base must read that file.
//	B  all ordered pairs of representative spellings inside ONE evaluation: each element
//	   must equal what the same import yields on its own (import cache consistency).
//	C  every import graph over 3 files (thorough: also 4 files with out-degree <= 2) in
//	   several placements/spellings: acyclic => the model value; a cycle reachable from the
//	   main script => an error, never a goroutine parked for ever.
var C16 = core.Check{
	ID:    "C16",
	Level: "exploration",
	Rule: "part A: one case per (importer configuration, import string); non-trivial iff the implementation got as far as opening a path. " +
		"part B: one case per ordered pair of representative spellings; non-trivial iff both imports yield values. " +
		"part C: one case per (import graph, placement, spelling mode, main spelling); non-trivial iff the main script has at least one import edge.",
	Assume: []string{
		"the filesystem is afero.MemMapFs behind a recording wrapper; relative names are resolved against the worker's real working directory (empty real directories created under .build/run/c16root), nothing real is read",
		"universal-decoy filesystem: any path not named go.mod is a regular file (content = its own path) unless it is an existing directory; so an attempted open anywhere succeeds",
		"allowed region: subtree of the nearest ancestor directory holding go.mod, else the script's own directory; Stat of <ancestor>/go.mod is allowed everywhere (module root search)",
		"path alphabet as listed in the evidence (prefixes x segments); tab/newline are represented by the space character (same trim set); no backslashes, no '}'",
		"cycle verdict is structural, not timed: the compiling goroutine is parked in sync.Cond.Wait called from importCache.getOrAdd, the cache is private to the evaluation and arr.ai's compile path starts no goroutine, so no one can Broadcast; stack dumps are polled every 2..200 ms only to decide when to look (wall-clock assumption: none for the verdict; a goroutine that neither finishes nor parks is left to the 60 s engine watchdog)",
		"part C fuse: a file opened more than 64 times within one evaluation of a <=4-file graph is declared unbounded re-import (an acyclic graph needs at most 8 opens of one file even without a cache); the recording filesystem then fails further opens so the evaluation unwinds",
		"single-goroutine evaluations only; concurrent importers of one cache are not explored",
	},
	Fn:       checkC16,
	Rounds:   func(string) int { return 2 },
	Watchdog: 60 * time.Second,
}

// ---------- importer configurations ----------

type c16cfg struct {
	layout int // 0: go.mod in t; 1: go.mod in t/a; 2: no go.mod
	depth  int // script in t, t/a, t/a/b
	spell  int // 0: absolute script path; 1: relative to base dir (cwd=base); 2: bare file name (cwd=script dir)
}

var c16dirs = []string{"w/t.v2", "w/t.v2/a", "w/t.v2/a/b"}
var c16layoutNames = []string{"mod@t", "mod@t/a", "nomod"}
var c16spellNames = []string{"abs", "rel", "bare"}

type c16env struct {
	base string // real, symlink-free directory; the virtual tree lives below it
	cwd  string
}

func (e *c16env) chdir(w *core.W, dir string) bool {
	if e.cwd == dir {
		return true
	}
	if err := os.Chdir(dir); err != nil {
		w.BrokenF("C16: chdir %s: %v", dir, err)
		return false
	}
	e.cwd = dir
	return true
}

func c16setup(w *core.W) *c16env {
	b := filepath.Join(core.VerifDir, ".build", "run", "c16root")
	if err := os.MkdirAll(filepath.Join(b, "w/t.v2/a/b"), 0o755); err != nil {
		w.BrokenF("C16: cannot create %s: %v", b, err)
		return nil
	}
	rb, err := filepath.EvalSymlinks(b)
	if err != nil {
		w.BrokenF("C16: %v", err)
		return nil
	}
	return &c16env{base: rb}
}

func (c c16cfg) String() string {
	return fmt.Sprintf("%s,depth%d,%s", c16layoutNames[c.layout], c.depth, c16spellNames[c.spell])
}

func (c c16cfg) scriptDir(e *c16env) string { return e.base + "/" + c16dirs[c.depth] }

// root returns the allowed region and whether it is a module root.
func (c c16cfg) root(e *c16env) (string, bool) {
	switch {
	case c.layout == 0:
		return e.base + "/w/t.v2", true
	case c.layout == 1 && c.depth >= 1:
		return e.base + "/w/t.v2/a", true
	}
	return c.scriptDir(e), false
}

func (c c16cfg) cwdAndFile(e *c16env) (cwd, file string) {
	switch c.spell {
	case 0:
		return e.base, c.scriptDir(e) + "/main.arrai"
	case 1:
		return e.base, c16dirs[c.depth] + "/main.arrai"
	}
	return c.scriptDir(e), "main.arrai"
}

func (c c16cfg) newFs(e *c16env, cwd string) *c16util.RecFs {
	fs := c16util.NewRecFs(cwd, true)
	for _, d := range c16dirs {
		fs.MkDirs(e.base + "/" + d)
	}
	switch c.layout {
	case 0:
		fs.Plant(e.base+"/w/t.v2/go.mod", "module t\n")
	case 1:
		fs.Plant(e.base+"/w/t.v2/a/go.mod", "module a\n")
	}
	return fs
}

// ---------- import strings ----------

var c16prefixes = []string{"./", "/", ".//", "./ ", " ./", " /"}
var c16segsQ = []string{".", "..", "...", "....", "a", "b", "", " ", " ..", ".. ", "..a", "a.."}
var c16segsT4 = []string{".", "..", "...", "a", "b", "", " ", " ..", ".. ", "..a"} // alphabet of the 4-segment block (thorough)

type c16imp struct {
	x    string // text between the braces
	dot  bool
	segs []string
	rel  string // PKGPATH part (starts with "/")
}

func c16mkImp(prefix string, segs []string) c16imp {
	x := prefix + strings.Join(segs, "/")
	t := strings.TrimLeft(x, " ")
	dot := strings.HasPrefix(t, ".")
	if dot {
		t = t[1:]
	}
	return c16imp{x: x, dot: dot, segs: append([]string(nil), segs...), rel: t}
}

// c16block is one enumeration block of part A: every string prefix + seg1/.../segN with
// minSegs <= N <= maxSegs, from every configuration whose spelling is listed.
type c16block struct {
	prefixes []string
	segs     []string
	minSegs  int
	maxSegs  int
	spells   []int
}

func (b c16block) imps() []c16imp {
	var out []c16imp
	var rec func(segs []string)
	rec = func(segs []string) {
		if len(segs) >= b.minSegs {
			for _, p := range b.prefixes {
				out = append(out, c16mkImp(p, segs))
			}
		}
		if len(segs) == b.maxSegs {
			return
		}
		for _, s := range b.segs {
			rec(append(segs, s))
		}
	}
	rec(nil)
	return out
}

func (b c16block) describe() map[string]any {
	sp := []string{}
	for _, s := range b.spells {
		sp = append(sp, c16spellNames[s])
	}
	n := 0
	pow := 1
	for l := 0; l <= b.maxSegs; l++ {
		if l >= b.minSegs {
			n += pow
		}
		pow *= len(b.segs)
	}
	return map[string]any{"prefixes": b.prefixes, "segments": b.segs, "min_segments": b.minSegs, "max_segments": b.maxSegs,
		"script_spellings": sp, "strings": n * len(b.prefixes), "configurations": 9 * len(b.spells)}
}

func c16blocks(thorough bool) []c16block {
	if !thorough {
		return []c16block{{c16prefixes[:4], c16segsQ, 0, 3, []int{0, 2}}}
	}
	return []c16block{
		{c16prefixes, c16segsQ, 0, 3, []int{0, 1, 2}},
		{c16prefixes[:4], c16segsT4, 4, 4, []int{0, 2}},
	}
}

// flags classifies the spelling for signatures: whether the PKGPATH part contains
// whitespace, and whether its POSIX reading (whitespace segments are ordinary names) leaves
// the base directory -- the class the `..` rejection exists for.
func (i c16imp) flags() string {
	f := "plain"
	if strings.ContainsAny(i.rel, " \t\n") {
		f = "ws"
	}
	if i.dot && strings.HasPrefix(path.Clean("."+i.rel), "..") {
		f += "+posix-escaping"
	}
	return f
}

// plain: POSIX semantics of the spelling are beyond dispute (no whitespace, only ., .., a, b, empty).
func (i c16imp) plain() bool {
	if strings.ContainsAny(i.x, " \t\n") {
		return false
	}
	for _, s := range i.segs {
		switch s {
		case ".", "..", "a", "b", "":
		default:
			return false
		}
	}
	return true
}

func (i c16imp) kind() string {
	if i.dot {
		return "dot"
	}
	return "root"
}

// ---------- running ----------

type c16out struct {
	o     obs.Outcome
	msg   string // guarded first line of the error
	acc   []c16util.Access
	opens []c16util.Access
	lazy  bool // compiled only: a non-.arrai file was read (implicit decoder not evaluated)
}

func c16ctx(fs *c16util.RecFs) context.Context {
	ctx := ctxfs.SourceFsOnto(context.Background(), fs)
	return ctxrootcache.WithRootCache(ctx)
}

func c16errMsg(err error) (s string) {
	defer func() {
		if r := recover(); r != nil {
			s = fmt.Sprintf("<%T.Error() panicked>", err)
		}
	}()
	s = err.Error()
	if i := strings.IndexByte(s, '\n'); i >= 0 {
		s = s[:i]
	}
	return s
}

// c16eval mirrors syntax.EvalWithScope (fresh import cache, Compile, Eval) but stops after
// Compile when a file without the .arrai extension was read: such imports compile to a lazy
// call of the implicit decoder, whose evaluation adds nothing to this property (all file
// access happens during Compile) and costs seconds of one-off stdlib loading per process.
func c16eval(fs *c16util.RecFs, file, src string) (out c16out) {
	var v rel.Value
	var err error
	ctx := importcache.WithNewImportCache(c16ctx(fs))
	psig := core.Try(func() {
		var expr rel.Expr
		if expr, err = syntax.Compile(ctx, file, src); err != nil {
			return
		}
		for _, a := range fs.Snapshot() {
			if a.Op == "open" && filepath.Ext(a.Path) != ".arrai" {
				out.lazy = true
				return
			}
		}
		v, err = expr.Eval(arraictx.ContextWithIsCompiling(ctx, false), rel.Scope{})
	})
	out.o = obs.Outcome{V: v, Err: err, Panic: psig}
	if out.o.Err != nil {
		out.msg = c16errMsg(out.o.Err)
	}
	out.acc = fs.Snapshot()
	for _, a := range out.acc {
		if a.Op == "open" {
			out.opens = append(out.opens, a)
		}
	}
	return out
}

// escShape classifies an access outside root r: outside the virtual tree altogether, an
// ancestor directory of r itself, or something else below such an ancestor.
func c16escShape(p, r, base string) string {
	if !c16util.Within(p, base) {
		return "abs"
	}
	for anc := path.Dir(r); ; anc = path.Dir(anc) {
		if p == anc {
			return "up-self"
		}
		if c16util.Within(p, anc) {
			return "up-below"
		}
		if anc == "/" {
			return "abs"
		}
	}
}

func c16errClass(msg string) string {
	switch {
	case strings.Contains(msg, "pointing outside"):
		return "rejected-outside"
	case strings.Contains(msg, "module root not found"):
		return "no-module"
	case strings.Contains(msg, "file does not exist") || strings.Contains(msg, "no such file"):
		return "not-found"
	}
	return "other:" + core.NormMsg(msg)
}

func c16decoyModel(p string) *model.V {
	if filepath.Ext(p) == ".arrai" {
		return model.Str(p, 0)
	}
	return model.Bytes(0, []byte(p)...)
}

func (e *c16env) short(p string) string { return strings.ReplaceAll(p, e.base, "$B") }

// ---------- the check ----------

func checkC16(w *core.W) {
	e := c16setup(w)
	if e == nil {
		return
	}
	repCap := 14
	if w.Thorough {
		repCap = 24
	}
	var cfgs []c16cfg
	for l := 0; l < 3; l++ {
		for d := 0; d < 3; d++ {
			for s := 0; s < 3; s++ {
				cfgs = append(cfgs, c16cfg{l, d, s})
			}
		}
	}
	if w.Round == 0 {
		blocks := c16blocks(w.Thorough)
		var bd []any
		for _, b := range blocks {
			bd = append(bd, b.describe())
		}
		w.SetExtra("part_A_blocks", bd)
		w.SetExtra("layouts", c16layoutNames)
		parts := os.Getenv("VERIF_C16_PARTS") // development knob: e.g. "A", "C"; empty = all
		if parts == "" || strings.Contains(parts, "A") {
			c16partA(w, e, cfgs, blocks)
		}
		if parts == "" || strings.Contains(parts, "C") {
			c16partC(w, e)
		}
		return
	}
	c16partB(w, e, cfgs, repCap)
}

// part A: single imports.
func c16partA(w *core.W, e *c16env, cfgs []c16cfg, blocks []c16block) {
	type repKey struct {
		cfg int
		raw string
	}
	reps := map[repKey]string{}
	k := 0
	for _, blk := range blocks {
		imps := blk.imps()
		for ci, c := range cfgs {
			inBlock := false
			for _, sp := range blk.spells {
				inBlock = inBlock || sp == c.spell
			}
			if !inBlock {
				continue
			}
			cwd, file := c.cwdAndFile(e)
			root, hasMod := c.root(e)
			sdir := c.scriptDir(e)
			srcdir := "path"
			if c.spell == 2 {
				srcdir = "dot"
			}
			for _, imp := range imps {
				k++
				if !w.Mine(k) {
					continue
				}
				imp := imp
				w.Case(func() string {
					return fmt.Sprintf("import|%s ## //{%s} from %s (%s)", imp.kind(), imp.x, file, c)
				}, func() {
					if !e.chdir(w, cwd) {
						return
					}
					fs := c.newFs(e, cwd)
					out := c16eval(fs, file, "//{"+imp.x+"}")
					wit := fmt.Sprintf("//{%s} in %s, cwd %s, %s", imp.x, e.short(file), e.short(cwd), c16layoutNames[c.layout])
					w.Eval(len(out.opens) > 0)
					if out.o.Panic != "" {
						w.Fail("panic", out.o.Panic, wit, "")
						w.Note("outcome", imp.kind()+"|panic")
						return
					}
					// 1. confinement
					escaped := false
					for _, a := range out.acc {
						if c16util.Within(a.Path, root) {
							continue
						}
						if a.Op == "stat" && path.Base(a.Path) == "go.mod" && c16util.Within(sdir, path.Dir(a.Path)) {
							continue // module root search looks at <ancestor>/go.mod
						}
						escaped = true
						shape := c16escShape(a.Path, root, e.base)
						what := "file"
						if fi, err := fs.Fs.Stat(a.Path); err == nil && fi.IsDir() {
							what = "directory"
						}
						kind := "root"
						if imp.dot {
							kind = "dot|srcdir=" + srcdir
						}
						w.Fail("escape", fmt.Sprintf("confine|%s|%s|%s-%s", kind, imp.flags(), a.Op, shape), wit,
							fmt.Sprintf("%s %q = %s %s; allowed region %s", a.Op, e.short(a.Raw), what, e.short(a.Path), e.short(root)))
					}
					// 2. the value is the content of the file that was opened
					var got *model.V
					if out.o.Err == nil && !out.lazy {
						g, derr := obs.Denote(out.o.V)
						if derr != nil {
							w.Fail("wrong", "value|"+imp.kind()+"|undenotable", wit, derr.Error())
						} else {
							got = g
						}
					}
					single := ""
					if len(out.opens) == 1 {
						single = out.opens[0].Path
						if fi, err := fs.Fs.Stat(single); err != nil || fi.IsDir() {
							single = ""
						}
					}
					if got != nil && single != "" && !model.Equal(got, c16decoyModel(single)) {
						w.Fail("wrong", "value|"+imp.kind()+"|not-the-content-of-the-opened-file", wit,
							"opened "+e.short(single)+" got "+e.short(model.Src(got)))
					}
					if got != nil && len(out.opens) > 1 {
						w.Fail("wrong", "value|"+imp.kind()+"|several-files-opened", wit, fmt.Sprint(len(out.opens)))
					}
					// 3. plain POSIX spellings of a file strictly below the base read exactly that file
					if imp.plain() && got != nil {
						base := sdir
						var t string
						if imp.dot {
							t = path.Clean(base + imp.rel)
						} else {
							base = root
							t = path.Clean(base + path.Clean("/"+imp.rel))
						}
						if t != base && c16util.Within(t, base) {
							want := t
							if filepath.Ext(want) == "" {
								want += ".arrai"
							}
							if single != want {
								w.Fail("wrong", "resolve|"+imp.kind()+"|"+imp.flags()+"|wrong-file", wit, "opened "+e.short(single)+" want "+e.short(want))
							}
						}
					}
					// 4. root imports need a module
					if !imp.dot && !hasMod && out.o.Err == nil {
						w.Fail("wrong", "resolve|root|no-module|value-instead-of-error", wit, "")
					}
					// bookkeeping
					oc := imp.kind() + "|"
					switch {
					case out.o.Err != nil:
						oc += "error|" + c16errClass(out.msg)
					case escaped && out.lazy:
						oc += "compiled|ESCAPED-non-arrai"
					case out.lazy:
						oc += "compiled|inside-non-arrai"
					case escaped:
						oc += "value|ESCAPED"
					default:
						oc += "value|inside"
					}
					w.Note("outcome", oc)
					w.Count("A."+strings.SplitN(oc, "|", 3)[1], 1)
					if len(out.opens) > 0 {
						w.Note("opened", fmt.Sprintf("%s|%s", c, e.short(out.opens[0].Path)))
					}
					if got != nil && single != "" {
						key := repKey{ci, out.opens[0].Raw}
						if old, ok := reps[key]; !ok || len(imp.x) < len(old) || (len(imp.x) == len(old) && imp.x < old) {
							reps[key] = imp.x
						}
					}
					if k%9973 == 0 {
						w.Sample(map[string]any{"case": wit, "outcome": oc, "opened": len(out.opens)})
					}
				})
			}
		}
	}
	keys := make([]repKey, 0, len(reps))
	for rk := range reps {
		keys = append(keys, rk)
	}
	sort.Slice(keys, func(i, j int) bool {
		if keys[i].cfg != keys[j].cfg {
			return keys[i].cfg < keys[j].cfg
		}
		return keys[i].raw < keys[j].raw
	})
	for _, rk := range keys {
		w.Note("rep", fmt.Sprintf("%02d\t%s\t%s", rk.cfg, e.short(rk.raw), reps[rk]))
	}
}

// part B: ordered pairs of representative spellings inside one evaluation.
func c16partB(w *core.W, e *c16env, cfgs []c16cfg, repCap int) {
	// representatives: per configuration, per raw opened name the shortest spelling (merged over workers)
	type rep struct{ raw, x string }
	best := map[int]map[string]string{}
	for _, s := range w.Prev["rep"] {
		f := strings.SplitN(s, "\t", 3)
		if len(f) != 3 {
			w.BrokenF("C16: bad rep entry %q", s)
			return
		}
		var ci int
		fmt.Sscanf(f[0], "%d", &ci)
		m := best[ci]
		if m == nil {
			m = map[string]string{}
			best[ci] = m
		}
		if old, ok := m[f[1]]; !ok || len(f[2]) < len(old) || (len(f[2]) == len(old) && f[2] < old) {
			m[f[1]] = f[2]
		}
	}
	k := 0
	for ci, c := range cfgs {
		var rs []rep
		for raw, x := range best[ci] {
			rs = append(rs, rep{raw, x})
		}
		sort.Slice(rs, func(i, j int) bool {
			if len(rs[i].x) != len(rs[j].x) {
				return len(rs[i].x) < len(rs[j].x)
			}
			if rs[i].x != rs[j].x {
				return rs[i].x < rs[j].x
			}
			return rs[i].raw < rs[j].raw
		})
		// keep the first spelling per distinct x, then spread over the list to keep variety
		var xs []string
		seen := map[string]bool{}
		for _, r := range rs {
			if !seen[r.x] {
				seen[r.x] = true
				xs = append(xs, r.x)
			}
		}
		if len(xs) > repCap {
			pick := make([]string, 0, repCap)
			for i := 0; i < repCap; i++ {
				pick = append(pick, xs[i*len(xs)/repCap])
			}
			xs = pick
		}
		w.Count("B.representatives", int64(len(xs)))
		cwd, file := c.cwdAndFile(e)
		root, _ := c.root(e)
		type soloRes struct {
			v      *model.V
			opened string
		}
		solo := map[string]soloRes{}
		for _, x1 := range xs {
			for _, x2 := range xs {
				k++
				if !w.Mine(k) {
					continue
				}
				x1, x2 := x1, x2
				w.Case(func() string {
					return fmt.Sprintf("pair ## [//{%s}, //{%s}] from %s (%s)", x1, x2, file, c)
				}, func() {
					if !e.chdir(w, cwd) {
						return
					}
					wit := fmt.Sprintf("[//{%s}, //{%s}] in %s, cwd %s, %s", x1, x2, e.short(file), e.short(cwd), c16layoutNames[c.layout])
					var want [2]soloRes
					for i, x := range []string{x1, x2} {
						if v, ok := solo[x]; ok {
							want[i] = v
							continue
						}
						o := c16eval(c.newFs(e, cwd), file, "//{"+x+"}")
						var r soloRes
						if o.o.OK() && len(o.opens) == 1 {
							r.v, _ = obs.Denote(o.o.V)
							r.opened = o.opens[0].Path
						}
						solo[x] = r
						want[i] = r
					}
					if want[0].v == nil || want[1].v == nil {
						w.Eval(false)
						w.BrokenF("C16: representative %q / %q does not yield a value on its own", x1, x2)
						return
					}
					if a, b := want[0].opened, want[1].opened; a != b && (c16util.Within(a, b) || c16util.Within(b, a)) {
						// one decoy would have to be a file and a directory at once: the
						// universal-decoy filesystem cannot host both imports together
						w.Eval(false)
						w.Count("B.skipped-file-vs-directory", 1)
						return
					}
					fs := c.newFs(e, cwd)
					out := c16eval(fs, file, "[//{"+x1+"}, //{"+x2+"}]")
					w.Eval(true)
					if out.o.Panic != "" {
						w.Fail("panic", out.o.Panic, wit, "")
						return
					}
					if out.o.Err != nil {
						w.Fail("wrong", "consistency|pair|error-though-each-import-works-alone", wit, out.msg)
						return
					}
					got, derr := obs.Denote(out.o.V)
					if derr != nil {
						w.Fail("wrong", "consistency|pair|undenotable", wit, derr.Error())
						return
					}
					same := "different-files"
					if want[0].opened == want[1].opened {
						same = "same-file"
					}
					wantV := model.Arr(0, want[0].v, want[1].v)
					if !model.Equal(got, wantV) {
						w.Fail("wrong", "consistency|pair|"+same+"|differs-from-solo", wit,
							"got "+e.short(model.Src(got))+" want "+e.short(model.Src(wantV)))
					}
					for _, a := range out.opens {
						if !c16util.Within(a.Path, root) && a.Path != want[0].opened && a.Path != want[1].opened {
							w.Fail("escape", "confine|pair|opens-a-path-neither-import-opens-alone", wit, e.short(a.Path))
						}
					}
					w.Note("outcome", "pair|value|"+same)
					w.Count("B."+same, 1)
				})
			}
		}
	}
}

// ---------- part C: import graphs ----------

type c16graph struct {
	n     int
	edges [][]int // edges[i] sorted targets
}

// cycleShape: "" if no cycle is reachable from node 0, else a label of the first cycle a
// depth-first walk in import order meets.
func (g c16graph) cycleShape() string {
	state := make([]int, g.n) // 0 new, 1 on path, 2 done
	var pathNodes []int
	var visit func(i int) string
	visit = func(i int) string {
		state[i] = 1
		pathNodes = append(pathNodes, i)
		for _, j := range g.edges[i] {
			switch state[j] {
			case 1:
				l := 0
				for p := len(pathNodes) - 1; p >= 0; p-- {
					l++
					if pathNodes[p] == j {
						break
					}
				}
				via := "below-main"
				if j == 0 {
					via = "via-main"
				}
				return fmt.Sprintf("len%d|%s", l, via)
			case 0:
				if s := visit(j); s != "" {
					return s
				}
			}
		}
		state[i] = 2
		pathNodes = pathNodes[:len(pathNodes)-1]
		return ""
	}
	return visit(0)
}

func (g c16graph) value(i int) *model.V {
	items := make([]*model.V, len(g.edges[i]))
	for k, j := range g.edges[i] {
		items[k] = g.value(j)
	}
	return model.Tup("id", model.Num(float64(i)), "d", model.Arr(0, items...))
}

func (g c16graph) String() string {
	var parts []string
	for i, es := range g.edges {
		for _, j := range es {
			parts = append(parts, fmt.Sprintf("f%d->f%d", i, j))
		}
	}
	if len(parts) == 0 {
		return "(no edges)"
	}
	return strings.Join(parts, " ")
}

func c16graphs(n, maxOut int) []c16graph {
	// per-node target subsets
	var subsets [][]int
	for m := 0; m < 1<<n; m++ {
		var s []int
		for j := 0; j < n; j++ {
			if m>>j&1 == 1 {
				s = append(s, j)
			}
		}
		if len(s) <= maxOut {
			subsets = append(subsets, s)
		}
	}
	var out []c16graph
	idx := make([]int, n)
	for {
		g := c16graph{n: n, edges: make([][]int, n)}
		for i := range idx {
			g.edges[i] = subsets[idx[i]]
		}
		out = append(out, g)
		i := 0
		for ; i < n; i++ {
			idx[i]++
			if idx[i] < len(subsets) {
				break
			}
			idx[i] = 0
		}
		if i == n {
			return out
		}
	}
}

// c16maxOpens is the fuse of part C: with at most 4 files, even a cache-less compile of an
// acyclic graph opens one file at most 2^3 times; a file opened more often than this in
// one evaluation is unbounded re-import recursion.
const c16maxOpens = 64

var c16placements = map[string][]string{
	"flat":   {"", "", "", ""},
	"nested": {"", "a/", "a/b/", "b/"},
}

func c16partC(w *core.W, e *c16env) {
	type variant struct {
		place    string
		rootOnly bool
		bareMain bool
	}
	var variants []variant
	for _, p := range []string{"flat", "nested"} {
		for _, ro := range []bool{false, true} {
			for _, bm := range []bool{false, true} {
				variants = append(variants, variant{p, ro, bm})
			}
		}
	}
	type job struct {
		g c16graph
		v variant
	}
	// Every cyclic case leaves one goroutine parked for ever in the worker (that IS the
	// defect), and each of them keeps a deep stack alive, so cyclic graphs get fewer
	// variants: quick 1 of 8 (rotating with the graph number), thorough 3 of 8; acyclic
	// graphs get all 8.
	cycVariants := 1
	if w.Thorough {
		cycVariants = 3
	}
	var jobs []job
	for gi, g := range c16graphs(3, 3) {
		if g.cycleShape() == "" {
			for _, v := range variants {
				jobs = append(jobs, job{g, v})
			}
			continue
		}
		for r := 0; r < cycVariants; r++ {
			jobs = append(jobs, job{g, variants[(gi+3*r)%len(variants)]})
		}
	}
	if w.Thorough {
		// 4 files: all graphs with out-degree <= 2 that are acyclic from the main script,
		// and all functional graphs (out-degree <= 1), cyclic or not
		for gi, g := range c16graphs(4, 2) {
			maxOut := 0
			for _, es := range g.edges {
				if len(es) > maxOut {
					maxOut = len(es)
				}
			}
			if g.cycleShape() == "" || maxOut <= 1 {
				jobs = append(jobs, job{g, variants[gi%len(variants)]})
			}
		}
	}
	t := e.base + "/w/t.v2"
	for k, jb := range jobs {
		if !w.Mine(k) {
			continue
		}
		g, v := jb.g, jb.v
		shape := g.cycleShape()
		desc := fmt.Sprintf("graph{%s} %s rootOnly=%v bareMain=%v", g, v.place, v.rootOnly, v.bareMain)
		w.Case(func() string {
			if shape != "" {
				return "import-cycle|" + shape + " ## " + desc
			}
			return "import-graph|acyclic ## " + desc
		}, func() {
			cwd := e.base
			if v.bareMain {
				cwd = t
			}
			if !e.chdir(w, cwd) {
				return
			}
			fs := c16util.NewRecFs(cwd, false)
			fs.MaxOpens = c16maxOpens
			fs.Plant(t+"/go.mod", "module t\n")
			dirs := c16placements[v.place]
			content := make([]string, g.n)
			for i := 0; i < g.n; i++ {
				var imps []string
				for _, j := range g.edges[i] {
					if !v.rootOnly && strings.HasPrefix(dirs[j], dirs[i]) {
						imps = append(imps, fmt.Sprintf("//{./%sf%d}", strings.TrimPrefix(dirs[j], dirs[i]), j))
					} else {
						imps = append(imps, fmt.Sprintf("//{/%sf%d}", dirs[j], j))
					}
				}
				content[i] = fmt.Sprintf("(id: %d, d: [%s])", i, strings.Join(imps, ", "))
				fs.Plant(fmt.Sprintf("%s/%sf%d.arrai", t, dirs[i], i), content[i])
			}
			mainPath := t + "/f0.arrai"
			if v.bareMain {
				mainPath = "f0.arrai"
			}
			var val rel.Value
			var err error
			res := c16util.RunDetect(func() { val, err = syntax.EvaluateExpr(c16ctx(fs), mainPath, content[0]) })
			w.Eval(len(g.edges[0]) > 0)
			w.Count("C.polls", int64(res.Polls))
			if res.Harness != "" {
				w.BrokenF("C16: harness panic in graph case %s: %s", desc, res.Harness)
				return
			}
			for _, a := range fs.Snapshot() {
				if !c16util.Within(a.Path, t) && !(a.Op == "stat" && path.Base(a.Path) == "go.mod") {
					w.Fail("escape", "confine|graph|"+a.Op+"-outside-module", desc, e.short(a.Path))
				}
			}
			cyc := "acyclic"
			if shape != "" {
				cyc = "cycle"
			}
			if fs.Runaway != "" {
				w.Note("outcome", "graph|"+cyc+"|runaway")
				if shape != "" {
					w.Fail("hang", "import-cycle|"+shape+"|unbounded-reimport", desc, fmt.Sprintf("%s opened more than %d times in one evaluation", e.short(fs.Runaway), c16maxOpens))
				} else {
					w.Fail("hang", "import-graph|acyclic|unbounded-reimport", desc, fmt.Sprintf("%s opened more than %d times in one evaluation", e.short(fs.Runaway), c16maxOpens))
				}
				return
			}
			switch {
			case res.Blocked != "":
				w.Note("outcome", "graph|"+cyc+"|deadlock")
				w.Count("C.deadlock", 1)
				if shape != "" {
					w.Fail("hang", "import-cycle|"+shape+"|deadlock", desc, res.Blocked)
				} else {
					w.Fail("hang", "import-graph|acyclic|deadlock", desc, res.Blocked)
				}
			case res.PanicSig != "":
				w.Note("outcome", "graph|"+cyc+"|panic")
				w.Fail("panic", res.PanicSig, desc, "")
			case err != nil:
				w.Note("outcome", "graph|"+cyc+"|error")
				w.Count("C.error", 1)
				if shape == "" {
					w.Fail("wrong", "import-graph|acyclic|error-instead-of-value", desc, c16errMsg(err))
				}
			default:
				w.Note("outcome", "graph|"+cyc+"|value")
				w.Count("C.value", 1)
				if shape != "" {
					w.Fail("wrong", "import-cycle|"+shape+"|value-instead-of-error", desc, "")
					return
				}
				got, derr := obs.Denote(val)
				if derr != nil {
					w.Fail("wrong", "import-graph|acyclic|undenotable", desc, derr.Error())
					return
				}
				if want := g.value(0); !model.Equal(got, want) {
					w.Fail("wrong", "import-graph|acyclic|wrong-value", desc, "got "+model.Src(got)+" want "+model.Src(want))
				}
			}
		})
	}
}
