package checks

import (
	"sort"
	"strings"

	"github.com/arr-ai/arrai/rel"

	"verif/harness/core"
	"verif/harness/model"
	"verif/harness/obs"
	"verif/harness/rsx"
)

// C06: < is a strict total order consistent with =, and sorting follows it.
//
// Values: every state of the representation space (numbers, tuples incl. sugar tuples and
// @neg wrappers, every set representation, nested). Pairs: exactly one of a<b, a=b, b<a
// (equality = equality of denotations); <=, >, >= are the derived relations. Triples over
// one representative per (shape class, denotation size) for transitivity. Sorting: every
// subset of <=3 members of a mixed-kind value list in every insertion order.

func c06Extra(sp *rsx.Space) {
	for _, s := range []string{"-1", "0.5", "-0", "1e21", "-(a:1)", "-(@:0,@item:1)", "-\"a\"", "-[1]", "-{1}", "-{}", "-(-1)", "(a:-1)",
		"(a:{})", "(a:\"a\")", "(a:[1])", "(a:(b:1))", "(a:1,b:2)", "(a:2,b:1)", "(b:0)", "{{}}", "{{1}}", "{[1]}", "{\"a\"}", "{(a:{})}", "[[1]]", "[\"a\"]", "[1,[2]]",
		"\"A\"", "\"aa\"", "\"ab\"", "\"b\"", "2\\\"a\"", "1\\[2]", "1\\<<2>>", "[2,1]", "[1,2,3]", "<<1,2,3>>", "{1,2}", "{2,3}", "{1,2,3}", "{0,\"a\"}", "{0,[1]}", "{0,(a:1)}"} {
		if o := obs.Run(s); o.OK() {
			sp.Add(o.V, s, 0, "", "literal")
		}
	}
}

func checkC06(w *core.W) {
	sp := rsx.New(w, 2)
	sp.BuildGen0()
	c02Extra(sp)
	c06Extra(sp)
	ex := rsx.NewExpander(sp)
	if w.Round == 0 {
		ex.Discover(1, 0, nil)
		return
	}
	ex.OnePerClass = true // generation 1: one state per (shape class, producing operator) in both tiers
	ex.LoadRecipes(w.Prev["newstates"])
	states := sp.States
	if w.Shard == 0 {
		w.AddStates(len(states))
		w.SetExtra("space", sp.Describe())
	}
	lt := obs.MustCompile("a < b")
	le := obs.MustCompile("a <= b")
	gt := obs.MustCompile("a > b")
	ge := obs.MustCompile("a >= b")

	less := func(a, b rel.Value) (r bool, p string) {
		p = core.Try(func() { r = a.Less(b) })
		return
	}
	src := func(e rel.Expr, a, b rel.Value) (bool, string) {
		o := obs.Eval(e, obs.Scope("a", a, "b", b))
		switch {
		case o.Panic != "":
			return false, o.Panic
		case o.Err != nil:
			return false, "error"
		}
		return o.V.IsTrue(), ""
	}
	// ---- pairs
	for i, a := range states {
		if !w.Mine(i) {
			continue
		}
		a := a
		w.Case(func() string { return "order-pairs|" + a.Class + " ## all pairs with left operand (" + a.Prog + ")" }, func() {
			for j, b := range states {
				if j < i {
					continue // unordered pairs once: both directions are evaluated below
				}
				same := model.Equal(a.M, b.M)
				taint := model.Taint(a.M, b.M)
				wit := func() string { return "a = (" + a.Prog + "), b = (" + b.Prog + ")" }
				fail := func(class, kind, detail string) {
					ka, kb := baseKind(a.Class), baseKind(b.Class)
					if ka > kb {
						ka, kb = kb, ka
					}
					sig := "order|" + ka + "|" + kb + "|" + kind
					if taint != "" {
						sig = "taint:" + taint + "|order|" + kind
					}
					w.Fail(class, sig, wit(), detail)
				}
				ab, p1 := less(a.V, b.V)
				ba, p2 := less(b.V, a.V)
				w.AddTransitions(2)
				w.Eval(!same)
				if p1 != "" || p2 != "" {
					p := p1
					if p == "" {
						p = p2
					}
					if taint != "" {
						w.Fail("panic", "taint:"+taint+"|panic|"+p, "Less with "+wit(), "")
					} else {
						w.Fail("panic", p, "Less with "+wit(), "")
					}
					continue
				}
				switch {
				case same && (ab || ba):
					fail("wrong", "equal-values-ordered", "")
				case !same && ab && ba:
					fail("wrong", "both-less", "")
				case !same && !ab && !ba:
					fail("wrong", "neither-less-nor-equal", "")
				}
				// source-level operators are the derived relations
				for _, c := range []struct {
					name string
					e    rel.Expr
					x, y rel.Value
					want bool
				}{
					{"<", lt, a.V, b.V, ab}, {"<", lt, b.V, a.V, ba},
					{"<=", le, a.V, b.V, ab || same}, {"<=", le, b.V, a.V, ba || same},
					{">", gt, a.V, b.V, ba}, {">", gt, b.V, a.V, ab},
					{">=", ge, a.V, b.V, ba || same}, {">=", ge, b.V, a.V, ab || same},
				} {
					got, p := src(c.e, c.x, c.y)
					w.AddTransitions(1)
					if p != "" && p != "error" {
						if taint != "" {
							w.Fail("panic", "taint:"+taint+"|panic|"+p, c.name+" with "+wit(), "")
						} else {
							w.Fail("panic", p, c.name+" with "+wit(), "")
						}
					} else if p == "error" {
						fail("wrong", "operator-"+c.name+"-fails", "")
					} else if got != c.want && (ab != ba || same) {
						fail("wrong", "operator-"+c.name+"-not-derived-from-less", "")
					}
				}
			}
		})
	}
	// ---- triples over representatives: transitivity
	reprs := map[string]*rsx.State{}
	var repKeys []string
	for _, s := range states {
		if model.Taint(s.M) != "" {
			continue
		}
		n := 0
		if s.M.K == model.KSet {
			n = s.M.Count()
		}
		k := s.Class + "#" + string(rune('0'+n))
		if _, ok := reprs[k]; !ok {
			reprs[k] = s
			repKeys = append(repKeys, k)
		} else if len(repKeys) < 400 && s.Gen == 0 && len(s.Prog) < 12 {
			// plus short literal states, to have several values per class
			k2 := k + "/" + s.Prog
			reprs[k2] = s
			repKeys = append(repKeys, k2)
		}
	}
	sort.Strings(repKeys)
	limit := 110
	if w.Thorough {
		limit = 220
	}
	if len(repKeys) > limit {
		repKeys = repKeys[:limit]
	}
	w.Count("transitivity_values", int64(len(repKeys)))
	lessM := make([][]bool, len(repKeys))
	for i, ki := range repKeys {
		lessM[i] = make([]bool, len(repKeys))
		for j, kj := range repKeys {
			lessM[i][j], _ = less(reprs[ki].V, reprs[kj].V)
		}
	}
	for i := range repKeys {
		if !w.Mine(i) {
			continue
		}
		i := i
		w.Case(func() string {
			return "order-triples|" + reprs[repKeys[i]].Class + " ## transitivity with a = (" + reprs[repKeys[i]].Prog + ")"
		}, func() {
			for j := range repKeys {
				for k := range repKeys {
					w.AddTransitions(1)
					w.Eval(lessM[i][j] && lessM[j][k])
					if lessM[i][j] && lessM[j][k] && !lessM[i][k] {
						a, b, c := reprs[repKeys[i]], reprs[repKeys[j]], reprs[repKeys[k]]
						w.Fail("wrong", "order|not-transitive|"+baseKind(a.Class)+"<..<"+baseKind(c.Class), "a = ("+a.Prog+") < b = ("+b.Prog+") < c = ("+c.Prog+") but not a < c", "")
					}
				}
			}
		})
	}
	// ---- sorting
	sortVals := []string{"0", "1", "-1", "(a:1)", "(a:2)", "(b:0)", "()", "{}", "{1}", "{1,2}", "\"a\"", "\"b\"", "\"ab\"", "[1]", "[2]", "[1,2]", "<<1>>", "{1:2}", "{|a| (1)}", "(@:0,@item:1)", "(@:0,@char:97)", "true", "{{}}", "-(a:1)", "1\\\"a\"", "1\\[1]"}
	var vals []rel.Value
	var valM []*model.V
	for _, s := range sortVals {
		o := obs.Run(s)
		if !o.OK() {
			w.BrokenF("sort value %s does not evaluate", s)
			return
		}
		m, _ := obs.Denote(o.V)
		vals = append(vals, o.V)
		valM = append(valM, m)
	}
	orderby := obs.MustCompile("s orderby .")
	maxE := obs.MustCompile("s max .")
	minE := obs.MustCompile("s min .")
	rank := obs.MustCompile("(s => (v: .)) rank (r: .v)")
	build3 := obs.MustCompile("{a} | {b} | {c}")
	rankTie := obs.MustCompile("s rank (r: .k)")
	n := len(vals)
	k := 0
	for x := 0; x < n; x++ {
		for y := x; y < n; y++ {
			for z := y; z < n; z++ {
				k++
				if !w.Mine(k) {
					continue
				}
				idx := []int{x, y, z}
				w.Case(func() string {
					return "sorting|subset ## {" + sortVals[idx[0]] + ", " + sortVals[idx[1]] + ", " + sortVals[idx[2]] + "}"
				}, func() {
					perms := [][3]int{{0, 1, 2}, {0, 2, 1}, {1, 0, 2}, {1, 2, 0}, {2, 0, 1}, {2, 1, 0}}
					first := ""
					for _, p := range perms {
						sc := obs.Scope("a", vals[idx[p[0]]], "b", vals[idx[p[1]]], "c", vals[idx[p[2]]])
						so := obs.Eval(build3, sc)
						if !so.OK() {
							return
						}
						o := obs.Eval(orderby, obs.Scope("s", so.V))
						w.AddTransitions(1)
						w.Eval(x != y || y != z)
						wit := "{" + sortVals[idx[p[0]]] + "} | {" + sortVals[idx[p[1]]] + "} | {" + sortVals[idx[p[2]]] + "}"
						if !o.OK() {
							w.Fail("wrong", "sorting|orderby-fails", "("+wit+") orderby .", core.NormMsg(strings.TrimSpace(o.Panic+" "+errStr(o.Err))))
							return
						}
						var seq []rel.Value
						if arr, ok := o.V.(rel.Array); ok {
							for _, v := range arr.Values() {
								if v != nil {
									seq = append(seq, v)
								}
							}
						} else if _, empty := o.V.(rel.EmptySet); !empty {
							w.Fail("wrong", "sorting|orderby-not-an-array", "("+wit+") orderby .", "")
							return
						}
						distinct := map[string]bool{}
						for _, i := range idx {
							distinct[valM[i].Enc()] = true
						}
						if len(seq) != len(distinct) {
							w.Fail("wrong", "sorting|orderby-not-a-permutation", "("+wit+") orderby .", "")
							return
						}
						for i := 0; i+1 < len(seq); i++ {
							if l, _ := less(seq[i], seq[i+1]); !l {
								w.Fail("wrong", "sorting|orderby-not-ascending", "("+wit+") orderby .", reprOf(o.V))
								return
							}
						}
						r := reprOf(o.V)
						if first == "" {
							first = r
						} else if r != first {
							w.Fail("wrong", "sorting|order-depends-on-insertion-order", "("+wit+") orderby .", r+" vs "+first)
							return
						}
						if len(seq) > 0 {
							if mo := obs.Eval(maxE, obs.Scope("s", so.V)); mo.OK() && !mo.V.Equal(seq[len(seq)-1]) {
								w.Fail("wrong", "sorting|max-is-not-last-of-orderby", "("+wit+") max .", reprOf(mo.V))
							}
							if mo := obs.Eval(minE, obs.Scope("s", so.V)); mo.OK() && !mo.V.Equal(seq[0]) {
								w.Fail("wrong", "sorting|min-is-not-first-of-orderby", "("+wit+") min .", reprOf(mo.V))
							}
						}
						// printed member order of the set follows the same order
						if sr := reprOf(so.V); strings.HasPrefix(sr, "{") && !strings.HasPrefix(sr, "{|") && strings.HasPrefix(r, "[") && len(seq) > 1 {
							if strings.TrimSuffix(strings.TrimPrefix(sr, "{"), "}") != strings.TrimSuffix(strings.TrimPrefix(r, "["), "]") {
								w.Fail("wrong", "sorting|printed-member-order-differs-from-orderby", wit, sr+" vs "+r)
							}
						}
						// rank with tied keys: rows (v: member, k: tied key); rank = number of rows with a strictly smaller k
						if len(seq) == 3 {
							for _, ks := range [][3]float64{{0, 0, 1}, {0, 1, 1}, {1, 1, 1}} {
								var rows []rel.Value
								for i, v := range seq {
									rows = append(rows, rel.NewTuple(rel.NewAttr("v", v), rel.NewAttr("k", rel.NewNumber(ks[i]))))
								}
								rs, err := rel.NewSet(rows...)
								if err != nil {
									continue
								}
								if ro := obs.Eval(rankTie, obs.Scope("s", rs)); ro.OK() {
									if out, ok := ro.V.(rel.Set); ok {
										for e := out.Enumerator(); e.MoveNext(); {
											t, ok := e.Current().(rel.Tuple)
											if !ok {
												continue
											}
											kv, _ := t.Get("k")
											rv, _ := t.Get("r")
											want := 0
											for _, x := range ks {
												if kn, ok := kv.(rel.Number); ok && x < kn.Float64() {
													want++
												}
											}
											if rn, ok := rv.(rel.Number); !ok || int(rn.Float64()) != want {
												w.Fail("wrong", "sorting|rank-with-tied-keys-is-not-number-of-smaller-keys", "rows (v, k) over "+wit+" with tied k, rank (r: .k)", reprOf(ro.V))
												break
											}
										}
									}
								}
							}
						}
						// rank = number of members with a strictly smaller key
						if ro := obs.Eval(rank, obs.Scope("s", so.V)); ro.OK() {
							if rs, ok := ro.V.(rel.Set); ok {
								for e := rs.Enumerator(); e.MoveNext(); {
									t, ok := e.Current().(rel.Tuple)
									if !ok {
										continue
									}
									v, _ := t.Get("v")
									rv, _ := t.Get("r")
									want := 0
									for _, s := range seq {
										if l, _ := less(s, v); l {
											want++
										}
									}
									if rn, ok := rv.(rel.Number); !ok || int(rn.Float64()) != want {
										w.Fail("wrong", "sorting|rank-is-not-number-of-smaller-members", "("+wit+" => (v: .)) rank (r: .v)", reprOf(ro.V))
										break
									}
								}
							}
						}
					}
				})
			}
		}
	}
	if w.Shard == 0 {
		w.Sample(map[string]string{"pair": "a = " + states[len(states)/2].Prog + ", b = " + states[len(states)/3].Prog})
		w.Sample(map[string]string{"sorting": "{" + sortVals[3] + "} | {" + sortVals[10] + "} | {" + sortVals[14] + "} orderby ."})
	}
}

// baseKind strips representation flags from a shape class (Str+off+hole -> Str, Union[Str,Gen] -> Union).
func baseKind(cls string) string {
	if i := strings.IndexAny(cls, "+["); i > 0 {
		return cls[:i]
	}
	return cls
}

func errStr(err error) string {
	if err == nil {
		return ""
	}
	return err.Error()
}

var C06 = core.Check{
	ID: "C06", Level: "exploration", Fn: checkC06, Rounds: func(string) int { return 2 },
	Rule:   "values = every state of the representation space (numbers incl. -0 and negatives, tuples incl. sugar tuples and @neg wrappers, every set representation incl. offsets, holes, twins, nested) plus one state per (class, operator) of generation 1. All unordered pairs: exactly one of a<b, a=b (denotations), b<a at the Go API, and <, <=, >, >= at source level must be the derived relations. All triples over <=110 (quick) / 220 (thorough) representatives (one per shape class and size, plus short literals): transitivity. Every multiset of 3 values from a 26-value mixed-kind list, in all 6 insertion orders: orderby is an ascending permutation independent of insertion order, max/min are its ends, rank counts strictly smaller members, and the printed member order of the set equals it. non-trivial = distinct denotations (pairs), both premises hold (triples), not all three equal (sorting)",
	Assume: []string{"the particular order is not prescribed, only its laws", "equality is equality of denotations (reference model)"},
}
