package checks

import (
	"strings"

	"github.com/arr-ai/arrai/rel"

	"verif/harness/core"
	"verif/harness/obs"
	"verif/harness/rsx"
)

// C03: values are immutable — branching histories on live values (model checking).
//
// For every state p of the representation space, every ordered pair (d1, d2) of
// derivations: c1 = d1(p); c2 = d2(p); c3 = d2(c1). A full dump of the representation of
// every live value (p, c1, and the most recent results, so that siblings derived from the
// same parent are covered) is taken when it is created and re-compared after every later
// step. The oracle is differential: no expected value is needed, any change is a violation.

type c03Deriv struct {
	src  string
	expr rel.Expr
}

var c03DerivSrc = []string{
	// with at / beyond either end, several element kinds
	"x with (@:3,@item:9)", "x with (@:2,@item:8)", "x with (@:-1,@item:9)",
	"x with (@:3,@char:99)", "x with (@:2,@char:100)", "x with (@:-1,@char:99)",
	"x with (@:2,@byte:9)", "x with (@:3,@byte:8)", "x with (@:-1,@byte:9)",
	"x with (@:3,@value:9)", "x with 0", "x with (a:1)",
	// removal
	"x where .@ != 0", "x where .@ != 1", "x where .@ != 2", "x without first", "x without last",
	"x &~ {first}", "x & {first, last}",
	// concatenation, union, mapping, offsets
	"x ++ [9]", "x ++ [8]", "x ++ \"z\"", "x ++ \"y\"", "x ++ <<9>>", "x ++ <<8>>", "[9] ++ x", "\"z\" ++ x",
	"x | {(@:5,@item:1)}", "x | {(@:5,@char:97)}", "x >> .", "x => .", "1\\x", "-1\\x",
	// joins (rows of positional relations may be shared between results)
	"x <&> {|@,c,d| (0,5,6),(1,5,6),(2,5,6)}", "x <&> {|@,e| (0,7),(1,7),(2,7)}", "x <&> {|c,f| (5,8),(5,9)}",
	"x <&> {|a,c,d| (0,5,6),(1,5,6)}", "x <&> {|a,e| (0,7),(1,7)}", "x <&> {|b,g| (1,4)}", "x <&> {|a,h| (0,3),(1,3)}", "x <&> {|b,j| (1,2)}", "x <&> {|@,k| (0,3),(1,3),(2,3)}", "x -&- {|@| (0),(1)}", "x --> {|@,h| (0,1)}",
	// stdlib sequence helpers
	"//seq.concat([x, x])", "//seq.repeat(2, x)", "//seq.split(x, x)", "//seq.join(x, [x, x])", "//seq.trim_prefix(x, x ++ x)",
	"//seq.trim_suffix(x, x ++ x)", "//seq.sub(x, x ++ x, x ++ x ++ x)", "//seq.has_prefix(x, x ++ x)",
	// pattern matches
	"let [a, ...t] = x; t", "let [...t, a] = x; t", "let {(@:0, ...r), ...s} = x; s",
}

type c03Live struct {
	v     rel.Value
	shape string
	how   string
}

func checkC03(w *core.W) {
	sp := rsx.New(w, 2)
	sp.BuildGen0()
	ex := rsx.NewExpander(sp)
	if w.Round == 0 {
		ex.Discover(1, 0, nil)
		return
	}
	ex.OnePerClass = w.Quick()
	ex.LoadRecipes(w.Prev["newstates"])
	if w.Shard == 0 {
		w.AddStates(len(sp.States))
		w.SetExtra("space", sp.Describe())
	}
	var ds []c03Deriv
	for _, s := range c03DerivSrc {
		ds = append(ds, c03Deriv{s, obs.MustCompile(s)})
	}
	apply := func(d c03Deriv, x rel.Value, first, last rel.Value) obs.Outcome {
		return obs.Eval(d.expr, obs.Scope("x", x, "first", first, "last", last))
	}
	ends := func(v rel.Value) (first, last rel.Value) {
		first, last = rel.None, rel.None
		if s, ok := v.(rel.Set); ok {
			n := 0
			for e := s.Enumerator(); e.MoveNext() && n < 100; n++ {
				if n == 0 {
					first = e.Current()
				}
				last = e.Current()
			}
		}
		return
	}
	spare := func(shape string) bool { return strings.Contains(shape, "spare:true") }
	for i, p := range sp.States {
		if !w.Mine(i) || !p.IsSet() || p.M.Count() == 0 {
			continue
		}
		p := p
		w.Case(func() string { return "history|" + p.Class + " ## branching histories from (" + p.Prog + ")" }, func() {
			pf, pl := ends(p.V)
			// history independence: the same derivations are replayed on values rebuilt from source that have
			// no history (f0: never derived from; fc1: the first derivation of a brand-new copy of p), and must
			// give the same results as on p (used many times before) and on c1 (child of a much-used parent)
			// (compiled anew each time: a compiled literal is one constant object, which would share p's history)
			fresh := func() rel.Value {
				pe, _ := obs.Compile(p.Prog)
				if pe == nil {
					return nil
				}
				o := obs.Eval(pe, rel.EmptyScope)
				if !o.OK() || rel.VerifShape(o.V) != p.Key {
					return nil
				}
				return o.V
			}
			_, pKeyed := pairsOf(p.M)
			// derivations whose result is not a function of the operand's value are not compared: those naming the
			// first/last enumerated member (enumeration order is not part of the value), and >> on a set that is not keyed
			comparable := func(d c03Deriv, keyed bool) bool {
				if strings.Contains(d.src, "first") || strings.Contains(d.src, "last") {
					return false
				}
				return keyed || !strings.Contains(d.src, ">>")
			}
			f0 := fresh()
			var f0f, f0l rel.Value
			if f0 != nil {
				f0f, f0l = ends(f0)
			}
			f0Keys := map[int]string{}
			historyFail := func(which, step, got, want string) {
				w.Fail("wrong", "history-dependent|"+p.Class+"|"+which+"|"+opWord(step), "p = ("+p.Prog+"); "+step, "after the history: "+short(got)+"; on a value without history: "+short(want))
			}
			for _, d1 := range ds {
				o1 := apply(d1, p.V, pf, pl)
				w.AddTransitions(1)
				if !o1.OK() {
					continue
				}
				c1 := c03Live{o1.V, rel.VerifShape(o1.V), strings.ReplaceAll(d1.src, "x", "p")}
				cf, cl := ends(c1.v)
				var fc1, fcf, fcl rel.Value
				c1Keyed := false
				if m, err := obs.Denote(c1.v); err == nil {
					_, c1Keyed = pairsOf(m)
				}
				if fp := fresh(); fp != nil {
					ff, fl := ends(fp)
					if fo1 := apply(d1, fp, ff, fl); fo1.OK() && rel.VerifShape(fo1.V) == c1.shape {
						fc1 = fo1.V
						fcf, fcl = ends(fc1)
					}
				}
				var recent []c03Live
				verify := func(step string) bool {
					ok := true
					bad := func(l c03Live, now string) {
						ok = false
						cls := rsx.Class(l.shape)
						w.Pollute()
						w.Fail("mutated", "mutated|"+cls+"|by "+opWord(step), "p = ("+p.Prog+"); c1 = "+c1.how+"; then "+step+" changed "+l.how, "was "+l.shape+" now "+now)
					}
					if now := rel.VerifShape(p.V); now != p.Key {
						bad(c03Live{p.V, p.Key, "p"}, now)
					}
					if now := rel.VerifShape(c1.v); now != c1.shape {
						bad(c1, now)
					}
					for _, l := range recent {
						if now := rel.VerifShape(l.v); now != l.shape {
							bad(l, now)
						}
					}
					return ok
				}
				if !verify("c1 = " + c1.how) {
					return // p itself was changed: stop using it
				}
				push := func(v rel.Value, how string) {
					recent = append(recent, c03Live{v, rel.VerifShape(v), how})
					if len(recent) > 4 {
						recent = recent[1:]
					}
				}
				for di2, d2 := range ds {
					o2 := apply(d2, p.V, pf, pl)
					w.AddTransitions(1)
					w.Eval(spare(p.Key) || spare(c1.shape))
					if f0 != nil && comparable(d2, pKeyed) {
						want, ok := f0Keys[di2]
						if !ok {
							want = outcomeKey(apply(d2, f0, f0f, f0l))
							f0Keys[di2] = want
						}
						w.Count("history_comparisons_parent", 1)
						if got := outcomeKey(o2); got != want {
							historyFail("parent", "c1 = "+c1.how+"; c2 = "+strings.ReplaceAll(d2.src, "x", "p"), got, want)
						}
					}
					if o2.OK() {
						if !verify("c2 = " + strings.ReplaceAll(d2.src, "x", "p")) {
							return
						}
						push(o2.V, "c2 = "+strings.ReplaceAll(d2.src, "x", "p"))
					}
					o3 := apply(d2, c1.v, cf, cl)
					w.AddTransitions(1)
					if fc1 != nil && comparable(d2, c1Keyed) {
						w.Count("history_comparisons_child", 1)
						if got, want := outcomeKey(o3), outcomeKey(apply(d2, fc1, fcf, fcl)); got != want {
							historyFail("child", "c1 = "+c1.how+"; c3 = "+strings.ReplaceAll(d2.src, "x", "c1"), got, want)
						}
					}
					if o3.OK() {
						if !verify("c3 = " + strings.ReplaceAll(d2.src, "x", "c1")) {
							return
						}
						push(o3.V, "c3 = "+strings.ReplaceAll(d2.src, "x", "c1"))
					}
				}
			}
		})
	}
	if w.Shard == 0 {
		w.Sample(map[string]string{"history": "p = " + sp.States[len(sp.States)/3].Prog + "; c1 = " + c03DerivSrc[0] + "; c2 = " + c03DerivSrc[19] + " on p; c3 = the same on c1"})
	}
	// source-level form of the same property: a let-bound name denotes the same value at
	// every use, whatever was derived from it in between. Programs are compiled once and
	// applied to every state through the scope (a = the live state).
	srcDerivs := []string{"a with (@:3,@item:9)", "a with (@:3,@char:99)", "a with (@:2,@byte:9)", "a ++ [9]", "a ++ \"z\"", "a where .@ != 0", "a without last", "a >> .", "1\\a", "a | {(@:5,@item:1)}"}
	type prog struct {
		d1, d2 int
		whole  rel.Expr
	}
	single := make([]rel.Expr, len(srcDerivs))
	for i, d := range srcDerivs {
		single[i] = obs.MustCompile(d)
	}
	var progs []prog
	for i, d1 := range srcDerivs {
		for j, d2 := range srcDerivs {
			progs = append(progs, prog{i, j, obs.MustCompile("let b = " + d1 + "; let c = " + d2 + "; let bb = " + d1 + "; [a, b, c, bb, a]")})
		}
	}
	for i, p := range sp.States {
		if !w.Mine(i) || !p.IsSet() || p.M.Count() == 0 {
			continue
		}
		p := p
		w.Case(func() string {
			return "let|" + p.Class + " ## let-bound name reused after derivations, a = (" + p.Prog + ")"
		}, func() {
			_, last := ends(p.V)
			sc := obs.Scope("a", p.V, "last", last)
			sep := make([]string, len(single))
			for i, e := range single {
				sep[i] = outcomeKey(obs.Eval(e, sc))
			}
			self := outcomeKey(obs.Outcome{V: p.V})
			for _, pr := range progs {
				o := obs.Eval(pr.whole, sc)
				w.Eval(true)
				if !o.OK() {
					continue // failing derivations are judged by C01/C05/C10
				}
				arr, isArr := o.V.(rel.Array)
				if !isArr || len(arr.Values()) != 5 {
					continue
				}
				got := make([]string, 5)
				for k, v := range arr.Values() {
					if v != nil {
						got[k] = outcomeKey(obs.Outcome{V: v})
					}
				}
				want := []string{self, sep[pr.d1], sep[pr.d2], sep[pr.d1], self}
				for k := range want {
					if got[k] != want[k] && !strings.HasPrefix(want[k], "panic|") && want[k] != "error" {
						w.Fail("wrong", "let-differs|"+p.Class, "let a = "+p.Prog+"; let b = "+srcDerivs[pr.d1]+"; let c = "+srcDerivs[pr.d2]+"; let bb = "+srcDerivs[pr.d1]+"; [a, b, c, bb, a] -- component "+string(rune('0'+k)), short(got[k])+" vs separately "+short(want[k]))
						break
					}
				}
			}
			if now := rel.VerifShape(p.V); now != p.Key {
				w.Pollute()
				w.Fail("mutated", "mutated|"+p.Class+"|by let program", "a = ("+p.Prog+")", "was "+p.Key+" now "+now)
			}
		})
	}
}

func opWord(step string) string {
	// "c2 = p ++ [9]" -> the derivation with operands abstracted
	if i := strings.Index(step, " = "); i >= 0 {
		step = step[i+3:]
	}
	return step
}

var C03 = core.Check{
	ID: "C03", Level: "model_checking", Fn: checkC03, Rounds: func(string) int { return 2 },
	Rule:   "branching histories on live values: for every non-empty set state p of the representation space (generation 0 and one generation of operator results, so that slices with spare capacity occur) and every ordered pair (d1,d2) of the derivation alphabet (with / removal at and beyond both ends for every element kind, ++, |, >>, =>, offsets, joins with 2-4 column relations, //seq helpers, ...rest patterns): c1=d1(p), c2=d2(p), c3=d2(c1); the full representation dump of p, c1 and the four most recent results is re-compared after every step; every c2 and c3 whose derivation is a function of the operand's value (not those naming the first/last enumerated member, nor >> on a set that is not keyed) is also compared with the same derivation on a value without history (p recompiled from source and never derived from; the first derivation of a brand-new copy of p), so that state shared between a parent and its derivatives outside the dumped representation (index caches) shows; plus the source-level form `let a = P; let b = d1; let c = d2; [a,b,c,b]` against separately evaluated components; non-trivial = p or c1 has spare slice capacity",
	Assume: []string{"rel.VerifShape (hook) dumps every field a later operation could overwrite: slices with length/capacity flags, offsets, nested values", "only the last four sibling results are re-checked after each step"},
}
