package checks

import (
	"fmt"
	"sort"
	"strings"
	"time"

	"github.com/arr-ai/arrai/rel"

	"verif/harness/core"
	"verif/harness/model"
	"verif/harness/obs"
)

// C09: pattern matching binds exactly what construction would produce.

// c9errClass abstracts an implementation error message to its kind (data removed).
func c9errClass(err error) string {
	// unwrap the evaluator's context frames: formatting them renders source and scope (slow, and irrelevant)
	for {
		n, ok := err.(interface{ NextErr() error })
		if !ok || n.NextErr() == nil {
			break
		}
		err = n.NextErr()
	}
	msg := err.Error()
	if i := strings.IndexByte(msg, '\n'); i >= 0 {
		msg = msg[:i]
	}
	for _, k := range []string{
		"non-deterministic pattern", "shorter than", "longer than", "couldn't find", "didn't find matched value", "no match:",
		"is different in both scopes", "is redefined differently", "is not a tuple", "is not an array", "is not a dict", "is not a set",
		"is empty but pattern", "not found in", "not in scope", "is not included in set", "is not supported yet", "the length of set",
		"no value and no fallback", "unconsumed input", "duplicate fields", "fallback item does not match",
	} {
		if strings.Contains(msg, k) {
			return strings.TrimSuffix(k, ":")
		}
	}
	return "other:" + c9short(core.NormMsg(msg), 60)
}

// c9out is the observed outcome of one compiled form on one value.
type c9out struct {
	cls string // "match", "no", "error" (cond only: cond itself failed), "panic", "odd"
	b   string // match: Enc of the (a:, b:, c:, t:, u:) result tuple
	d   *model.V
	msg string // no/error: error class; panic: signature; odd: description
}

func (o c9out) String() string {
	switch o.cls {
	case "match":
		return "match " + o.b
	}
	return o.cls + " " + o.msg
}

func (o c9out) same(p c9out) bool { return o.cls == p.cls && o.b == p.b }

type c9ctx struct {
	w     *core.W
	base  rel.Scope
	cache map[string]rel.Value
	univ  []*model.V
}

func newC9ctx(w *core.W) *c9ctx {
	c := &c9ctx{w: w, cache: map[string]rel.Value{}, univ: c9Universe()}
	sc := rel.EmptyScope.With("p", rel.NewNumber(c9OuterP)).With("q", rel.NewNumber(c9OuterP))
	for n, f := range c9Sentinel {
		sc = sc.With(n, rel.NewNumber(f))
	}
	// r1, r2 are unevaluated expressions: an identifier evaluates its scope entry in the scope at
	// the point of use, so `r1` in an arm/body reads the names the pattern just bound (or the
	// sentinels). This keeps every compiled form short (parsing dominates the cost).
	sc = sc.With("r1", obs.MustCompile("[1, a, b, c, t, u]")).With("r2", obs.MustCompile("[2, a, b, c, t, u]"))
	c.base = sc
	return c
}

// real returns the implementation value of a model value (nil if it cannot be built faithfully).
func (c *c9ctx) real(v *model.V) rel.Value {
	if rv, ok := c.cache[v.Enc()]; ok {
		return rv
	}
	var rv rel.Value
	var err error
	if sig := core.Try(func() { rv, err = c9build(v) }); sig != "" || err != nil {
		c.w.Count("values_unbuildable", 1)
		rv = nil
	} else if d, derr := obs.Denote(rv); derr != nil || !model.Equal(d, v) {
		// the constructors did not produce the value asked for: a construction defect (C10/C01 territory), not a matching one
		c.w.Count("values_misbuilt", 1)
		c.w.Note("misbuilt", c9vsrc(v))
		rv = nil
	}
	c.cache[v.Enc()] = rv
	return rv
}

// decode interprets a let/fn outcome (inCond=false) or a cond outcome (inCond=true; arm = matched arm number).
func c9decode(o obs.Outcome, inCond bool) (out c9out, arm int) {
	switch {
	case o.Panic != "":
		return c9out{cls: "panic", msg: o.Panic}, 0
	case o.Err != nil:
		if inCond {
			return c9out{cls: "error", msg: c9errClass(o.Err)}, 0
		}
		return c9out{cls: "no", msg: c9errClass(o.Err)}, 0
	}
	d, err := obs.Denote(o.V)
	if err != nil {
		return c9out{cls: "odd", msg: "undenotable result: " + err.Error()}, 0
	}
	if inCond && d.K == model.KNum && d.N == 0 {
		return c9out{cls: "no"}, 0
	}
	items, ok := c9asArray(d)
	if !ok || !c9plain(items) || len(items) != 6 || items[0].val.K != model.KNum {
		return c9out{cls: "odd", msg: "result " + c9short(model.Src(d), 80)}, 0
	}
	arm = int(items[0].val.N)
	t := model.Tup("a", items[1].val, "b", items[2].val, "c", items[3].val, "t", items[4].val, "u", items[5].val)
	return c9out{cls: "match", b: t.Enc(), d: t}, arm
}

func c9resultOf(b c9bind) *model.V {
	m := map[string]*model.V{}
	for n, f := range c9Sentinel {
		m[n] = model.Num(f)
	}
	for n, v := range b {
		m[n] = v
	}
	return model.TupMap(m)
}

type c9forms struct {
	let, fn, cond rel.Expr
	bad           string // compile failure class ("" = all three compiled)
	badDetail     string
}

func c9compile(p *c9pat) c9forms {
	ps := p.src()
	srcs := []string{
		"let " + ps + " = v; r1",
		"(\\" + ps + " r1)(v)",
		"cond v {" + ps + ": r1, _: 0}",
	}
	var es [3]rel.Expr
	for i, s := range srcs {
		e, o := obs.Compile(s)
		switch {
		case o.Panic != "":
			return c9forms{bad: o.Panic, badDetail: s}
		case o.Err != nil:
			return c9forms{bad: "compile-error|" + []string{"let", "fn", "cond"}[i] + "|" + c9errClass(o.Err), badDetail: s + " => " + c9short(o.Err.Error(), 200)}
		}
		es[i] = e
	}
	return c9forms{let: es[0], fn: es[1], cond: es[2]}
}

// c9roleOfDiff names the role of the first name whose binding differs.
func c9roleOfDiff(p *c9pat, got, want *model.V) string {
	names, role := p.names()
	bound := map[string]bool{}
	for _, n := range names {
		bound[n] = true
	}
	var all []string
	for n := range c9Sentinel {
		all = append(all, n)
	}
	sort.Strings(all)
	for _, n := range all {
		g, _ := got.Get(n)
		w, _ := want.Get(n)
		if g == nil || w == nil || !model.Equal(g, w) {
			if !bound[n] {
				return "unbound-name-changed"
			}
			r := role[n]
			if g != nil && g.K == model.KNum && g.N == c9Sentinel[n] {
				r += ":left-unbound"
			}
			return r
		}
	}
	return "?"
}

// c9valuesFor is the value space of one pattern: every instance, the one-step neighbours of
// the first instances (and of their components), and the common universe. nearMiss marks
// instance-derived values.
func (c *c9ctx) valuesFor(p *c9pat) (vals []*model.V, derived map[string]bool) {
	derived = map[string]bool{}
	seen := map[string]bool{}
	add := func(v *model.V, d bool) {
		if !seen[v.Enc()] {
			seen[v.Enc()] = true
			vals = append(vals, v)
			if d {
				derived[v.Enc()] = true
			}
		}
	}
	inst := c9instances(p)
	for _, v := range inst {
		add(v, true)
	}
	nMut := 3
	if c.w.Thorough {
		nMut = 8
	}
	for i, v := range inst {
		if i >= nMut {
			break
		}
		for _, mv := range c9mutants(v, 2) {
			add(mv, true)
		}
	}
	for _, v := range c.univ {
		add(v, false)
	}
	return
}

func checkC09(w *core.W) {
	c := newC9ctx(w)
	pats := c9Patterns(w.Thorough)
	w.Count("patterns", 0)
	k := 0
	// ---- phase 1: every pattern, absolute oracle, three positions ----
	for _, p := range pats {
		k++
		if !w.Mine(k) {
			continue
		}
		p := p
		w.Case(func() string { return "pattern ## " + c9describe(p) }, func() { c.checkPattern(p) })
	}
	// ---- phase 2: cond with two arms, all ordered pairs of a pattern subset ----
	sub := c9PairPatterns(pats, w.Thorough)
	pv := c.pairValues(sub)
	lets := make([]*c9single, len(sub))
	for i := range sub {
		for j := range sub {
			k++
			if !w.Mine(k) {
				continue
			}
			i, j := i, j
			w.Case(func() string {
				return fmt.Sprintf("cond-pair ## cond v {%s: 1, %s: 2, _: 0}", sub[i].src(), sub[j].src())
			}, func() { c.checkPair(sub, lets, pv, i, j) })
		}
	}
	// ---- phase 2b: the same patterns binding dynamically scoped names, with a default arm that reads them ----
	for i := range sub {
		if !c9dynEligible(sub[i]) {
			continue
		}
		k++
		if !w.Mine(k) {
			continue
		}
		i := i
		w.Case(func() string { return "cond-dynamic ## " + c9dynProgram(sub[i]) }, func() { c.checkDynamic(sub, lets, pv, i) })
	}
	// ---- phase 3: the documentation's own examples ----
	for i, ex := range c9DocExamples {
		k++
		if !w.Mine(k) {
			continue
		}
		i, ex := i, ex
		w.Case(func() string { return fmt.Sprintf("doc ## example %d: %s", i, ex.src) }, func() { c.checkDoc(ex) })
	}
}

func (c *c9ctx) checkPattern(p *c9pat) {
	w := c.w
	w.Count("patterns", 1)
	w.Count(fmt.Sprintf("patterns_depth%d", p.depth()), 1)
	for _, f := range p.features() {
		w.Count("patterns_with:"+f, 1)
	}
	f := c9compile(p)
	if f.bad != "" {
		sig := f.bad
		if !strings.HasPrefix(sig, "panic|") {
			sig += "|" + p.kindName()
		}
		w.Eval(true)
		w.Fail("compile", sig, f.badDetail, "a pattern of the documented grammar does not compile")
		return
	}
	vals, derived := c.valuesFor(p)
	sampled := false
	for _, v := range vals {
		rv := c.real(v)
		if rv == nil {
			continue
		}
		vd := c9judge(p, v)
		sc := c.base.With("v", rv)
		oL, _ := c9decode(obs.Eval(f.let, sc), false)
		oF, _ := c9decode(obs.Eval(f.fn, sc), false)
		oC, _ := c9decode(obs.Eval(f.cond, sc), true)
		w.Eval(vd.strictMatch || vd.lenientMatch || derived[v.Enc()])
		w.Count("applications", 3)
		witness := func() string { return "let " + p.src() + " = " + c9vsrc(v) + "; " + c9body(p) }
		switch {
		case vd.strictMatch && vd.definite():
			w.Count("ref_match", 1)
		case !vd.definite():
			w.Count("ref_either", 1)
		default:
			w.Count("ref_nomatch", 1)
		}
		w.Note("outcomes", p.kindName()+"|ref:"+c9refClass(vd)+"|impl:"+oL.cls+c9ifNo(oL))
		if !sampled && vd.strictMatch && len(vd.strictB) > 1 && len(w.SamplesLeft()) > 0 {
			sampled = true
			w.Sample(witness() + "  => reference " + c9vsrc(c9resultOf(vd.strictB)) + ", let/fn/cond: " + oL.cls)
		}
		c.judge(p, v, vd, oL, witness)
		// the three positions must agree with each other
		if !oF.same(oL) {
			w.Fail("position", "position-disagree|fn-vs-let|let:"+oL.cls+",fn:"+oF.cls, "(\\"+p.src()+" "+c9body(p)+")("+c9vsrc(v)+")", "let: "+oL.String()+"; fn: "+oF.String())
		}
		if !oC.same(oL) {
			if oC.cls == "error" {
				w.Fail("position", "cond-error|"+oC.msg+"|let:"+oL.cls, "cond "+c9vsrc(v)+" {"+p.src()+": …, _: 0}", "cond must fall through to the next arm, not fail: "+oC.msg)
			} else {
				w.Fail("position", "position-disagree|cond-vs-let|let:"+oL.cls+",cond:"+oC.cls, "cond "+c9vsrc(v)+" {"+p.src()+": …, _: 0}", "let: "+oL.String()+"; cond: "+oC.String())
			}
		}
	}
}

func c9ifNo(o c9out) string {
	if o.cls == "no" {
		return ":" + o.msg
	}
	return ""
}

func c9refClass(vd c9verdict) string {
	switch {
	case !vd.definite():
		return "either"
	case vd.strictMatch:
		return "match"
	}
	return "no:" + vd.why
}

// judge compares one observed outcome with what the reference allows.
func (c *c9ctx) judge(p *c9pat, v *model.V, vd c9verdict, o c9out, witness func() string) {
	w := c.w
	switch o.cls {
	case "panic":
		w.Fail("panic", o.msg, witness(), "")
		return
	case "odd":
		w.Fail("wrong", "odd-result|"+p.kindName(), witness(), o.msg)
		return
	case "no":
		if !vd.strictMatch || !vd.lenientMatch {
			return // a non-match is acceptable
		}
		w.Fail("wrong", "false-reject|"+o.msg+"|"+c9featTag(p), witness(), "reference binds "+c9vsrc(c9resultOf(vd.strictB)))
		return
	}
	// matched
	var accept []*model.V
	if vd.strictMatch {
		accept = append(accept, c9resultOf(vd.strictB))
	}
	if vd.lenientMatch {
		accept = append(accept, c9resultOf(vd.lenientB))
	}
	if len(accept) == 0 {
		w.Fail("wrong", "false-accept|"+vd.why, witness(), "no binding rebuilds the value ("+vd.why+"), yet the pattern matched")
		return
	}
	for _, a := range accept {
		if a.Enc() == o.b {
			return
		}
	}
	w.Fail("wrong", "wrong-binding|"+c9roleOfDiff(p, o.d, accept[0])+"|"+c9vkind(v), witness(), "got "+c9vsrc(o.d)+"; reference binds "+c9vsrc(accept[0]))
}

// c9featTag names the one mechanism of a pattern most likely to decide a false reject
// (fallback > ...rest/... > repeated name > none), so that one root cause gives few signatures.
func c9featTag(p *c9pat) string {
	has := map[string]bool{}
	for _, f := range p.features() {
		has[f] = true
	}
	switch {
	case has["fallback"]:
		return "with-fallback"
	case has["..."] || has["...rest"]:
		return "with-rest"
	case has["repeated-name"]:
		return "with-repeated-name"
	}
	return "plain"
}

// ---- phase 2: cond with two arms ----

type c9single struct {
	forms c9forms
	out   map[string]c9out
}

// c9PairPatterns: the patterns of depth <= 1 with at most two components (quick: core leaves only).
func c9PairPatterns(all []*c9pat, thorough bool) []*c9pat {
	var out []*c9pat
	for _, p := range all {
		if p.depth() > 1 || len(p.items) > 2 {
			continue
		}
		ok := true
		nfb := 0
		for _, it := range p.items {
			if it.fb != nil {
				nfb++
			}
			if it.p != nil {
				switch it.p.k {
				case 'S':
					ok = false
				case 'E':
					ok = thorough && it.p.esrc == "(p)" // quick: the literal 1 stands for (p)
				}
			}
			if it.rest && it.name == "" && !thorough {
				ok = false // quick: `...t` stands for `...`
			}
		}
		if p.k == 'E' && p.esrc != "(p)" {
			ok = false
		}
		if nfb > 1 {
			ok = false
		}
		if ok {
			out = append(out, p)
		}
	}
	return out
}

func (c *c9ctx) pairValues(sub []*c9pat) []*model.V {
	seen := map[string]bool{}
	var out []*model.V
	add := func(v *model.V) {
		if !seen[v.Enc()] {
			seen[v.Enc()] = true
			out = append(out, v)
		}
	}
	for _, v := range c.univ {
		add(v)
	}
	for _, p := range sub {
		inst := c9instances(p)
		for i, v := range inst {
			if i < 1 {
				add(v)
			}
		}
	}
	return out
}

func (c *c9ctx) single(sub []*c9pat, lets []*c9single, i int) *c9single {
	if lets[i] == nil {
		lets[i] = &c9single{forms: c9compile(sub[i]), out: map[string]c9out{}}
	}
	return lets[i]
}

func (c *c9ctx) singleOut(s *c9single, v *model.V, rv rel.Value) c9out {
	if o, ok := s.out[v.Enc()]; ok {
		return o
	}
	o, _ := c9decode(obs.Eval(s.forms.let, c.base.With("v", rv)), false)
	s.out[v.Enc()] = o
	return o
}

func (c *c9ctx) checkPair(sub []*c9pat, lets []*c9single, pv []*model.V, i, j int) {
	w := c.w
	si, sj := c.single(sub, lets, i), c.single(sub, lets, j)
	if si.forms.bad != "" || sj.forms.bad != "" {
		return // reported in phase 1
	}
	src := "cond v {" + sub[i].src() + ": r1, " + sub[j].src() + ": r2, _: 0}"
	e, o := obs.Compile(src)
	if o.Panic != "" || o.Err != nil {
		sig := o.Panic
		if sig == "" {
			sig = "cond-pair|compile-error|" + c9errClass(o.Err)
		}
		w.Eval(true)
		w.Fail("compile", sig, src, "two patterns that compile alone do not compile as arms of one cond")
		return
	}
	w.Count("cond_pairs", 1)
	for _, v := range pv {
		rv := c.real(v)
		if rv == nil {
			continue
		}
		oi, oj := c.singleOut(si, v, rv), c.singleOut(sj, v, rv)
		if oi.cls == "panic" || oi.cls == "odd" || oj.cls == "odd" || (oi.cls != "match" && oj.cls == "panic") {
			continue // reported in phase 1; no expectation derivable
		}
		wantArm, want := 0, c9out{cls: "no"}
		switch {
		case oi.cls == "match":
			wantArm, want = 1, oi
		case oj.cls == "match":
			wantArm, want = 2, oj
		}
		got, gotArm := c9decode(obs.Eval(e, c.base.With("v", rv)), true)
		w.Eval(wantArm != 0)
		w.Count("applications", 1)
		w.Note("outcomes", fmt.Sprintf("cond-pair|first:%s|second:%s|arm:%d", oi.cls, oj.cls, gotArm))
		if got.same(want) && gotArm == wantArm {
			continue
		}
		witness := "cond " + c9vsrc(v) + " {" + sub[i].src() + ": 1, " + sub[j].src() + ": 2, _: 0}"
		detail := fmt.Sprintf("alone (let): first arm %s, second arm %s; cond gave arm %d %s", oi, oj, gotArm, got)
		switch got.cls {
		case "panic":
			w.Fail("panic", got.msg, witness, detail)
		case "error":
			w.Fail("wrong", fmt.Sprintf("cond-pair|want-arm%d|error:%s", wantArm, got.msg), witness, detail)
		default:
			kind := "wrong-arm"
			if gotArm == wantArm {
				kind = "wrong-binding-in-arm"
			}
			w.Fail("wrong", fmt.Sprintf("cond-pair|want-arm%d|got-arm%d|%s", wantArm, gotArm, kind), witness, detail)
		}
	}
}

// ---- phase 2b: dynamically scoped names ----

// c9dynEligible: the pattern binds at least one plain name, each at most once, and none through the `:name` shorthand.
func c9dynEligible(p *c9pat) bool {
	seen := map[string]int{}
	ok := true
	var walk func(q *c9pat)
	walk = func(q *c9pat) {
		if q.k == 'n' {
			seen[q.name]++
		}
		for _, it := range q.items {
			if it.short {
				ok = false
			}
			if it.rest && it.name != "" {
				seen[it.name]++ // a rest name repeating a plain name is no repeat once the plain name is dynamic
			}
			if it.p != nil {
				walk(it.p)
			}
		}
	}
	walk(p)
	for _, n := range seen {
		if n > 1 {
			ok = false
		}
	}
	plain := 0
	var count func(q *c9pat)
	count = func(q *c9pat) {
		if q.k == 'n' {
			plain++
		}
		for _, it := range q.items {
			if it.p != nil {
				count(it.p)
			}
		}
	}
	count(p)
	return ok && plain > 0
}

// c9dynSrc renders the pattern with every plain name x written as the dynamically scoped @{x}.
func c9dynSrc(p *c9pat) string {
	var conv func(q *c9pat) *c9pat
	conv = func(q *c9pat) *c9pat {
		c := *q
		if q.k == 'n' {
			c.name = "@{" + q.name + "}"
		}
		c.items = nil
		for _, it := range q.items {
			if it.p != nil {
				it.p = conv(it.p)
			}
			c.items = append(c.items, it)
		}
		return &c
	}
	return conv(p).src()
}

func c9dynProgram(p *c9pat) string {
	return "let @{a} = 901; let @{b} = 902; let @{c} = 903; cond v {" + c9dynSrc(p) + ": [1, @{a}, @{b}, @{c}, 0, 0], _: [2, @{a}, @{b}, @{c}, 0, 0]}"
}

// checkDynamic: a pattern that binds dynamically scoped names matches exactly when its lexical twin does and
// binds the same values; when it does not match, the default arm still sees the enclosing dynamic bindings
// (nothing bound by the matched prefix of a failed arm may remain visible).
func (c *c9ctx) checkDynamic(sub []*c9pat, lets []*c9single, pv []*model.V, i int) {
	w := c.w
	si := c.single(sub, lets, i)
	if si.forms.bad != "" {
		return
	}
	src := c9dynProgram(sub[i])
	e, o := obs.Compile(src)
	if o.Panic != "" || o.Err != nil {
		sig := o.Panic
		if sig == "" {
			sig = "cond-dynamic|compile-error|" + c9errClass(o.Err)
		}
		w.Eval(true)
		w.Fail("compile", sig, src, "the pattern compiles with lexical names but not with dynamically scoped ones")
		return
	}
	for _, v := range pv {
		rv := c.real(v)
		if rv == nil {
			continue
		}
		oi := c.singleOut(si, v, rv)
		if oi.cls != "match" && oi.cls != "no" {
			continue
		}
		wantArm := 2
		want := model.Tup("a", model.Num(c9Sentinel["a"]), "b", model.Num(c9Sentinel["b"]), "c", model.Num(c9Sentinel["c"]), "t", model.Num(0), "u", model.Num(0))
		if oi.cls == "match" {
			wantArm = 1
			a, _ := oi.d.Get("a")
			b, _ := oi.d.Get("b")
			cc, _ := oi.d.Get("c")
			want = model.Tup("a", a, "b", b, "c", cc, "t", model.Num(0), "u", model.Num(0))
		}
		got, gotArm := c9decode(obs.Eval(e, c.base.With("v", rv)), true)
		w.Eval(true)
		w.Count("applications", 1)
		if got.cls == "match" && gotArm == wantArm && got.b == want.Enc() {
			continue
		}
		witness := strings.Replace(src, "cond v", "cond "+c9vsrc(v), 1)
		detail := fmt.Sprintf("with lexical names: %s; with dynamic names: arm %d %s", oi, gotArm, got)
		switch {
		case got.cls == "panic":
			w.Fail("panic", got.msg, witness, detail)
		case got.cls != "match":
			w.Fail("wrong", fmt.Sprintf("cond-dynamic|want-arm%d|%s:%s", wantArm, got.cls, got.msg), witness, detail)
		case gotArm != wantArm:
			w.Fail("wrong", fmt.Sprintf("cond-dynamic|want-arm%d|got-arm%d", wantArm, gotArm), witness, detail)
		case wantArm == 2:
			w.Fail("wrong", "cond-dynamic|binding-of-failed-arm-visible-in-later-arm", witness, detail)
		default:
			w.Fail("wrong", "cond-dynamic|wrong-binding-in-arm", witness, detail)
		}
	}
}

// ---- phase 3: documentation examples ----

type c9doc struct {
	src  string
	want string // expected result as source; "" = the documentation says it must fail
}

func (c *c9ctx) checkDoc(ex c9doc) {
	w := c.w
	w.Eval(true)
	w.Count("doc_examples", 1)
	o := obs.Run(ex.src)
	sig := "doc|" + ex.src + "|"
	switch {
	case o.Panic != "":
		w.Fail("panic", o.Panic, ex.src, "documentation example")
		return
	case ex.want == "":
		if o.Err == nil {
			w.Fail("wrong", sig+"value-instead-of-error", ex.src, "the documentation says this must fail; got "+fmt.Sprint(o.V))
		}
		return
	case o.Err != nil:
		w.Fail("wrong", sig+"error-instead-of-value", ex.src, "documented result "+ex.want+"; got error "+c9errClass(o.Err))
		return
	}
	wo := obs.Run(ex.want)
	if !wo.OK() {
		w.BrokenF("doc example expectation %q does not evaluate", ex.want)
		return
	}
	g, err1 := obs.Denote(o.V)
	x, err2 := obs.Denote(wo.V)
	if err1 != nil || err2 != nil {
		w.Fail("wrong", sig+"undenotable", ex.src, fmt.Sprint(err1, err2))
		return
	}
	if !model.Equal(g, x) {
		w.Fail("wrong", sig+"wrong-value", ex.src, "documented "+ex.want+"; got "+c9vsrc(g))
	}
}

// From docs/docs/lang/binding.md (section "Pattern matching") and docs/docs/examples/example.md
// ("Control Var Cases", "Filter ... with Control Var cases"), with the results they state.
var c9DocExamples = []c9doc{
	{`let 42 = 42; 1`, `1`},
	{`let "hello" = "hello"; 1`, `1`},
	{`let 3 = 1 + 2; 5`, `5`},
	{`let true = true; 3`, `3`},
	{`let true = {()}; 3`, `3`},
	{`let [] = []; 1`, `1`},
	{`let [a, b, c] = [1, 2, 3]; b`, `2`},
	{`let arr = [1, 2]; let [a, b] = arr; b`, `2`},
	{`let [x, x] = [1, 1]; x`, `1`},
	{`let [x, x] = [1, 2]; x`, ``},
	{`[1, 2] -> \[x, y] x + y`, `3`},
	{`let f = \[x, y] x + y; f([1, 2])`, `3`},
	{`(\[x, y] x + y)([1, 2])`, `3`},
	{`(\z \[x, y] z/(x + y))(9, [1, 2])`, `3`},
	{`let () = (); 1`, `1`},
	{`let (a: x, b: y) = (a: 4, b: 7); x`, `4`},
	{`let (a: x, b: x) = (a: 4, b: 4); x`, `4`},
	{`let (:x) = (x: 1); x`, `1`},
	{`(m: 1, n: 2) -> \(m: x, n: y) x + y`, `3`},
	{`let {"a": f, "b": k} = {"a": 1, "b": 2}; [f, k]`, `[1, 2]`},
	{`{"m": 1, "n": 2} -> \{"m": x, "n": y} x + y`, `3`},
	{`let {} = {}; 1`, `1`},
	{`let {a, 42} = {3, 42}; a`, `3`},
	{`let {a, b} = {3, 42}; [a, b]`, ``},
	{`let [[x, y], z] = [[1, 2], 3]; x`, `1`},
	{`let [{"a": x}, (b: y), z] = [{"a": 1}, (b: 2), 3]; [x, y, z]`, `[1, 2, 3]`},
	{`[1, [2, 3]] -> \[x, [y, z]] x + y + z`, `6`},
	{`let [x, _, _] = [1, 2, 3]; x`, `1`},
	{`let [_, x, _] = [1, 2, 3]; x`, `2`},
	{`let x = 3; let [b, x] = [2, 4]; x`, `4`},
	{`let x = 3; let [b, (x)] = [2, 3]; b`, `2`},
	{`let x = 3; let [_, b, (x)] = [1, 2, 3]; b`, `2`},
	{`let x = 1; [1, 2] -> \[(x), y] y`, `2`},
	{`let x = 1; let y = 42; let {(x), (y)} = {42, 1}; 5`, `5`},
	{`let x = 3; let [b, (x)] = [2, 4]; b`, ``},
	{`let [(x)] = [2]; x`, ``},
	{`let a = 56; let {"x": a, "y": (a)} = {"x": 42, "y": 56}; a`, `42`},
	{`let a = 56; let {"x": a, "y": (a)} = {"x": 42, "y": 42}; a`, ``},
	{`let (1 + 2) = 3; 5`, `5`},
	{`let [x, y, ...] = [1, 2]; [x, y]`, `[1, 2]`},
	{`let [x, y, ...t] = [1, 2]; [x, y, t]`, `[1, 2, []]`},
	{`let [x, y, ...] = [1, 2, 3, 4, 5, 6]; [x, y]`, `[1, 2]`},
	{`let [x, y, ...t] = [1, 2, 3, 4, 5, 6]; [x, y, t]`, `[1, 2, [3, 4, 5, 6]]`},
	{`let [..., x, y] = [1, 2, 3, 4, 5, 6]; [x, y]`, `[5, 6]`},
	{`let [...t, x, y] = [1, 2, 3, 4, 5, 6]; [x, y, t]`, `[5, 6, [1, 2, 3, 4]]`},
	{`let [x, ..., y] = [1, 2, 3, 4, 5, 6]; [x, y]`, `[1, 6]`},
	{`let [x, ...t, y] = [1, 2, 3, 4, 5, 6]; [x, y, t]`, `[1, 6, [2, 3, 4, 5]]`},
	{`let (m: x, n: y, ...t) = (m: 1, n: 2, j: 3, k: 4); [x, y, t]`, `[1, 2, (j: 3, k: 4)]`},
	{`let {"m": x, "n": y, ...t} = {"m": 1, "n": 2, "j": 3, "k": 4}; [x, y, t]`, `[1, 2, {"j": 3, "k": 4}]`},
	{`let {1, 2, 3, ...t} = {1, 2, 3, 42, 43}; t`, `{42, 43}`},
	{`let x = 1; let y = 42; let {(x), (y), ...t} = {1, 42, 5, 6}; t`, `{5, 6}`},
	{`[1, 2, 3, 4] -> \[x, y, ...t] [x + y, t]`, `[3, [3, 4]]`},
	{`let {"a"?: x:42} = {"a": 1}; x = 1`, `true`},
	{`let {"b"?: x:42} = {"a": 1}; x = 42`, `true`},
	{`let (b?: x:42) = (a: 1); x = 42`, `true`},
	{`let [x, y, z?:0] = [1, 2]; [x, y, z] = [1, 2, 0]`, `true`},
	{`let {"b"?: x:42, ...t} = {"a": 1}; [x, t] = [42, {"a": 1}]`, `true`},
	{`let (x?: (y: (k?: w:42))) = (x: (y: (z: 1))); w`, `42`},
	{`let {"a"?: {"b": {"c"?: x:42}}} = {"a": {"b": {"k": 1}}}; x`, `42`},
	{`let [x, [y, ?z:0]] = [1, [2]]; [x, y, z]`, `[1, 2, 0]`},
	{`let a = 1; cond a {1 :1, 2 :2, _:1 + 2}`, `1`},
	{`let a = 1; cond a {1 :1 + 10, 2 : 2, _:1 + 2}`, `11`},
	{`let a = 1; cond a {2 :2, _:1 + 2}`, `3`},
	{`let a = 1; let b = cond a {1 :1, 2 :2, _:1 + 2}; b * 100`, `100`},
	{`let a = 1; cond a + 1 {1 :1, 2 :2, _:1 + 2}`, `2`},
	{`let a = 2; cond a { 1: "A", (2, 3): "B", _: "C"}`, `"B"`},
	{`let a = 2; cond a { (cond a {(1,2) : 1}): "A", (2, 3): "B", _: "C"}`, `"B"`},
	{`let a = 1; cond a { (cond {2 > 1 : 1}): "A", (2, 3): "B", _: "C"}`, `"A"`},
	{`{1, [2, 3], 4, [5, 6]} filter . {[a, b]: a + b}`, `{5, 11}`},
	{`{1, [2, 3], 4, [5, 6], [7, 8, 9]} filter . {[a, ..., b]: a + b}`, `{5, 11, 16}`},
	{`{1, [2, 3], 4, [5, 6]} filter . {[_, _]: 42}`, `{42}`},
}

var C09 = core.Check{
	ID: "C09", Level: "exploration", Fn: checkC09, Watchdog: 120 * time.Second,
	Rule: "phase 1: every pattern of the bounded grammar {number, string, name, _, (expr), (e1, e2), array, tuple, dict, set, `...`, `...rest`, ?:fallback}: " +
		"depth 1 with <=3 components over the leaves {1, name, _, (p)} and <=2 over {.., \"s\", (p, 3), (p - 1)}, depth 2 with <=2 components over {1, name, _} and 17 representative depth-1 structures " +
		"(thorough adds depth 3 = every depth-2 structure wrapped once more in 12 ways, and 4-component depth-1 patterns), `...`/`...rest` at every array position, 1-2 trailing fallbacks, " +
		"every set partition of the name slots over a, b, c (all repeated-name configurations), plus 22 hand-written special forms; x the values {every value the pattern denotes under all bindings of its names over {1, \"1\", [2]} and of its ...rest over 2-3 remainders, " +
		"the one-step neighbours of the first 3 (thorough 8) instances (component changed/added/removed, wrong kind, offset/sparse array, duplicate dict key; two levels deep), a fixed 65-value universe of all kinds}, " +
		"each applied in let, function-parameter and cond position (one compiled form per position and pattern) and compared with a structural reference matcher; " +
		"phase 2: `cond v {P1: .., P2: .., _: ..}` for all ordered pairs of the depth<=1, <=2-component patterns, checked against the two arms' own let outcomes (first matching arm, only its bindings visible); " +
		"phase 2b: every such pattern that binds plain names (each once) rewritten to bind the dynamically scoped @{a}, @{b}, @{c} inside `let @{a} = ..; ..; cond v {P: [1, @{a}, ..], _: [2, @{a}, ..]}`: same arm and bindings as the lexical twin, and the default arm sees the enclosing dynamic bindings (nothing bound by the matched prefix of a failed arm stays visible); " +
		"phase 3: the 71 examples of binding.md / example.md with their documented results. " +
		"non-trivial = the reference says the pattern matches (or may match) the value, or the value is an instance or one-step neighbour of an instance of the pattern; for pairs: some arm matches",
	Assume: []string{
		"reference matcher = the property read literally (P matches V iff exactly one binding makes P, read as an expression, denote V)",
		"undecided by property and docs, both outcomes accepted: unrequested components next to a ?:fallback without `...`; set patterns with more element patterns than members; set patterns made deterministic only by a repeated name elsewhere",
		"values are built with the public rel constructors and kept only if their denotation equals the model value",
	},
}

// C09Stats describes the size of the enumerated space (development aid; used by cmd/c09x).
func C09Stats(thorough bool) string {
	pats := c9Patterns(thorough)
	sub := c9PairPatterns(pats, thorough)
	byDepth := map[int]int{}
	nv := 0
	c := &c9ctx{w: &core.W{Thorough: thorough}, univ: c9Universe()}
	for i, p := range pats {
		byDepth[p.depth()]++
		if i%20 == 0 {
			vals, _ := c.valuesFor(p)
			nv += len(vals)
		}
	}
	var sb strings.Builder
	fmt.Fprintf(&sb, "universe=%d ", len(c.univ))
	fmt.Fprintf(&sb, "patterns=%d byDepth=%v pairPatterns=%d pairs=%d pairValues=%d avgValuesPerPattern=%d\n", len(pats), byDepth, len(sub), len(sub)*len(sub), len(c.pairValues(sub)), nv*20/len(pats))
	for i, p := range sub {
		if i%7 == 0 {
			sb.WriteString("  pair-pattern: " + p.src() + "\n")
		}
	}
	return sb.String()
}
