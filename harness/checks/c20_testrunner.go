package checks

import (
	"fmt"
	"sort"
	"strings"

	"github.com/arr-ai/arrai/rel"

	"verif/harness/c20util"
	"verif/harness/core"
	"verif/harness/obs"
)

// C20: `arrai test` passes exactly when every leaf of every test file is the literal true;
// each leaf is reported once under its path; the summary adds up.
//
// Family "tree" (value level): every result tree of the bounded grammar below, each container
// built through every construction path; the tree VALUE is composed from compiled forms with
// the children bound in the scope (arr.ai's parser needs 5-20 ms per file, far too slow for
// 10^5..10^6 files) and handed to the runner's pipeline behind the compiler
// (test.RunExpr + test.Report). Family "file" (source level): a smaller set of the same trees
// written out as source and run through test.RunTests on an in-memory file system.
// Family "layout": every placement of up to 3 (quick) / 4 (thorough) files with fixed contents
// into the slots of a directory tree (nested, hidden dirs, non-test names, ...) x every target,
// through test.RunTests.
// Oracle: c20util.Census (leaf census on the denotation of the evaluated file value).

type c20form struct {
	name     string
	min, max int
	f        func(c []string) string
}

func c20join(c []string, pre func(i int) string) string {
	return c20map(c, func(i int, x string) string { return pre(i) + x }, ", ")
}

func c20map(c []string, f func(i int, x string) string, sep string) string {
	p := make([]string, len(c))
	for i, x := range c {
		p[i] = f(i, x)
	}
	return strings.Join(p, sep)
}

var c20forms = []c20form{
	{"tuple", 1, 3, func(c []string) string {
		return "(" + c20join(c, func(i int) string { return string(rune('a'+i)) + ": " }) + ")"
	}},
	{"item-tuple", 1, 1, func(c []string) string { return "(@: 0, @item: " + c[0] + ")" }},
	{"entry-tuple", 1, 1, func(c []string) string { return "({2: " + c[0] + "} orderby .)(0)" }},
	{"array", 1, 3, func(c []string) string { return "[" + strings.Join(c, ", ") + "]" }},
	{"array-sparse", 2, 3, func(c []string) string { return "[" + c[0] + ", , " + strings.Join(c[1:], ", ") + "]" }},
	{"array-offset", 1, 3, func(c []string) string { return "1\\[" + strings.Join(c, ", ") + "]" }},
	{"array-rel", 1, 3, func(c []string) string {
		return "{|@, @item| " + c20map(c, func(i int, x string) string { return fmt.Sprintf("(%d, %s)", i, x) }, ", ") + "}"
	}},
	{"array-tuples", 1, 3, func(c []string) string {
		return "{" + c20map(c, func(i int, x string) string { return fmt.Sprintf("(@: %d, @item: %s)", i, x) }, ", ") + "}"
	}},
	{"array-concat", 1, 3, func(c []string) string {
		return "(" + c20map(c, func(i int, x string) string { return "[" + x + "]" }, " ++ ") + ")"
	}},
	{"array-where", 1, 3, func(c []string) string {
		return fmt.Sprintf("([%s, 0] where .@ < %d)", strings.Join(c, ", "), len(c))
	}},
	{"array-where-offset", 1, 3, func(c []string) string {
		return fmt.Sprintf("([0, %s] where .@ > 0)", strings.Join(c, ", "))
	}},
	{"array-where-sparse", 2, 3, func(c []string) string {
		return fmt.Sprintf("([%s, 0, %s] where .@ != 1)", c[0], strings.Join(c[1:], ", "))
	}},
	{"array-union-diff", 1, 3, func(c []string) string { return "(([" + strings.Join(c, ", ") + "] | {0}) &~ {0})" }},
	{"array-join", 1, 3, func(c []string) string {
		return "([" + strings.Join(c, ", ") + "] <&> {|@| " + c20map(c, func(i int, _ string) string { return fmt.Sprintf("(%d)", i) }, ", ") + "})"
	}},
	{"array-map", 1, 3, func(c []string) string { return "([" + strings.Join(c, ", ") + "] >> .)" }},
	{"dict", 1, 3, func(c []string) string {
		return "{" + c20join(c, func(i int) string { return fmt.Sprintf("%d: ", i+1) }) + "}"
	}},
	{"dict-strkeys", 1, 3, func(c []string) string {
		return "{" + c20join(c, func(i int) string { return fmt.Sprintf("'%c': ", 'k'+i) }) + "}"
	}},
	{"dict-rel", 1, 3, func(c []string) string {
		return "{|@, @value| " + c20map(c, func(i int, x string) string { return fmt.Sprintf("(%d, %s)", i+1, x) }, ", ") + "}"
	}},
	{"dict-union", 1, 3, func(c []string) string {
		return "(" + c20map(c, func(i int, x string) string { return fmt.Sprintf("{%d: %s}", i+1, x) }, " | ") + ")"
	}},
	{"dict-multi", 2, 3, func(c []string) string {
		return "(" + c20map(c, func(i int, x string) string { return fmt.Sprintf("{1: %s}", x) }, " | ") + ")"
	}},
	{"dict-map", 1, 3, func(c []string) string {
		return "({" + c20join(c, func(i int) string { return fmt.Sprintf("%d: ", i+1) }) + "} >> .)"
	}},
	{"dict-fn", 1, 3, func(c []string) string {
		return "//dict((" + c20join(c, func(i int) string { return string(rune('k'+i)) + ": " }) + "))"
	}},
	{"tuple-merge", 2, 3, func(c []string) string {
		return "(" + c20map(c, func(i int, x string) string { return "(" + string(rune('a'+i)) + ": " + x + ")" }, " +> ") + ")"
	}},
	{"set", 1, 3, func(c []string) string { return "{" + strings.Join(c, ", ") + "}" }},
}

// leaves: literal and computed true / false, other values, a function, a set, an erroring expression
var c20leavesFull = []string{
	"true", "1 = 1", "({(), 1} &~ {1})",
	"false", "{}", "({1} &~ {1})",
	"0", "1", "'x'", `(\x x)`, "{true}", "(b: 1).c",
}
var c20leavesSmall = []string{"true", "false", "1"}
var c20leavesTF = []string{"true", "false"}

// c20gen1 applies every form to every child list of length min..maxK over alphabet.
func c20gen1(forms []c20form, alphabet []string, maxK int, emit func(form, src string)) {
	for _, fo := range forms {
		for k := fo.min; k <= fo.max && k <= maxK; k++ {
			idx := make([]int, k)
			for {
				c := make([]string, k)
				for i, j := range idx {
					c[i] = alphabet[j]
				}
				emit(fo.name, fo.f(c))
				i := k - 1
				for i >= 0 {
					idx[i]++
					if idx[i] < len(alphabet) {
						break
					}
					idx[i] = 0
					i--
				}
				if i < 0 {
					break
				}
			}
		}
	}
}

// c20step returns the first path step of p below the container path base ("a" or ".a" or
// "(0)"), if p lies strictly below base.
func c20step(base, p string) (string, bool) {
	if len(p) <= len(base) || !strings.HasPrefix(p, base) {
		return "", false
	}
	rest := p[len(base):]
	switch {
	case rest[0] == '(':
		if i := strings.IndexByte(rest, ')'); i > 0 {
			return rest[:i+1], true
		}
		return rest, true
	case rest[0] == '.' || base == "":
		i := 1
		for i < len(rest) && rest[i] != '.' && rest[i] != '(' {
			i++
		}
		return rest[:i], true
	}
	return "", false // p continues the last name of base: not below base
}

func c20outName(o string) string {
	switch o {
	case c20util.Pass:
		return "true"
	case c20util.FailO:
		return "false"
	}
	return "other"
}

// c20diff compares the model's census with the reported leaves of one file. It returns
// ("", "", "") if they agree as multisets of (path, outcome); otherwise the input class of
// the culprit node and the kind of discrepancy.
func c20diff(t *c20util.Tree, got []c20util.RepLeaf) (class, kind, detail string) {
	key := func(p, o string) string { return p + "\x00" + o }
	gm := map[string]int{}
	gotAt := map[string][]string{}
	for _, g := range got {
		gm[key(g.Path, g.Outcome)]++
		gotAt[g.Path] = append(gotAt[g.Path], g.Outcome)
	}
	exp := append([]c20util.Leaf{}, t.Leaves...)
	sort.SliceStable(exp, func(i, j int) bool { return exp[i].Path < exp[j].Path })
	expAt := map[string]bool{}
	for _, l := range exp {
		expAt[l.Path] = true
	}
	// culprit search, outermost container first: a container is the culprit if it is reported
	// as a leaf itself or if the steps reported directly below it are not its children's steps
	// several containers can share one path (values of a repeated dictionary key); the group is
	// judged as a whole and attributed to its irregular (offset / sparse) array if it has one
	irregular := func(path string) (c20util.Cont, bool) {
		for _, c := range t.Conts {
			if c.Path == path && (strings.Contains(c.Kind, "+offset") || strings.Contains(c.Kind, "+sparse")) {
				return c, true
			}
		}
		return c20util.Cont{}, false
	}
	for _, c := range t.Conts {
		if ir, ok := irregular(c.Path); ok {
			c = ir
		}
		if _, rep := gotAt[c.Path]; rep && !expAt[c.Path] {
			return c.Class(), "container-reported-as-leaf", fmt.Sprintf("container at %q reported as %v", c.Path, gotAt[c.Path])
		}
		want := map[string]bool{}
		for _, l := range exp {
			for _, a := range l.Anc {
				if t.Conts[a].Path == c.Path { // a multi-valued dictionary may hold two containers under one path
					if st, ok := c20step(c.Path, l.Path); ok {
						want[st] = true
					}
				}
			}
		}
		have := map[string]bool{}
		for _, g := range got {
			if st, ok := c20step(c.Path, g.Path); ok {
				have[st] = true
			}
		}
		var missing, surplus []string
		for st := range want {
			if !have[st] {
				missing = append(missing, st)
			}
		}
		for st := range have {
			if !want[st] {
				surplus = append(surplus, st)
			}
		}
		sort.Strings(missing)
		sort.Strings(surplus)
		switch {
		case len(missing) > 0 && len(surplus) > 0:
			return c.Class(), "children-reported-under-wrong-paths", fmt.Sprintf("below %q: children %v missing, %v reported instead", c.Path, missing, surplus)
		case len(missing) > 0:
			return c.Class(), "children-not-reported", fmt.Sprintf("below %q: children %v missing", c.Path, missing)
		case len(surplus) > 0:
			return c.Class(), "extra-children-reported", fmt.Sprintf("below %q: %v reported but no such child", c.Path, surplus)
		}
	}
	var miss *c20util.Leaf
	for i := range exp {
		k := key(exp[i].Path, exp[i].Outcome)
		if gm[k] > 0 {
			gm[k]--
		} else if miss == nil {
			miss = &exp[i]
		}
	}
	if miss != nil {
		for _, a := range miss.Anc {
			if ir, ok := irregular(t.Conts[a].Path); ok {
				return ir.Class(), "leaves-below-misreported", fmt.Sprintf("leaf %q (%s) not reported as such; reported: %v", miss.Path, c20outName(miss.Outcome), got)
			}
		}
		if os, rep := gotAt[miss.Path]; rep {
			return "leaf-" + c20outName(miss.Outcome) + "-as-" + miss.GoType, "reported-as-" + c20outName(os[0]),
				fmt.Sprintf("leaf %q is %s, reported %v", miss.Path, c20outName(miss.Outcome), os)
		}
		cl := "top-level-leaf"
		if n := len(miss.Anc); n > 0 {
			cl = t.Conts[miss.Anc[n-1]].Class()
		}
		return cl, "leaf-not-reported-under-its-path", fmt.Sprintf("leaf %q (%s) missing; reported: %v", miss.Path, c20outName(miss.Outcome), got)
	}
	var extra []string
	for k, n := range gm {
		if n > 0 {
			extra = append(extra, k)
		}
	}
	if len(extra) == 0 {
		return "", "", ""
	}
	sort.Strings(extra)
	p := extra[0][:strings.IndexByte(extra[0], 0)]
	cl, best := "no-container", -1
	for _, c := range t.Conts {
		if strings.HasPrefix(p, c.Path) && len(c.Path) > best {
			cl, best = c.Class(), len(c.Path)
		}
	}
	return cl, "extra-leaf-reported", fmt.Sprintf("reported leaf %q does not exist; expected %d leaves", p, len(t.Leaves))
}

// c20summary checks the arithmetic of the summary against the reported lines.
func c20summary(r *c20util.Report) string {
	if !r.HasSummary {
		return "summary-missing"
	}
	lines := 0
	for _, f := range r.Files {
		lines += len(f.Leaves)
	}
	if r.Failed+r.Invalid+r.Ignored+r.Passed != r.Total {
		return "counts-do-not-add-up"
	}
	if r.Total != lines {
		return "total-differs-from-reported-leaves"
	}
	if r.Passed != r.Count(c20util.Pass) || r.Failed != r.Count(c20util.FailO) || r.Invalid != r.Count(c20util.Invalid) || r.Ignored != r.Count(c20util.Skip) {
		return "count-differs-from-reported-outcomes"
	}
	return ""
}

type c20content struct {
	name, src string
	tree      *c20util.Tree // nil: file cannot be evaluated
}

type c20slot struct{ path, class string }

// c20found is the documented discovery rule: under the target (or the target itself), name
// ends in _test.arrai, no hidden directory strictly below the target on the way.
func c20found(path, target string) bool {
	target = strings.TrimRight(target, "/")
	if !strings.HasSuffix(path, "_test.arrai") {
		return false
	}
	if path == target {
		return true
	}
	if !strings.HasPrefix(path, target+"/") {
		return false
	}
	parts := strings.Split(path[len(target)+1:], "/")
	for _, d := range parts[:len(parts)-1] {
		if strings.HasPrefix(d, ".") {
			return false
		}
	}
	return true
}

// c20item is a tree both as source text and as the evaluated value.
type c20item struct {
	src string
	v   rel.Value // nil: could not be built
}

type c20builder struct {
	w     *core.W
	exprs map[string]rel.Expr
}

var c20vars = []string{"c0", "c1", "c2"}

// apply builds form(kids): the source by substitution, the value by evaluating the form's
// expression (compiled once per arity, children as free variables) with the kids bound.
func (b *c20builder) apply(fo c20form, kids []c20item) c20item {
	srcs := make([]string, len(kids))
	for i, k := range kids {
		srcs[i] = k.src
		if k.v == nil {
			return c20item{src: fo.f(srcs)}
		}
	}
	it := c20item{src: fo.f(srcs)}
	key := fmt.Sprintf("%s/%d", fo.name, len(kids))
	e, ok := b.exprs[key]
	if !ok {
		e = obs.MustCompile(fo.f(c20vars[:len(kids)]))
		b.exprs[key] = e
	}
	sc := rel.EmptyScope
	for i, k := range kids {
		sc = sc.With(c20vars[i], k.v)
	}
	if o := obs.Eval(e, sc); o.OK() {
		it.v = o.V
	} else {
		b.w.Count("tree-build-failed:"+fo.name, 1)
	}
	return it
}

// gen applies every form to every child list of length min..maxK over the alphabet.
func (b *c20builder) gen(forms []c20form, alphabet []c20item, maxK int, mine func() bool, emit func(form string, it c20item)) {
	for _, fo := range forms {
		for k := fo.min; k <= fo.max && k <= maxK; k++ {
			idx := make([]int, k)
			for {
				if mine() {
					c := make([]c20item, k)
					for i, j := range idx {
						c[i] = alphabet[j]
					}
					emit(fo.name, b.apply(fo, c))
				}
				i := k - 1
				for i >= 0 {
					idx[i]++
					if idx[i] < len(alphabet) {
						break
					}
					idx[i] = 0
					i--
				}
				if i < 0 {
					break
				}
			}
		}
	}
}

func always() bool { return true }

// c20judge compares one single-file run with the model's census of the file value.
func c20judge(w *core.W, src string, tree *c20util.Tree, ro c20util.RunOut) {
	for _, c := range tree.Conts {
		w.Note("containers", c.Class())
	}
	for _, l := range tree.Leaves {
		w.Note("leaves", c20outName(l.Outcome)+"-as-"+l.GoType)
	}
	w.Count("model-leaves", int64(len(tree.Leaves)))
	rep, perr := c20util.ParseReport(ro.Out)
	if perr != nil {
		w.Fail("wrong", "report|unparsable", src, perr.Error())
		return
	}
	class := "census-agrees"
	if len(rep.Files) != 1 || !strings.HasSuffix(rep.Files[0].Header, "t/a_test.arrai") {
		w.Fail("wrong", "report|single-file|file-sections-wrong", src, fmt.Sprintf("%d sections", len(rep.Files)))
		class = "file-sections-wrong"
	} else if cl, kind, detail := c20diff(tree, rep.Files[0].Leaves); kind != "" {
		w.Fail("wrong", "census|"+cl+"|"+kind, src, detail)
		class = cl
	}
	if s := c20summary(rep); s != "" {
		w.Fail("wrong", "summary|"+s, src, ro.Out)
	} else if class == "census-agrees" && rep.Total != len(tree.Leaves) {
		w.Fail("wrong", "summary|total-differs-from-leaves", src, fmt.Sprintf("model %d leaves, summary says %d", len(tree.Leaves), rep.Total))
	}
	wantOK := tree.AllTrue()
	switch {
	case wantOK && ro.Err != nil:
		w.Fail("wrong", "verdict|"+class+"|false-fail", src, "every leaf is true but the run failed: "+core.NormMsg(ro.Err.Error()))
	case !wantOK && ro.Err == nil:
		w.Fail("wrong", "verdict|"+class+"|false-pass", src, "a leaf is not true but the run succeeded")
	}
	np, nf, ni := 0, 0, 0
	for _, l := range tree.Leaves {
		switch l.Outcome {
		case c20util.Pass:
			np++
		case c20util.FailO:
			nf++
		default:
			ni++
		}
	}
	w.Note("outcomes", fmt.Sprintf("ok=%v pass=%d fail=%d invalid=%d", wantOK, np, nf, ni))
	if len(w.SamplesLeft()) > 0 && len(tree.Leaves) >= 3 && tree.MaxAnc() >= 2 {
		w.Sample(map[string]any{"file": src, "model_leaves": len(tree.Leaves), "all_true": wantOK, "run_error": ro.Err != nil})
	}
}

func c20nontrivial(t *c20util.Tree) bool { return len(t.Leaves) >= 2 || t.MaxAnc() >= 2 }

func checkC20(w *core.W) {
	const tpath = "/t/a_test.arrai"
	k := 0
	mine := func() bool { k++; return w.Mine(k) }

	// ---------- family "tree": result trees as values ----------
	runValue := func(family, form string, it c20item) {
		if it.v == nil {
			return // the evaluator could not build it (counted); not this property's business
		}
		w.Case(func() string { return family + "|" + form + " ## " + it.src }, func() {
			tree, err := c20util.Census(it.v)
			if err != nil {
				w.BrokenF("census failed on %s: %v", it.src, err)
				return
			}
			ro := c20util.RunValue(tpath, it.v)
			w.Eval(c20nontrivial(tree))
			if ro.PanicSig != "" {
				w.Fail("panic", ro.PanicSig, it.src, "")
				w.Note("outcomes", "panic")
				return
			}
			c20judge(w, it.src, tree, ro)
		})
	}
	b := &c20builder{w: w, exprs: map[string]rel.Expr{}}
	lit := func(srcs []string) []c20item {
		out := make([]c20item, len(srcs))
		for i, s := range srcs {
			o := obs.Run(s)
			if !o.OK() {
				w.BrokenF("leaf %q does not evaluate: %v %s", s, o.Err, o.Panic)
				continue
			}
			out[i] = c20item{src: s, v: o.V}
		}
		return out
	}
	var leafSrc []string
	for _, s := range c20leavesFull {
		if s != c20errLeaf {
			leafSrc = append(leafSrc, s)
		}
	}
	leaves := lit(leafSrc)
	small := lit(c20leavesSmall)
	tf := lit(c20leavesTF)
	empties := lit([]string{"()", "[]"})

	// depth 0
	for _, it := range append(append([]c20item{}, leaves...), lit([]string{"()", "[]", "{()}", "''", "<<1>>", "(a: ())", "[()]"})...) {
		if mine() {
			runValue("tree0", "leaf", it)
		}
	}
	// depth 1: every form over the full leaf alphabet, <= 3 children
	b.gen(c20forms, leaves, 3, mine, func(form string, it c20item) { runValue("tree1", form, it) })
	// depth 2: every form over C2 = {small leaves (thorough: all leaves), empty containers, every depth-1
	// tree over {true,false} with <= 2 children}: one child from C2; two children from C2 x C2 (thorough),
	// quick: both from {leaves, empties, one-child trees} or a two-child tree beside a leaf/empty on either side
	c2s := append(append([]c20item{}, small...), empties...)
	if w.Thorough {
		c2s = append(append([]c20item{}, leaves...), empties...)
	}
	nLeafy := len(c2s)
	var c2one, c2two []c20item
	for _, fo := range c20forms {
		fo := fo
		b.gen([]c20form{fo}, tf, 1, always, func(_ string, it c20item) { c2one = append(c2one, it) })
		if fo.max >= 2 {
			b.gen([]c20form{{fo.name, 2, fo.max, fo.f}}, tf, 2, always, func(_ string, it c20item) { c2two = append(c2two, it) })
		}
	}
	c2a := append(append([]c20item{}, c2s...), c2one...)
	c2 := append(append([]c20item{}, c2a...), c2two...)
	b.gen(c20forms, c2, 1, mine, func(form string, it c20item) { runValue("tree2", form, it) })
	pairs := func(family string, xs, ys []c20item) {
		for _, fo := range c20forms {
			if fo.max < 2 {
				continue
			}
			for _, x := range xs {
				for _, y := range ys {
					if mine() {
						runValue(family, fo.name, b.apply(fo, []c20item{x, y}))
					}
				}
			}
		}
	}
	if w.Thorough {
		pairs("tree2", c2, c2)
	} else {
		pairs("tree2", c2a, c2a)
		pairs("tree2", c2two, c2s[:nLeafy])
		pairs("tree2", c2s[:nLeafy], c2two)
	}
	// depth 3: form(form(depth-1 tree)) alone and beside a sibling leaf on either side
	a1 := tf
	inner := 1
	if w.Thorough {
		a1, inner = small, 2
	}
	var c1, c3 []c20item
	b.gen(c20forms, tf, inner, always, func(_ string, it c20item) { c1 = append(c1, it) })
	b.gen(c20forms, c1, 1, always, func(_ string, it c20item) { c3 = append(c3, it) })
	for _, fo := range c20forms {
		for _, x := range c3 {
			if fo.min <= 1 && mine() {
				runValue("tree3", fo.name, b.apply(fo, []c20item{x}))
			}
			if fo.max >= 2 {
				for _, s := range a1 {
					if mine() {
						runValue("tree3", fo.name, b.apply(fo, []c20item{s, x}))
					}
					if mine() {
						runValue("tree3", fo.name, b.apply(fo, []c20item{x, s}))
					}
				}
			}
		}
	}
	// depth 4 (thorough): form(form(form(form(true|false))))
	if w.Thorough {
		var d1, d2, d3 []c20item
		b.gen(c20forms, tf, 1, always, func(_ string, it c20item) { d1 = append(d1, it) })
		b.gen(c20forms, d1, 1, always, func(_ string, it c20item) { d2 = append(d2, it) })
		b.gen(c20forms, d2, 1, always, func(_ string, it c20item) { d3 = append(d3, it) })
		b.gen(c20forms, d3, 1, mine, func(form string, it c20item) { runValue("tree4", form, it) })
	}
	if w.Shard == 0 {
		w.Count("tree-cases-enumerated", int64(k))
	}

	// ---------- family "file": the same trees as source text through RunTests ----------
	k0 := k
	runFile := func(family, form, src string) {
		if !mine() {
			return
		}
		w.Case(func() string { return family + "|" + form + " ## " + src }, func() {
			ev := c20util.EvalFile(tpath, src)
			ro := c20util.Run(map[string]string{tpath: src}, "/t")
			if ev.Panic != "" {
				// the evaluator itself panics: not this property's mechanism; the run must still not succeed
				w.Eval(false)
				w.Count("file-eval-panics", 1)
				if ro.PanicSig == "" && ro.Err == nil {
					w.Fail("wrong", "verdict|unevaluable-file|false-pass", src, "evaluation panics ("+ev.Panic+") but the run succeeded")
				}
				return
			}
			if ro.PanicSig != "" {
				w.Eval(true)
				w.Fail("panic", ro.PanicSig, src, "")
				w.Note("outcomes", "panic")
				return
			}
			if ev.Err != nil {
				w.Eval(true)
				w.Count("file-unevaluable", 1)
				w.Note("outcomes", "unevaluable-file")
				if ro.Err == nil {
					w.Fail("wrong", "verdict|unevaluable-file|false-pass", src, "evaluation fails ("+core.NormMsg(ev.Err.Error())+") but the run succeeded")
				}
				if ro.Out != "" {
					w.Fail("wrong", "report|unevaluable-file|results-reported", src, ro.Out)
				}
				return
			}
			tree, err := c20util.Census(ev.V)
			if err != nil {
				w.BrokenF("census failed on %s: %v", src, err)
				return
			}
			w.Eval(c20nontrivial(tree))
			c20judge(w, src, tree, ro)
		})
	}
	for _, l := range append(append([]string{}, c20leavesFull...), "()", "[]", "{()}", "''", "(a: ())", "[()]") {
		runFile("file0", "leaf", l)
	}
	k1, k2 := 1, 0
	if w.Thorough {
		k1, k2 = 2, 1
	}
	c20gen1(c20forms, c20leavesFull, k1, func(form, src string) { runFile("file1", form, src) })
	if !w.Thorough {
		// two children over the small alphabet plus the erroring leaf
		for _, fo := range c20forms {
			if fo.max >= 2 {
				for _, x := range []string{"true", "false", "1", c20errLeaf} {
					for _, y := range []string{"true", "false"} {
						runFile("file1", fo.name, fo.f([]string{x, y}))
					}
				}
			}
		}
	}
	// depth 2: form(form(x)) for x in {true} (quick) / {true,false} (thorough), plus form(form(x), true)
	var f1 []string
	if w.Thorough {
		c20gen1(c20forms, c20leavesTF, 1+k2, func(_, src string) { f1 = append(f1, src) })
	} else {
		c20gen1(c20forms, []string{"true"}, 1, func(_, src string) { f1 = append(f1, src) })
	}
	for _, fo := range c20forms {
		for _, x := range f1 {
			if fo.min <= 1 {
				runFile("file2", fo.name, fo.f([]string{x}))
			}
			if fo.max >= 2 && (w.Thorough || fo.min == 2) {
				runFile("file2", fo.name, fo.f([]string{x, "true"}))
			}
		}
	}
	if w.Shard == 0 {
		w.Count("file-cases-enumerated", int64(k-k0))
	}

	// ---------- family "layout": directory layouts through RunTests ----------
	contents := []c20content{
		{name: "pass", src: "[true, 1=1]"},
		{name: "fail", src: "(f: false)"},
		{name: "noleaves", src: "()"},
		{name: "unevaluable", src: "(b: 1).c"},
		{name: "invalid", src: "{1: 1}"},
		{name: "unparsable", src: "1 +"},
	}
	for i := range contents {
		c := &contents[i]
		ev := c20util.EvalFile("/t/x_test.arrai", c.src)
		if ev.Panic != "" {
			w.BrokenF("layout content %q panics in evaluation: %s", c.src, ev.Panic)
			return
		}
		if ev.Err == nil {
			t, err := c20util.Census(ev.V)
			if err != nil {
				w.BrokenF("census of layout content %q: %v", c.src, err)
				return
			}
			c.tree = t
		}
	}
	if contents[0].tree == nil || !contents[0].tree.AllTrue() || len(contents[0].tree.Leaves) != 2 ||
		contents[1].tree == nil || contents[1].tree.AllTrue() || contents[2].tree == nil || len(contents[2].tree.Leaves) != 0 ||
		contents[3].tree != nil || contents[4].tree == nil || contents[4].tree.AllTrue() || contents[5].tree != nil {
		w.BrokenF("layout contents do not have the intended outcomes")
		return
	}
	slots := []c20slot{
		{"/t/a_test.arrai", "top"},
		{"/t/sub/b_test.arrai", "nested"},
		{"/t/sub/deep/c_test.arrai", "nested2"},
		{"/t/.hid/d_test.arrai", "hidden-dir"},
		{"/t/sub/.hid/e_test.arrai", "nested-hidden-dir"},
		{"/t/sub/.hid/in/j_test.arrai", "below-hidden-dir"},
		{"/t/x.arrai", "non-test-name"},
		{"/t/g_test.arrai.bak", "non-test-suffix"},
		{"/t/ytest.arrai", "no-underscore-name"},
		{"/t/.f_test.arrai", "hidden-file"},
		{"/t/_test.arrai", "bare-suffix-name"},
		{"/t/h_test.arrai/i_test.arrai", "dir-named-like-test"},
	}
	targets := []string{"/t", "/t/", "/t/sub", "/t/a_test.arrai", "/nowhere"}
	// number of contents used per file when n files are placed
	ncont := []int{0, 6, 6, 2, 0}
	maxFiles := 3
	if w.Thorough {
		ncont = []int{0, 6, 6, 6, 2}
		maxFiles = 4
	}

	runLayout := func(sel []int, cont []int, target string) {
		desc := func() string {
			var p []string
			for i, s := range sel {
				p = append(p, slots[s].path+"="+contents[cont[i]].name)
			}
			return "layout|" + fmt.Sprint(len(sel)) + " ## arrai test " + target + " with " + strings.Join(p, " ")
		}
		w.Case(desc, func() {
			files := map[string]string{}
			var found []int // indices into sel
			unevaluable := false
			for i, s := range sel {
				files[slots[s].path] = contents[cont[i]].src
				if c20found(slots[s].path, target) {
					found = append(found, i)
					if contents[cont[i]].tree == nil {
						unevaluable = true
					}
				}
			}
			ro := c20util.Run(files, target)
			w.Eval(len(sel) >= 2 && len(found) >= 1)
			if ro.PanicSig != "" {
				w.Fail("panic", ro.PanicSig, desc(), "")
				return
			}
			if len(found) == 0 || unevaluable {
				cls := "no-test-file-under-target"
				if unevaluable {
					cls = "unevaluable-file"
				}
				w.Note("outcomes", "layout:"+cls)
				if ro.Err == nil {
					w.Fail("wrong", "layout|"+cls+"|false-pass", desc(), ro.Out)
				}
				if ro.Out != "" {
					w.Fail("wrong", "layout|"+cls+"|results-reported", desc(), ro.Out)
				}
				return
			}
			if ro.Err != nil && ro.Out == "" {
				// aborted although every discovered file can be evaluated: which file does the error name?
				cls, kind := "unknown", "run-aborted-without-report"
				for _, s := range sel {
					if strings.Contains(ro.Err.Error(), "'"+slots[s].path+"'") && !c20found(slots[s].path, target) {
						cls, kind = slots[s].class, "file-run-that-is-not-a-test-file-under-target"
					}
				}
				w.Fail("wrong", "layout|"+cls+"|"+kind, desc(), core.NormMsg(ro.Err.Error()))
				return
			}
			rep, perr := c20util.ParseReport(ro.Out)
			if perr != nil {
				w.Fail("wrong", "report|unparsable", desc(), perr.Error())
				return
			}
			// sections <-> files
			secOf := map[int]int{} // sel index -> section
			used := map[int]bool{}
			for i, s := range sel {
				p := slots[s].path
				for j, f := range rep.Files {
					if !used[j] && (f.Header == p[1:] || strings.HasSuffix(f.Header, p)) {
						secOf[i], used[j] = j, true
						break
					}
				}
			}
			isFound := map[int]bool{}
			for _, i := range found {
				isFound[i] = true
			}
			class := "census-agrees"
			for i, s := range sel {
				_, has := secOf[i]
				switch {
				case isFound[i] && !has:
					w.Fail("wrong", "layout|"+slots[s].class+"|test-file-not-run", desc(), ro.Out)
					class = slots[s].class
				case !isFound[i] && has:
					w.Fail("wrong", "layout|"+slots[s].class+"|file-run-that-is-not-a-test-file-under-target", desc(), ro.Out)
					class = slots[s].class
				case has:
					if cl, kind, detail := c20diff(contents[cont[i]].tree, rep.Files[secOf[i]].Leaves); kind != "" {
						w.Fail("wrong", "census|"+cl+"|"+kind, desc(), detail)
						class = cl
					}
				}
			}
			if len(used) != len(rep.Files) {
				w.Fail("wrong", "layout|unknown|section-for-unknown-file", desc(), ro.Out)
				class = "unknown"
			}
			wantOK, leaves := true, 0
			for _, i := range found {
				t := contents[cont[i]].tree
				leaves += len(t.Leaves)
				wantOK = wantOK && t.AllTrue()
			}
			if s := c20summary(rep); s != "" {
				w.Fail("wrong", "summary|"+s, desc(), ro.Out)
			} else if class == "census-agrees" && rep.Total != leaves {
				w.Fail("wrong", "summary|total-differs-from-leaves", desc(), fmt.Sprintf("model %d leaves, summary says %d", leaves, rep.Total))
			}
			switch {
			case wantOK && ro.Err != nil:
				w.Fail("wrong", "verdict|layout:"+class+"|false-fail", desc(), "every leaf is true but the run failed: "+core.NormMsg(ro.Err.Error()))
			case !wantOK && ro.Err == nil:
				w.Fail("wrong", "verdict|layout:"+class+"|false-pass", desc(), "a leaf is not true but the run succeeded")
			}
			w.Note("outcomes", fmt.Sprintf("layout:files=%d leaves=%d ok=%v", len(found), leaves, wantOK))
			if len(w.SamplesLeft()) > 0 && len(sel) == 3 && len(found) == 2 {
				w.Sample(map[string]any{"layout": desc(), "files_run": len(found), "all_true": wantOK})
			}
		})
	}

	k0 = k
	var rec func(start int, sel []int)
	rec = func(start int, sel []int) {
		if n := len(sel); n > 0 {
			nc := ncont[n]
			cont := make([]int, n)
			for {
				for _, tg := range targets {
					if mine() {
						runLayout(sel, append([]int{}, cont...), tg)
					}
				}
				i := n - 1
				for i >= 0 {
					cont[i]++
					if cont[i] < nc {
						break
					}
					cont[i] = 0
					i--
				}
				if i < 0 {
					break
				}
			}
		}
		if len(sel) == maxFiles {
			return
		}
		for s := start; s < len(slots); s++ {
			rec(s+1, append(append([]int{}, sel...), s))
		}
	}
	rec(0, nil)
	if w.Shard == 0 {
		w.Count("layout-cases-enumerated", int64(k-k0))
	}
}

const c20errLeaf = "(b: 1).c"

var C20 = core.Check{
	ID: "C20", Level: "exploration", Fn: checkC20,
	Rule: "family tree (values through test.RunExpr+test.Report): every result tree of a bounded grammar: 24 container construction paths (tuple, merged tuple, item/entry tuple, array literal/sparse/offset/relation/tuple-set/concat/where/where-offset/where-sparse/union-then-difference/join/map, dict literal/string keys/relation/union/multi-valued/map/from-tuple, set) x children; depth 1 over 11 leaf spellings (literal and computed true/false, 0, 1, string, function, set) with <=3 children; depth 2 with <=2 children over C2 = {true,false,1,(),[]} (thorough: all leaves) + all depth-1 trees over {true,false} with <=2 children (thorough: all pairs of C2; quick: pairs in which both are leaves/empties/one-child trees, or a two-child tree beside a leaf/empty on either side); depth 3 as form(form(depth-1 tree with 1 (thorough <=2) children)) alone and beside a sibling leaf (true/false; thorough also 1) on either side; thorough also depth-4 chains. family file (source text through test.RunTests on an in-memory fs): leaves incl. an erroring expression, depth 1 with 1 child (thorough <=2) over 12 leaves, 2 children over small alphabets, depth 2 form(form(true)). family layout (test.RunTests): every placement of <=3 (quick) / <=4 (thorough) files with 6 fixed contents (pass, fail, no leaves, unevaluable, invalid, unparsable; 2 contents for the largest placements) into 12 path slots (nested, hidden dirs, non-test names, hidden file, bare suffix, directory named like a test) x 5 targets. The parsed report and the returned error are compared with the leaf census of the reference model on the denotation of the evaluated value. non-trivial = tree has >=2 leaves or a leaf below >=2 containers (tree, file) / >=2 files placed and >=1 discovered (layout)",
	Assume: []string{
		"reference = c20util.Census: tuple / array (set of (@,@item) with distinct integral @) / dictionary (set of (@,@value), keys may repeat) are containers, {()} passes, {} fails, anything else is invalid",
		"file discovery = name ends in _test.arrai, under the target, no directory starting with '.' strictly below the target",
		"the value-level family enters the runner behind the compiler (test.RunExpr + test.Report, the calls runFile/RunTests make after syntax.Compile); the glue is covered by the file and layout families",
		"sources whose parse error is rendered by wbnf in exponential time (empty file, unbalanced brackets) are not enumerated; the unparsable content is `1 +`",
		"dictionary keys are numbers and short strings; attribute names are plain identifiers",
	},
}
