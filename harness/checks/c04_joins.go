package checks

import (
	"fmt"
	"os"
	"sort"
	"strconv"
	"strings"
	"time"

	"github.com/arr-ai/arrai/rel"

	"verif/harness/core"
	"verif/harness/model"
	"verif/harness/obs"
)

// C04: the join family, nest/unnest and rank obey their relational definitions.
//
// Operands are generated model-first: headings over {a,b,c,d} and the sugar headings
// (@,@item), (@,@char), (@,@value), (@), (@,x); bodies = all sets of <=2 (quick) / <=3
// (thorough) rows over small values; each rendered in every construction path (relation
// literal, column-permuted literal, set of tuple literals, computed forms, sugar form).
// The model computes A <&> B by definition and the seven variants as projections of it.

type c04Rel struct {
	names []string   // heading, sorted
	rows  []*model.V // model tuples
	m     *model.V   // the set
}

type c04Operand struct {
	r    *c04Rel
	src  string
	v    rel.Value
	repr string // construction path name
}

var c04Headings = [][]string{
	{"a"}, {"b"}, {"a", "b"}, {"b", "c"}, {"a", "c"}, {"a", "b", "c"}, {"b", "c", "d"}, {"a", "b", "d"},
	{"@", "@item"}, {"@", "x"}, {"@", "@char"}, {"@"}, {"@", "@value"},
}

func c04Val(name string, v int) *model.V {
	if name == "@char" {
		return model.Num(float64(97 + v))
	}
	return model.Num(float64(v))
}

func c04Src(name string, v int) string {
	if name == "@char" {
		return strconv.Itoa(97 + v)
	}
	return strconv.Itoa(v)
}

// candidate rows of a heading: all assignments over {0,1} (first 4 of them for 3 columns in the quick tier)
func c04Rows(names []string, quick bool) [][]int {
	var out [][]int
	n := len(names)
	for mask := 0; mask < 1<<n; mask++ {
		row := make([]int, n)
		for i := range names {
			row[i] = (mask >> i) & 1
		}
		out = append(out, row)
	}
	if quick && n == 3 {
		out = [][]int{out[0], out[3], out[5], out[6]}
	}
	return out
}

func c04Tuple(names []string, row []int) *model.V {
	m := map[string]*model.V{}
	for i, n := range names {
		m[n] = c04Val(n, row[i])
	}
	return model.TupMap(m)
}

func c04Render(names []string, rows [][]int, path int) (string, bool) {
	cols := func(order []int) string {
		hs := make([]string, len(order))
		for i, o := range order {
			hs[i] = model.AttrName(names[o])
		}
		var rs []string
		for _, r := range rows {
			vs := make([]string, len(order))
			for i, o := range order {
				vs[i] = c04Src(names[o], r[o])
			}
			rs = append(rs, "("+strings.Join(vs, ", ")+")")
		}
		return "{|" + strings.Join(hs, ", ") + "| " + strings.Join(rs, ", ") + "}"
	}
	tup := func(r []int) string {
		ps := make([]string, len(names))
		for i, n := range names {
			ps[i] = model.AttrName(n) + ": " + c04Src(n, r[i])
		}
		return "(" + strings.Join(ps, ", ") + ")"
	}
	ident := make([]int, len(names))
	rev := make([]int, len(names))
	for i := range names {
		ident[i] = i
		rev[i] = len(names) - 1 - i
	}
	if len(rows) == 0 {
		if path == 0 {
			return "{}", true
		}
		return "", false
	}
	switch path {
	case 0:
		return cols(ident), true
	case 1:
		if len(names) < 2 {
			return "", false
		}
		return cols(rev), true
	case 2:
		var ts []string
		for _, r := range rows {
			ts = append(ts, tup(r))
		}
		return "{" + strings.Join(ts, ", ") + "}", true
	case 3:
		return cols(ident) + " => .", true
	case 4:
		if len(rows) < 2 {
			return "", false
		}
		return "{" + tup(rows[0]) + "} | " + cols(ident)[:0] + "{" + tup(rows[len(rows)-1]) + "}" + func() string {
			s := ""
			for _, r := range rows[1 : len(rows)-1] {
				s += " | {" + tup(r) + "}"
			}
			return s
		}(), true
	case 5:
		return "(" + cols(ident) + " | {(zz: 1)}) &~ {(zz: 1)}", true
	}
	return "", false
}

type c04Op struct {
	src  string
	keep func(x, y, z []string) []string // attributes of the result
}

func cat(ls ...[]string) []string {
	var out []string
	for _, l := range ls {
		out = append(out, l...)
	}
	sort.Strings(out)
	return out
}

var c04Ops = []c04Op{
	{"<&>", func(x, y, z []string) []string { return cat(x, y, z) }},
	{"<->", func(x, y, z []string) []string { return cat(x, z) }},
	{"-&-", func(x, y, z []string) []string { return cat(y) }},
	{"---", func(x, y, z []string) []string { return nil }},
	{"-&>", func(x, y, z []string) []string { return cat(y, z) }},
	{"<&-", func(x, y, z []string) []string { return cat(x, y) }},
	{"-->", func(x, y, z []string) []string { return cat(z) }},
	{"<--", func(x, y, z []string) []string { return cat(x) }},
}

func project(t *model.V, names []string) *model.V {
	m := map[string]*model.V{}
	for _, n := range names {
		v, _ := t.Get(n)
		m[n] = v
	}
	return model.TupMap(m)
}

func c04Join(a, b *c04Rel, keep func(x, y, z []string) []string) *model.V {
	inB := map[string]bool{}
	for _, n := range b.names {
		inB[n] = true
	}
	inA := map[string]bool{}
	var x, y, z []string
	for _, n := range a.names {
		inA[n] = true
		if inB[n] {
			y = append(y, n)
		} else {
			x = append(x, n)
		}
	}
	for _, n := range b.names {
		if !inA[n] {
			z = append(z, n)
		}
	}
	out := keep(x, y, z)
	var res []*model.V
	for _, t := range a.rows {
		for _, u := range b.rows {
			ok := true
			for _, n := range y {
				tv, _ := t.Get(n)
				uv, _ := u.Get(n)
				if !model.Equal(tv, uv) {
					ok = false
				}
			}
			if !ok {
				continue
			}
			m := map[string]*model.V{}
			for i, n := range t.Names {
				m[n] = t.Vals[i]
			}
			for i, n := range u.Names {
				m[n] = u.Vals[i]
			}
			res = append(res, project(model.TupMap(m), out))
		}
	}
	return model.Set(res...)
}

func checkC04(w *core.W) {
	quick := w.Quick()
	maxRows := 2
	if !quick {
		maxRows = 3
	}
	// ---- operands
	var ops []*c04Operand
	seenSrc := map[string]bool{}
	for _, names := range c04Headings {
		cand := c04Rows(names, quick)
		var subsets [][][]int
		var rec func(start int, cur [][]int)
		rec = func(start int, cur [][]int) {
			subsets = append(subsets, append([][]int{}, cur...))
			if len(cur) == maxRows {
				return
			}
			for i := start; i < len(cand); i++ {
				rec(i+1, append(cur, cand[i]))
			}
		}
		rec(0, nil)
		for _, rows := range subsets {
			r := &c04Rel{names: names}
			for _, row := range rows {
				r.rows = append(r.rows, c04Tuple(names, row))
			}
			r.m = model.Set(r.rows...)
			if model.Taint(r.m) != "" {
				continue // superimposed items / multi-valued keys: known-broken region, covered by C01
			}
			for path := 0; path < 6; path++ {
				src, ok := c04Render(names, rows, path)
				if !ok || seenSrc[src] {
					continue
				}
				seenSrc[src] = true
				o := obs.Run(src)
				if !o.OK() {
					w.Fail("wrong", "operand-does-not-evaluate|"+strings.Join(names, ","), src, errStr(o.Err)+o.Panic)
					continue
				}
				m, err := obs.Denote(o.V)
				if err != nil || !model.Equal(m, r.m) {
					w.Fail("wrong", "operand-denotes-wrong-value|"+strings.Join(names, ",")+"|path"+strconv.Itoa(path), src, "")
					continue
				}
				ops = append(ops, &c04Operand{r: r, src: src, v: o.V, repr: "path" + strconv.Itoa(path)})
			}
			// sugar forms
			if len(names) == 2 && names[0] == "@" && len(rows) > 0 {
				var sugar string
				switch names[1] {
				case "@item", "@char", "@value":
					// build through the set-of-tuples path and let the evaluator sugar it: {(@:..,@item:..)} is an Array already;
					// add the explicit literal forms
					sort.Slice(rows, func(i, j int) bool { return rows[i][0] < rows[j][0] })
					if names[1] == "@value" {
						var ps []string
						for _, r := range rows {
							ps = append(ps, strconv.Itoa(r[0])+": "+strconv.Itoa(r[1]))
						}
						sugar = "{" + strings.Join(ps, ", ") + "}"
					} else if rows[0][0] == 0 && (len(rows) == 1 || rows[len(rows)-1][0] == len(rows)-1) {
						var ps []string
						for _, r := range rows {
							if names[1] == "@char" {
								ps = append(ps, string(rune(97+r[1])))
							} else {
								ps = append(ps, strconv.Itoa(r[1]))
							}
						}
						if names[1] == "@char" {
							sugar = `"` + strings.Join(ps, "") + `"`
						} else {
							sugar = "[" + strings.Join(ps, ", ") + "]"
						}
					}
				}
				if sugar != "" && !seenSrc[sugar] {
					seenSrc[sugar] = true
					if o := obs.Run(sugar); o.OK() {
						if m, err := obs.Denote(o.V); err == nil && model.Equal(m, r.m) {
							ops = append(ops, &c04Operand{r: r, src: sugar, v: o.V, repr: "sugar"})
						}
					}
				}
			}
		}
	}
	w.Count("operands_per_worker", int64(len(ops)))
	exprs := make([]rel.Expr, len(c04Ops))
	for i, op := range c04Ops {
		exprs[i] = obs.MustCompile("a " + op.src + " b")
	}
	eq := obs.MustCompile("a = b")
	dbg := os.Getenv("VERIF_C04_DEBUG") != ""
	litCache := map[string]obs.Outcome{}
	hclass := func(r *c04Rel) string { return strings.Join(r.names, ",") }
	for i, a := range ops {
		if !w.Mine(i) {
			continue
		}
		a := a
		w.Case(func() string { return "joins|" + hclass(a.r) + " ## all joins with left operand " + a.src }, func() {
			for _, b := range ops {
				for oi, op := range c04Ops {
					if dbg {
						println("C04DBG", a.src, op.src, b.src)
					}
					want := c04Join(a.r, b.r, op.keep)
					o := obs.Eval(exprs[oi], obs.Scope("a", a.v, "b", b.v))
					w.Eval(len(a.r.rows) > 0 && len(b.r.rows) > 0)
					wit := func() string { return "(" + a.src + ") " + op.src + " (" + b.src + ")" }
					sig := func(kind string) string {
						return op.src + "|" + hclass(a.r) + "|" + hclass(b.r) + "|" + a.repr + "/" + b.repr + "|" + kind
					}
					switch {
					case o.Panic != "":
						w.Fail("panic", o.Panic, wit(), "")
					case o.Err != nil:
						w.Fail("wrong", sig("error-instead-of-value"), wit(), core.NormMsg(o.Err.Error()))
					default:
						got, err := obs.Denote(o.V)
						if err != nil {
							w.Fail("corrupt-result", sig("undenotable"), wit(), err.Error())
							continue
						}
						if !model.Equal(got, want) {
							w.Fail("wrong", sig(diffKind(got, want)), wit(), "got "+model.Src(got)+" want "+model.Src(want))
							continue
						}
						if bad := obs.SelfCheck(o.V, got, nil); bad != "" {
							w.Fail("corrupt-result", sig(bad), wit(), "")
							continue
						}
						// the result equals (=) the literal spelling of the expected relation, both ways round
						if want.Count() > 0 && (oi == 0 || oi == 1) {
							ls := model.Src(want)
							lit, cached := litCache[ls]
							if !cached {
								lit = obs.Run(ls)
								litCache[ls] = lit
							}
							if lit.OK() {
								for side := 0; side < 2; side++ {
									sc := obs.Scope("a", o.V, "b", lit.V)
									if side == 1 {
										sc = obs.Scope("a", lit.V, "b", o.V)
									}
									if e := obs.Eval(eq, sc); e.OK() && !e.V.IsTrue() {
										w.Fail("wrong", op.src+"|"+hclass(a.r)+"|"+hclass(b.r)+"|result-not-equal-to-its-literal", wit()+" = "+model.Src(want), "")
										break
									}
								}
							}
						}
					}
				}
			}
		})
	}
	// ---- nest / unnest / rank on every operand with >= 2 attributes
	k := 0
	for _, a := range ops {
		if len(a.r.names) < 2 || len(a.r.rows) == 0 {
			continue
		}
		k++
		if !w.Mine(k) {
			continue
		}
		a := a
		w.Case(func() string { return "nest-rank|" + hclass(a.r) + " ## nest/unnest/rank on " + a.src }, func() {
			names := a.r.names
			for mask := 1; mask < 1<<len(names)-1; mask++ {
				var nested, rest []string
				for i, n := range names {
					if mask&(1<<i) != 0 {
						nested = append(nested, n)
					} else {
						rest = append(rest, n)
					}
				}
				// model: group by rest
				groups := map[string][]*model.V{}
				keyT := map[string]*model.V{}
				for _, t := range a.r.rows {
					kt := project(t, rest)
					groups[kt.Enc()] = append(groups[kt.Enc()], project(t, nested))
					keyT[kt.Enc()] = kt
				}
				var out []*model.V
				for kk, g := range groups {
					m := map[string]*model.V{"n": model.Set(g...)}
					for i, n := range keyT[kk].Names {
						m[n] = keyT[kk].Vals[i]
					}
					out = append(out, model.TupMap(m))
				}
				want := model.Set(out...)
				for variant := 0; variant < 2; variant++ {
					var attrs []string
					src := "x nest |"
					if variant == 0 {
						attrs = nested
					} else {
						attrs = rest
						src = "x nest ~|"
					}
					qs := make([]string, len(attrs))
					for i, n := range attrs {
						qs[i] = model.AttrName(n)
					}
					src += strings.Join(qs, ", ") + "| n"
					e, co := obs.Compile(src)
					if e == nil {
						w.Fail("wrong", "nest|does-not-compile", src, errStr(co.Err)+co.Panic)
						continue
					}
					o := obs.Eval(e, obs.Scope("x", a.v))
					w.Eval(len(a.r.rows) > 1)
					wit := strings.Replace(src, "x", "("+a.src+")", 1)
					sigp := "nest|" + hclass(a.r) + "|" + a.repr + "|"
					if variant == 1 {
						sigp = "nest~|" + hclass(a.r) + "|" + a.repr + "|"
					}
					switch {
					case o.Panic != "":
						w.Fail("panic", o.Panic, wit, "")
					case o.Err != nil:
						w.Fail("wrong", sigp+"error-instead-of-value", wit, core.NormMsg(o.Err.Error()))
					default:
						got, err := obs.Denote(o.V)
						if err != nil {
							w.Fail("corrupt-result", sigp+"undenotable", wit, err.Error())
						} else if !model.Equal(got, want) {
							w.Fail("wrong", sigp+diffKind(got, want), wit, "got "+model.Src(got)+" want "+model.Src(want))
						} else if s, ok := o.V.(rel.Set); ok {
							// unnest inverts nest, at source level ...
							if ue, _ := obs.Compile("(" + src + ") unnest n"); ue != nil {
								uo := obs.Eval(ue, obs.Scope("x", a.v))
								switch {
								case uo.Panic != "":
									w.Fail("panic", uo.Panic, "("+wit+") unnest n", "")
								case uo.Err != nil:
									w.Fail("wrong", "unnest|"+hclass(a.r)+"|source-level-error", "("+wit+") unnest n", core.NormMsg(uo.Err.Error()))
								default:
									if um, err := obs.Denote(uo.V); err != nil || !model.Equal(um, a.r.m) {
										w.Fail("wrong", "unnest|"+hclass(a.r)+"|source-level-does-not-invert-nest", "("+wit+") unnest n", "")
									}
								}
							} else {
								w.Fail("wrong", "unnest|does-not-compile", "("+wit+") unnest n", "")
							}
							// ... and through the Go API
							// unnest inverts nest (Go API: the compiler cannot compile `unnest`)
							var un rel.Set
							var uerr error
							if p := core.Try(func() { un, uerr = rel.Unnest(s, "n") }); p != "" {
								w.Fail("panic", p, "unnest of "+wit, "")
							} else if uerr != nil {
								w.Fail("wrong", "unnest|"+hclass(a.r)+"|error", "unnest n of "+wit, uerr.Error())
							} else if um, err := obs.Denote(un); err != nil || !model.Equal(um, a.r.m) {
								w.Fail("wrong", "unnest|"+hclass(a.r)+"|does-not-invert-nest", "unnest n of "+wit, "")
							}
						}
					}
				}
			}
			// rank by each attribute (ties included) and by a constant
			for _, n := range names {
				src := "x rank (r: ." + model.AttrName(n) + ")"
				if strings.HasPrefix(n, "@") {
					src = "x rank (r: .\"" + n + "\")"
				}
				e, co := obs.Compile(src)
				if e == nil {
					w.Fail("wrong", "rank|does-not-compile", src, errStr(co.Err)+co.Panic)
					continue
				}
				o := obs.Eval(e, obs.Scope("x", a.v))
				w.Eval(len(a.r.rows) > 1)
				var out []*model.V
				for _, t := range a.r.rows {
					kv, _ := t.Get(n)
					r := 0
					for _, u := range a.r.rows {
						uv, _ := u.Get(n)
						if uv.N < kv.N {
							r++
						}
					}
					m := map[string]*model.V{"r": model.Num(float64(r))}
					for i, nn := range t.Names {
						m[nn] = t.Vals[i]
					}
					out = append(out, model.TupMap(m))
				}
				want := model.Set(out...)
				wit := strings.Replace(src, "x", "("+a.src+")", 1)
				switch {
				case o.Panic != "":
					w.Fail("panic", o.Panic, wit, "")
				case o.Err != nil:
					w.Fail("wrong", "rank|"+hclass(a.r)+"|"+a.repr+"|error-instead-of-value", wit, core.NormMsg(o.Err.Error()))
				default:
					if got, err := obs.Denote(o.V); err != nil || !model.Equal(got, want) {
						g := "?"
						if got != nil {
							g = model.Src(got)
						}
						w.Fail("wrong", "rank|"+hclass(a.r)+"|"+a.repr+"|wrong-result", wit, "got "+g+" want "+model.Src(want))
					}
				}
			}
		})
	}
	// ---- rank with every tie pattern: every assignment of keys {0,1,2} to 3 and to 4 rows (rows kept
	// distinct by a second attribute), as a relation literal and as a set of tuple literals; the rank of
	// a row is the number of rows with a strictly smaller key (ties followed by larger keys included)
	rankE := obs.MustCompile("x rank (r: .k)")
	for n := 3; n <= 4; n++ {
		total := 1
		for i := 0; i < n; i++ {
			total *= 3
		}
		for code := 0; code < total; code++ {
			k++
			if !w.Mine(k) {
				continue
			}
			keys := make([]int, n)
			for i, c := 0, code; i < n; i, c = i+1, c/3 {
				keys[i] = c % 3
			}
			w.Case(func() string { return fmt.Sprintf("rank-ties ## keys %v", keys) }, func() {
				var rowsRel, rowsSet []string
				var out []*model.V
				for i, kv := range keys {
					rowsRel = append(rowsRel, fmt.Sprintf("(%d,%d)", kv, i))
					rowsSet = append(rowsSet, fmt.Sprintf("(k:%d, x:%d)", kv, i))
					r := 0
					for _, o := range keys {
						if o < kv {
							r++
						}
					}
					out = append(out, model.TupMap(map[string]*model.V{"k": model.Num(float64(kv)), "x": model.Num(float64(i)), "r": model.Num(float64(r))}))
				}
				want := model.Set(out...)
				for ri, src := range []string{"{|k,x| " + strings.Join(rowsRel, ", ") + "}", "{" + strings.Join(rowsSet, ", ") + "}"} {
					v := obs.Run(src)
					if !v.OK() {
						w.Fail("wrong", "rank-ties|operand-does-not-evaluate", src, "")
						continue
					}
					o := obs.Eval(rankE, obs.Scope("x", v.V))
					w.Eval(true)
					wit := "(" + src + ") rank (r: .k)"
					switch {
					case o.Panic != "":
						w.Fail("panic", o.Panic, wit, "")
					case o.Err != nil:
						w.Fail("wrong", fmt.Sprintf("rank-ties|repr%d|error-instead-of-value", ri), wit, core.NormMsg(o.Err.Error()))
					default:
						if got, err := obs.Denote(o.V); err != nil || !model.Equal(got, want) {
							g := "?"
							if got != nil {
								g = model.Src(got)
							}
							w.Fail("wrong", fmt.Sprintf("rank-ties|repr%d|wrong-result", ri), wit, "got "+g+" want "+model.Src(want))
						}
					}
				}
			})
		}
	}
	if w.Shard == 0 && len(ops) > 10 {
		w.Sample(map[string]string{"join": "(" + ops[len(ops)/2].src + ") <&> (" + ops[len(ops)/3].src + ")"})
		w.Sample(map[string]string{"nest": "(" + ops[len(ops)/2].src + ") nest |..| n"})
	}
}

var C04 = core.Check{
	ID: "C04", Level: "exploration", Fn: checkC04, Watchdog: 60 * time.Second,
	Rule:   "operands = every relation over the headings {a},{b},{a,b},{b,c},{a,c},{a,b,c},{b,c,d},{a,b,d},{@,@item},{@,x},{@,@char},{@},{@,@value} with every body of <=2 (quick) / <=3 (thorough) rows over {0,1}, each in up to 7 construction paths (relation literal, column-reversed literal, set of tuple literals, => ., union of single rows, where-filtered superset, sugar literal); all ordered pairs x the 8 join operators compared with the natural join computed by definition and its documented projections, plus `result = literal` both ways round for <&> and <->; nest / nest ~ over every proper attribute subset with unnest (source level and Go API) inverting it; rank by every attribute, and rank over every assignment of keys {0,1,2} to 3 and 4 rows (all tie patterns, two construction paths). non-trivial = both operands non-empty / more than one row",
	Assume: []string{"reference model: natural join by definition; the seven variants as projections onto x∪z, y, {}, y∪z, x∪y, z, x", "bodies with two rows sharing @ and differing in the sugar payload are excluded (known-broken region covered by C01)", "unnest is exercised both from source and through rel.Unnest"},
}
