package checks

import (
	"fmt"
	"strings"
	"time"

	"github.com/arr-ai/arrai/rel"

	"verif/harness/core"
	"verif/harness/model"
	"verif/harness/obs"
	"verif/harness/rsx"
)

// C01: set algebra is exact for every mix of representations (RSX, model checking).

type resInfo struct {
	m   *model.V
	err string // denote error
	bad string // violated self-consistency invariant
	cls string
}

type c01 struct {
	w    *core.W
	sp   *rsx.Space
	ex   *rsx.Expander
	res  map[string]*resInfo // by result shape
	keys map[*rsx.State]map[string]bool
}

func (c *c01) info(v rel.Value) *resInfo {
	key := rel.VerifShape(v)
	if ri, ok := c.res[key]; ok {
		return ri
	}
	ri := &resInfo{cls: rsx.Class(key)}
	if st, ok := c.sp.ByKey[key]; ok {
		ri.m = st.M
	} else {
		m, err := obs.Denote(v)
		if err != nil {
			ri.err = err.Error()
		} else {
			ri.m = m
			ri.bad = obs.SelfCheck(v, m, c.sp.Members)
		}
	}
	c.res[key] = ri
	return ri
}

// collisionKeys: member encodings plus "@" keys of sugar-tuple members.
func (c *c01) ckeys(s *rsx.State) map[string]bool {
	if k, ok := c.keys[s]; ok {
		return k
	}
	k := map[string]bool{}
	for _, m := range s.M.Mem {
		k["m:"+m.Enc()] = true
		if m.K == model.KTuple {
			if at, ok := m.Get("@"); ok {
				k["@:"+at.Enc()] = true
			}
		}
	}
	c.keys[s] = k
	return k
}

func (c *c01) collide(a, b *rsx.State) bool {
	ka, kb := c.ckeys(a), c.ckeys(b)
	for k := range ka {
		if kb[k] {
			return true
		}
	}
	return false
}

func diffKind(got, want *model.V) string {
	if got.K != model.KSet || want.K != model.KSet {
		return "wrong-value"
	}
	missing, extra := 0, 0
	for _, m := range want.Mem {
		if !got.Has(m) {
			missing++
		}
	}
	for _, m := range got.Mem {
		if !want.Has(m) {
			extra++
		}
	}
	switch {
	case missing > 0 && extra > 0:
		return "altered-member"
	case missing > 0:
		return "missing-member"
	case extra > 0:
		return "extra-member"
	}
	return "same"
}

// judge compares one transition's outcome with the model's answer (wantErr: the model says error).
func (c *c01) judge(op, clsA, clsB string, taint string, o obs.Outcome, want *model.V, wantErr bool, witness func() string) {
	w := c.w
	sig := op + "|" + clsA + "|" + clsB + "|"
	// failures on inputs in a known-broken region of the value space (superimposed sequence
	// items, multi-valued dictionary keys) are grouped by region, not by operator/shape
	tainted := func(class, detail string) string { return "taint:" + taint + "|" + class + "|" + detail }
	fail := func(class, plain, detail, extra string) {
		if taint != "" {
			w.Fail(class, tainted(class, detail), witness(), extra)
		} else {
			w.Fail(class, plain, witness(), extra)
		}
	}
	switch {
	case o.Panic != "":
		fail("panic", o.Panic, o.Panic, "")
	case o.Err != nil:
		if !wantErr {
			fail("wrong", sig+"error-instead-of-value", "error-instead-of-value", core.NormMsg(o.Err.Error()))
		}
	case wantErr:
		fail("wrong", sig+"value-instead-of-error", "value-instead-of-error", "")
	default:
		ri := c.info(o.V)
		switch {
		case ri.err != "":
			if strings.HasPrefix(ri.err, "panic|") {
				fail("panic", ri.err, ri.err, "while enumerating the result")
			} else {
				fail("corrupt-result", "corrupt-result|"+ri.cls+"|"+ri.err, ri.err, "")
			}
		case !model.Equal(ri.m, want):
			k := diffKind(ri.m, want)
			fail("wrong", sig+k, k, "got "+model.Src(ri.m)+" want "+model.Src(want))
		case ri.bad != "":
			fail("corrupt-result", "corrupt-result|"+ri.cls+"|"+ri.bad, ri.bad, "")
		}
	}
}

var setOps = map[string]func(a, b *model.V) *model.V{
	"|": model.Union, "&": model.Inter, "&~": model.Diff, "~~": model.SymDiff,
}

type cmpOp struct {
	src string
	f   func(a, b *model.V) bool
}

func properSubset(a, b *model.V) bool { return model.Subset(a, b) && a.Count() < b.Count() }

var cmpOps = []cmpOp{
	{"(<)", properSubset},
	{"(>)", func(a, b *model.V) bool { return properSubset(b, a) }},
	{"(<=)", model.Subset},
	{"(>=)", func(a, b *model.V) bool { return model.Subset(b, a) }},
	{"(<>)", func(a, b *model.V) bool { return properSubset(a, b) || properSubset(b, a) }},
	{"(<>=)", func(a, b *model.V) bool { return model.Subset(a, b) || model.Subset(b, a) }},
	{"!(<)", func(a, b *model.V) bool { return !properSubset(a, b) }},
	{"!(>)", func(a, b *model.V) bool { return !properSubset(b, a) }},
	{"!(<=)", func(a, b *model.V) bool { return !model.Subset(a, b) }},
	{"!(>=)", func(a, b *model.V) bool { return !model.Subset(b, a) }},
	{"!(<>)", func(a, b *model.V) bool { return !(properSubset(a, b) || properSubset(b, a)) }},
	{"!(<>=)", func(a, b *model.V) bool { return !(model.Subset(a, b) || model.Subset(b, a)) }},
}

// unary transitions with a model; applicable restricts to states where the model is defined
type unOp struct {
	src        string
	applicable func(m *model.V) bool
	model      func(m *model.V) (*model.V, bool) // (result, error expected)
}

func allTuplesWith(names ...string) func(m *model.V) bool {
	return func(s *model.V) bool {
		for _, m := range s.Mem {
			if m.K != model.KTuple {
				return false
			}
			for _, n := range names {
				if _, ok := m.Get(n); !ok {
					return false
				}
			}
		}
		return true
	}
}

func anySet(*model.V) bool { return true }

func mapSet(f func(m *model.V) *model.V) func(s *model.V) (*model.V, bool) {
	return func(s *model.V) (*model.V, bool) {
		var out []*model.V
		for _, m := range s.Mem {
			out = append(out, f(m))
		}
		return model.Set(out...), false
	}
}

func filterSet(f func(m *model.V) bool) func(s *model.V) (*model.V, bool) {
	return func(s *model.V) (*model.V, bool) {
		var out []*model.V
		for _, m := range s.Mem {
			if f(m) {
				out = append(out, m)
			}
		}
		return model.Set(out...), false
	}
}

func at(m *model.V) *model.V { v, _ := m.Get("@"); return v }

var c01Unary = []unOp{
	{"x count", anySet, func(s *model.V) (*model.V, bool) { return model.Num(float64(s.Count())), false }},
	{"x where true", anySet, filterSet(func(*model.V) bool { return true })},
	{"x where false", anySet, filterSet(func(*model.V) bool { return false })},
	{"x where . = 1", anySet, filterSet(func(m *model.V) bool { return model.Equal(m, model.Num(1)) })},
	{"x where . != (@:0,@item:1)", anySet, filterSet(func(m *model.V) bool {
		return !model.Equal(m, model.Tup("@", model.Num(0), "@item", model.Num(1)))
	})},
	{"x where .@ = 0", allTuplesWith("@"), filterSet(func(m *model.V) bool { return model.Equal(at(m), model.Num(0)) })},
	{"x where .@ != 0", allTuplesWith("@"), filterSet(func(m *model.V) bool { return !model.Equal(at(m), model.Num(0)) })},
	{"x where .@ = 1", allTuplesWith("@"), filterSet(func(m *model.V) bool { return model.Equal(at(m), model.Num(1)) })},
	{"x => .", anySet, mapSet(func(m *model.V) *model.V { return m })},
	{"x => 1", anySet, mapSet(func(m *model.V) *model.V { return model.Num(1) })},
	{"x => {.}", anySet, mapSet(func(m *model.V) *model.V { return model.Set(m) })},
	{"x => (@: 0, @item: .)", anySet, mapSet(func(m *model.V) *model.V { return model.Tup("@", model.Num(0), "@item", m) })},
	{"x => .@", allTuplesWith("@"), mapSet(at)},
	{"x => (@: .@, @item: 1)", allTuplesWith("@"), mapSet(func(m *model.V) *model.V { return model.Tup("@", at(m), "@item", model.Num(1)) })},
	{"x => (@: .@, @char: 97)", allTuplesWith("@"), mapSet(func(m *model.V) *model.V { return model.Tup("@", at(m), "@char", model.Num(97)) })},
	{"x => (@: 0, @value: .@)", allTuplesWith("@"), mapSet(func(m *model.V) *model.V { return model.Tup("@", model.Num(0), "@value", at(m)) })},
	{"^x", func(m *model.V) bool { return m.Count() <= 3 }, func(s *model.V) (*model.V, bool) { return model.PowerSet(s), false }},
}

func checkC01(w *core.W) {
	// Both tiers build generation 0 from sets of <=2 members (3-member sets over the 36-member
	// alphabet give ~20 000 initial states and 4e8 ordered pairs: not feasible); the thorough
	// tier expands EVERY generation-1 state instead of one per (class, operator).
	k := 2
	t0 := time.Now()
	sp := rsx.New(w, k)
	sp.BuildGen0()
	w.Count("ms_build_gen0", time.Since(t0).Milliseconds())
	ex := rsx.NewExpander(sp)
	ex.OnePerClass = w.Quick()
	fromGen := 0
	if w.Round > 0 {
		gen0 := len(sp.States)
		t1 := time.Now()
		n := ex.LoadRecipes(w.Prev["newstates"])
		w.Count("ms_load_recipes", time.Since(t1).Milliseconds())
		w.Count(fmt.Sprintf("states_added_round%d", w.Round), int64(n))
		_ = gen0
		fromGen = w.Round
	}
	if w.Shard == 0 {
		// states and quarantine are identical in every worker: report them once
		if w.Round == 0 {
			w.AddStates(len(sp.States))
		} else {
			n := 0
			for _, s := range sp.States {
				if s.Gen >= fromGen {
					n++
				}
			}
			w.AddStates(n)
		}
		sp.ReportQuarantine()
		w.SetExtra(fmt.Sprintf("space_round%d", w.Round), sp.Describe())
	}
	c := &c01{w: w, sp: sp, ex: ex, res: map[string]*resInfo{}, keys: map[*rsx.State]map[string]bool{}}
	cmpExpr := make([]rel.Expr, len(cmpOps))
	for i, o := range cmpOps {
		cmpExpr[i] = obs.MustCompile("a " + o.src + " b")
	}
	memIn := obs.MustCompile("b <: a")
	memNotIn := obs.MustCompile("b !<: a")
	with := obs.MustCompile("a with b")
	without := obs.MustCompile("a without b")
	unExpr := make([]rel.Expr, len(c01Unary))
	for i, u := range c01Unary {
		unExpr[i] = obs.MustCompile(u.src)
	}

	// binary set operators: through the expander (which also notes new states)
	curA := ""
	visit := func(op string, a, b *rsx.State, o obs.Outcome) {
		f, ok := setOps[op]
		if !ok {
			return
		}
		w.AddTransitions(1)
		w.Eval(a.M.Count() > 0 && b.M.Count() > 0 && c.collide(a, b))
		c.judge(op, a.Class, b.Class, model.Taint(a.M, b.M, f(a.M, b.M)), o, f(a.M, b.M), false, func() string { return "(" + a.Prog + ") " + op + " (" + b.Prog + ")" })
		if curA != a.Key && a.Gen > 0 {
			curA = a.Key
			w.Sample(map[string]string{"transition": "(" + a.Prog + ") " + op + " (" + b.Prog + ")", "left_shape": a.Key, "right_shape": b.Key})
		}
	}
	// run the pairs of each left state as one watchdog-guarded case
	seen := map[string]bool{}
	mutated := map[string]bool{}
	checkMut := func(desc string) {
		t2 := time.Now()
		defer func() { w.Count("us_checkmut", time.Since(t2).Microseconds()) }()
		for _, st := range sp.CheckUnchanged() {
			if !mutated[st.Key] {
				mutated[st.Key] = true
				w.Pollute()
				w.Fail("state-mutated", "state-mutated|"+st.Class, desc+" changed the existing value ("+st.Prog+")", "was "+st.Key+" now "+rel.VerifShape(st.V))
			}
		}
	}
	for i, a := range sp.States {
		if !w.Mine(i) || !a.IsSet() {
			continue
		}
		a := a
		w.Case(func() string {
			return "setops|" + a.Class + " ## all binary transitions with left operand (" + a.Prog + ")"
		}, func() {
			for _, b := range sp.States {
				if !b.IsSet() || (a.Gen < fromGen && b.Gen < fromGen) {
					continue
				}
				b := b
				if a.Gen > 0 && b.Gen > 0 && !c.collide(a, b) {
					// thorough tier bound: two computed states are paired only when they share a member or an @ key
					w.Count("pairs_of_two_computed_states_skipped_noncolliding", 1)
					continue
				}
				for _, op := range rsx.ExpOps {
					o := ex.Apply(op, a, b.V)
					visit(op, a, b, o)
					if o.OK() {
						ex.NoteNew(seen, o.V, op, a, b.Key, b.Prog, w.Round+1)
					}
				}
				nontrivial := a.M.Count() > 0 && b.M.Count() > 0 && c.collide(a, b)
				for ci, co := range cmpOps {
					o := obs.Eval(cmpExpr[ci], obs.Scope("a", a.V, "b", b.V))
					w.AddTransitions(1)
					w.Eval(nontrivial)
					c.judge(co.src, a.Class, b.Class, model.Taint(a.M, b.M), o, model.Bool(co.f(a.M, b.M)), false, func() string { return "(" + a.Prog + ") " + co.src + " (" + b.Prog + ")" })
				}
			}
			checkMut("a binary operator with left operand (" + a.Prog + ")")
		})
		if a.Gen < fromGen {
			continue
		}
		w.Case(func() string {
			return "memberops|" + a.Class + " ## with/without/<: of every member on (" + a.Prog + ")"
		}, func() {
			for _, m := range sp.Members {
				m := m
				mcls := rsx.Class(rel.VerifShape(m.V))
				ka := c.ckeys(a)
				nontrivial := ka["m:"+m.M.Enc()]
				if m.M.K == model.KTuple {
					if at, ok := m.M.Get("@"); ok && ka["@:"+at.Enc()] {
						nontrivial = true
					}
				}
				o := obs.Eval(with, obs.Scope("a", a.V, "b", m.V))
				w.AddTransitions(1)
				w.Eval(nontrivial)
				c.judge("with", a.Class, mcls, model.Taint(model.With(a.M, m.M)), o, model.With(a.M, m.M), false, func() string { return "(" + a.Prog + ") with " + m.Src })
				if o.OK() {
					ex.NoteNew(seen, o.V, "with", a, "member:"+m.Src, m.Src, w.Round+1)
				}
				o = obs.Eval(without, obs.Scope("a", a.V, "b", m.V))
				w.AddTransitions(1)
				w.Eval(nontrivial)
				c.judge("without", a.Class, mcls, model.Taint(a.M), o, model.Without(a.M, m.M), false, func() string { return "(" + a.Prog + ") without " + m.Src })
				if o.OK() {
					ex.NoteNew(seen, o.V, "without", a, "member:"+m.Src, m.Src, w.Round+1)
				}
				o = obs.Eval(memIn, obs.Scope("a", a.V, "b", m.V))
				w.AddTransitions(1)
				w.Eval(nontrivial)
				c.judge("<:", a.Class, mcls, model.Taint(a.M), o, model.Bool(a.M.Has(m.M)), false, func() string { return m.Src + " <: (" + a.Prog + ")" })
				o = obs.Eval(memNotIn, obs.Scope("a", a.V, "b", m.V))
				w.AddTransitions(1)
				w.Eval(nontrivial)
				c.judge("!<:", a.Class, mcls, model.Taint(a.M), o, model.Bool(!a.M.Has(m.M)), false, func() string { return m.Src + " !<: (" + a.Prog + ")" })
			}
			checkMut("with/without of a member on (" + a.Prog + ")")
		})
		w.Case(func() string { return "unaryops|" + a.Class + " ## count/where/=>/^ on (" + a.Prog + ")" }, func() {
			for ui, u := range c01Unary {
				if !u.applicable(a.M) {
					continue
				}
				u := u
				want, wantErr := u.model(a.M)
				o := obs.Eval(unExpr[ui], obs.Scope("x", a.V))
				w.AddTransitions(1)
				w.Eval(a.M.Count() > 1)
				c.judge(u.src, a.Class, "", model.Taint(a.M, want), o, want, wantErr, func() string { return strings.ReplaceAll(u.src, "x", "("+a.Prog+")") })
				if o.OK() {
					ex.NoteNew(seen, o.V, "c01:"+u.src, a, "", "", w.Round+1)
				}
			}
			for _, op := range rsx.ExpUnary {
				o := ex.Apply(op, a, nil)
				if o.OK() {
					ex.NoteNew(seen, o.V, op, a, "", "", w.Round+1)
				}
			}
			checkMut("a unary operator on (" + a.Prog + ")")
		})
	}
	if w.Shard == 0 && w.Round == 0 {
		w.Sample(map[string]string{"state": sp.States[len(sp.States)/2].Prog, "shape": sp.States[len(sp.States)/2].Key})
	}
}

func roundsC01(tier string) int { return 2 }

var C01 = core.Check{
	ID: "C01", Level: "model_checking", Fn: checkC01, Rounds: roundsC01, Watchdog: 300 * time.Second,
	Rule:   "explicit-state search over reachable representations (states = distinct concrete representations by rel.VerifShape; generation 0 = every construction path of every set of <=2 members over the 36-member alphabet plus sugar literals; generation 1 = operator results within the size bound: one state per (shape class, producing operator) in the quick tier, all of them in the thorough tier); transitions = | & &~ ~~ and the 12 subset comparisons on all ordered pairs of states (two generation-1 states only when they share a member or an @ key), with/without/<:/!<: with every alphabet member, count/where/=>/^ per state; each transition's result is compared by denotation with the reference model and re-checked for self-consistency; non-trivial = both operands non-empty and sharing a member or an @ key (forced collision)",
	Assume: []string{"reference model of finite sets (harness/model) is correct", "rel.VerifShape distinguishes representations (used only to deduplicate states, never as an oracle)", "values beyond the size bound are checked as results but not expanded"},
}
