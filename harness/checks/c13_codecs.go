package checks

import (
	"bytes"
	"encoding/csv"
	"encoding/json"
	"fmt"
	"github.com/arr-ai/arrai/pkg/fu"
	"sort"
	"strconv"
	"strings"
	"time"

	"github.com/arr-ai/arrai/rel"

	"verif/harness/core"
	"verif/harness/model"
	"verif/harness/obs"
	"verif/harness/rsx"
)

// C13: data codecs round-trip (JSON, YAML, CSV, //bits, server wire format).

type c13 struct {
	w        *core.W
	dec, enc map[string]rel.Expr // "json-strict", "json-lax", "yaml-strict", "yaml-lax"
	csvDec   rel.Expr
	csvEnc   map[string]rel.Expr // "lf", "crlf"
	bitsSet  rel.Expr
	bitsMask rel.Expr
	k        int
}

var c13modes = []string{"json-strict", "json-lax", "yaml-strict", "yaml-lax"}

func newC13(w *core.W) *c13 {
	c := &c13{w: w, dec: map[string]rel.Expr{}, enc: map[string]rel.Expr{}, csvEnc: map[string]rel.Expr{}}
	for _, codec := range []string{"json", "yaml"} {
		c.dec[codec+"-strict"] = obs.MustCompile("//encoding." + codec + ".decode(x)")
		c.enc[codec+"-strict"] = obs.MustCompile("//encoding." + codec + ".encode(x)")
		c.dec[codec+"-strict()"] = obs.MustCompile("//encoding." + codec + ".decoder(())(x)")
		c.enc[codec+"-strict()"] = obs.MustCompile("//encoding." + codec + ".encoder(())(x)")
		c.dec[codec+"-lax"] = obs.MustCompile("//encoding." + codec + ".decoder((strict: false))(x)")
		c.enc[codec+"-lax"] = obs.MustCompile("//encoding." + codec + ".encoder((strict: false))(x)")
	}
	c.csvDec = obs.MustCompile("//encoding.csv.decode(x)")
	c.csvEnc["lf"] = obs.MustCompile("//encoding.csv.encode(x)")
	c.csvEnc["crlf"] = obs.MustCompile("//encoding.csv.encoder((crlf: true))(x)")
	c.bitsSet = obs.MustCompile("//bits.set(x)")
	c.bitsMask = obs.MustCompile("//bits.mask(x)")
	// warm-up outside any case: the first use of the standard library initialises it (seconds under load)
	warm := rel.NewBytes([]byte("[1]"))
	for _, base := range c13modes {
		if o := obs.Eval(c.dec[base], obs.Scope("x", warm)); o.OK() {
			obs.Eval(c.enc[base], obs.Scope("x", o.V))
		}
	}
	obs.Eval(c.csvDec, obs.Scope("x", warm))
	obs.Eval(c.bitsSet, obs.Scope("x", rel.NewNumber(1)))
	return c
}

// c13panic normalises panic signatures whose message is not stable: hashing a NaN reads
// uninitialised memory in arr-ai/hash (fastrand) and fails with varying messages.
func c13panic(sig, feat string) string {
	if strings.HasSuffix(sig, "|rel/value_number.go:rel.Number.Hash") {
		return "panic|hashing NaN fails inside arr-ai/hash fastrand (message varies)|rel/value_number.go:rel.Number.Hash"
	}
	// keydata.(string): the message names the Go type the key was translated to, which is an
	// implementation detail; the input class is what identifies the defect
	const site = "|translate/from_arrai.go:translate.Translator.objFromArraiDict"
	if strings.HasSuffix(sig, site) && strings.Contains(sig, "interface conversion") {
		return "panic|interface conversion: dict key is not a string [input: " + feat + "]" + site
	}
	return sig
}

// c13coarse merges value classes that share a root cause.
func c13coarse(cls string, wire bool) string {
	switch {
	case cls == "set-of-numbers", cls == "relation", cls == "mixed-set", strings.HasPrefix(cls, "bytes"),
		strings.HasSuffix(cls, ":superimposed"), cls == "dict:multi", wire && strings.HasPrefix(cls, "dict"):
		return "plain-set"
	case strings.HasSuffix(cls, ":offset"), strings.HasSuffix(cls, ":holes"):
		return "sequence-with-offset-or-holes"
	}
	return cls
}

func (c *c13) mine() bool {
	c.k++
	return c.w.Mine(c.k)
}

// c13bytes extracts the bytes of an encoder result (empty output is the empty set).
func c13bytes(v rel.Value) ([]byte, bool) {
	switch x := v.(type) {
	case rel.Bytes:
		return x.Bytes(), true
	case rel.String:
		return []byte(x.String()), true
	case rel.Set:
		if !x.IsTrue() {
			return nil, true
		}
	}
	return nil, false
}

func c13errMsg(err error) string { return core.NormMsg(err.Error()) }

// ---------------------------------------------------------------------------------------
// Family 1: documents. decode d; encode(decode d) has the content of d (reference parser);
// decode(encode(decode d)) = decode d.

// cfgCase: a configured coder whose configuration does not mention `strict` is the default coder:
// decoder(()) and decode, encoder(()) and encode give the same outcome on every document.
func (c *c13) cfgCase(codec string, d *c13doc) {
	w := c.w
	wit := func() string { return codec + " document " + strconv.Quote(d.text()) }
	w.Case(func() string { return "cfg|" + codec + "|" + d.topKind() + " ## " + wit() }, func() {
		w.Eval(true)
		sc := obs.Scope("x", rel.NewBytes([]byte(d.text())))
		o1, o2 := obs.Eval(c.dec[codec+"-strict"], sc), obs.Eval(c.dec[codec+"-strict()"], sc)
		if o2.Panic != "" && o1.Panic == "" {
			w.Fail("panic", o2.Panic, wit(), "decoder(())")
			return
		}
		if outcomeKey(o1) != outcomeKey(o2) {
			w.Fail("wrong", codec+"|decoder-with-empty-configuration-differs-from-decode|"+d.feature(), wit(), short(outcomeKey(o2))+" vs "+short(outcomeKey(o1)))
			return
		}
		if !o1.OK() {
			return
		}
		sc = obs.Scope("x", o1.V)
		e1, e2 := obs.Eval(c.enc[codec+"-strict"], sc), obs.Eval(c.enc[codec+"-strict()"], sc)
		if e2.Panic != "" && e1.Panic == "" {
			w.Fail("panic", e2.Panic, wit(), "encoder(())")
			return
		}
		if outcomeKey(e1) != outcomeKey(e2) {
			w.Fail("wrong", codec+"|encoder-with-empty-configuration-differs-from-encode|"+d.feature(), wit(), short(outcomeKey(e2))+" vs "+short(outcomeKey(e1)))
		}
	})
}

func (c *c13) docCase(base string, d *c13doc) {
	w := c.w
	codec := base[:4]
	src := []byte(d.text())
	wit := func() string { return base + " document " + strconv.Quote(d.text()) }
	w.Case(func() string { return "doc|" + base + "|" + d.topKind() + " ## " + wit() }, func() {
		ref, refErr := c13refParse(codec, src)
		w.Eval(refErr == nil && d.special())
		feat := d.feature()
		outcome := func(s string) { w.Note("outcomes", "doc|"+base+"|"+d.topKind()+"|"+s) }
		o1 := obs.Eval(c.dec[base], obs.Scope("x", rel.NewBytes(src)))
		if o1.Panic != "" {
			w.Fail("panic", c13panic(o1.Panic, feat), wit(), "decode")
			outcome("decode-panic")
			return
		}
		if refErr != nil {
			// not a document: the decoder has to reject it too
			if o1.Err == nil {
				w.Fail("wrong", base+"|decode|"+feat+"|accepts-what-the-reference-parser-rejects", wit(), refErr.Error())
				outcome("accepts-invalid")
				return
			}
			outcome("invalid-rejected")
			return
		}
		if o1.Err != nil {
			w.Fail("wrong", base+"|decode|"+feat+"|error|"+c13errMsg(o1.Err), wit(), "")
			outcome("decode-error")
			return
		}
		v1, err := obs.Denote(o1.V)
		if err != nil {
			w.Fail("wrong", base+"|decode|"+feat+"|undenotable", wit(), err.Error())
			outcome("decode-undenotable")
			return
		}
		o2 := obs.Eval(c.enc[base], obs.Scope("x", o1.V))
		if o2.Panic != "" {
			w.Fail("panic", c13panic(o2.Panic, feat), wit(), "encode(decode d), decoded "+model.Src(v1))
			outcome("reencode-panic")
			return
		}
		if o2.Err != nil {
			w.Fail("wrong", base+"|reencode|"+feat+"|error|"+c13errMsg(o2.Err), wit(), "decoded "+model.Src(v1))
			outcome("reencode-error")
			return
		}
		e, ok := c13bytes(o2.V)
		if !ok {
			w.Fail("wrong", base+"|reencode|"+feat+"|result-not-bytes", wit(), fmt.Sprintf("%T", o2.V))
			outcome("reencode-not-bytes")
			return
		}
		ref2, err := c13refParse(codec, e)
		if err != nil {
			w.Fail("wrong", base+"|reencode|"+feat+"|output-rejected-by-reference-parser", wit(), strconv.Quote(string(e))+": "+err.Error())
			outcome("reencode-unparseable")
			return
		}
		if df := c13diff(ref, ref2); df != "" {
			w.Fail("wrong", base+"|reencode|content|"+df, wit(), "re-encoded as "+strconv.Quote(string(e)))
			outcome("content:" + df)
			return
		}
		o3 := obs.Eval(c.dec[base], obs.Scope("x", o2.V))
		if o3.Panic != "" {
			w.Fail("panic", c13panic(o3.Panic, feat), wit(), "decode(encode(decode d))")
			outcome("redecode-panic")
			return
		}
		if o3.Err != nil {
			w.Fail("wrong", base+"|redecode|"+feat+"|error|"+c13errMsg(o3.Err), wit(), "re-encoded as "+strconv.Quote(string(e)))
			outcome("redecode-error")
			return
		}
		v3, err := obs.Denote(o3.V)
		if err != nil || !model.Equal(v1, v3) {
			got := "undenotable"
			if err == nil {
				got = model.Src(v3)
			}
			w.Fail("wrong", base+"|redecode|"+feat+"|value-differs", wit(), "decode d = "+model.Src(v1)+", decode(encode(decode d)) = "+got)
			outcome("redecode-differs")
			return
		}
		outcome("round-trips")
	})
}

type c13families struct {
	name string
	docs []*c13doc
}

func c13docFamilies(thorough bool) []c13families {
	f0 := c13scalars()
	leaves1 := []*c13doc{c13null(), c13bool(true), c13bool(false), c13num("0"), c13num("0.5"), c13num("1e21"), c13str(""), c13str("a"),
		{k: 'a'}, {k: 'o'}}
	keys1 := []string{"", "a", "b"}
	max1 := 2
	if thorough {
		max1 = 3
	}
	f1 := c13containers(leaves1, keys1, max1)

	// depth 2: children are leaves and depth-1 containers over a tiny alphabet
	leaves2 := []*c13doc{c13null(), c13bool(false), c13num("0"), c13str(""), c13str("a")}
	tiny := []*c13doc{c13null(), c13str(""), c13num("0"), {k: 'a'}, {k: 'o'}}
	innerKeys := []string{"a", "b"} // the empty key (whose re-encoding panics) is kept to depth 1 and depth 3 so that it does not mask the rest
	if thorough {
		leaves2 = append(leaves2, c13bool(true), c13num("-1"), c13str("\""))
		innerKeys = []string{"a", "b", "c"}
	}
	m2 := append(append([]*c13doc{}, leaves2...), c13containers(tiny, innerKeys, 2)...)
	var f2 []*c13doc
	for _, d := range c13containersK(m2, []string{"a", "b"}, 2, false) {
		if d.depth() >= 2 {
			f2 = append(f2, d)
		}
	}

	// depth 3: one-child and two-children wrappers around every depth-2 document over a 4-leaf alphabet
	t3 := []*c13doc{c13null(), c13str(""), {k: 'a'}, {k: 'o'}}
	if thorough {
		t3 = append(t3, c13bool(false))
	}
	in3 := append(append([]*c13doc{}, t3...), c13containers(t3, []string{"a"}, 2)...)
	var f3 []*c13doc
	for _, x := range c13containers(in3, []string{"a"}, 2) {
		if x.depth() != 2 {
			continue
		}
		f3 = append(f3,
			&c13doc{k: 'a', kids: []*c13doc{x}},
			&c13doc{k: 'o', kids: []*c13doc{x}, keys: []string{"a"}},
			&c13doc{k: 'a', kids: []*c13doc{x, c13null()}},
			&c13doc{k: 'a', kids: []*c13doc{{k: 'a'}, x}},
			&c13doc{k: 'o', kids: []*c13doc{x, c13num("0")}, keys: []string{"a", ""}},
			&c13doc{k: 'o', kids: []*c13doc{c13num("0"), x}, keys: []string{"a", "a"}},
		)
	}
	return []c13families{{"scalars", f0}, {"depth1", f1}, {"depth2", f2}, {"depth3", f3}}
}

func (c *c13) runDocs() {
	w := c.w
	fams := c13docFamilies(w.Thorough)
	for _, fam := range fams {
		w.Count("documents:"+fam.name, 0)
		for _, d := range fam.docs {
			if !c.mine() {
				continue
			}
			w.Count("documents:"+fam.name, 1)
			for _, base := range c13modes {
				c.docCase(base, d)
			}
			for _, codec := range []string{"json", "yaml"} {
				c.cfgCase(codec, d)
			}
			if fam.name == "depth2" && len(w.SamplesLeft()) > 3 {
				w.Sample("document " + d.text() + " in 4 codec modes: decode, re-encode, reference-parse, re-decode")
			}
		}
	}
	for _, d := range c13jsonRaw() {
		if c.mine() {
			w.Count("documents:json-only", 1)
			c.docCase("json-strict", d)
			c.docCase("json-lax", d)
		}
	}
	for _, d := range c13yamlRaw() {
		if c.mine() {
			w.Count("documents:yaml-only", 1)
			c.docCase("yaml-strict", d)
			c.docCase("yaml-lax", d)
		}
	}
}

// ---------------------------------------------------------------------------------------
// Family 2: values handed to the strict encoders. Either the encoder rejects the value or
// decoding its output gives the value back (up to the strict tags the decoder adds).

var c13probeSrc = []string{
	`(s: 1)`, `(a: 1)`, `(b: 1)`, `(b: {1})`, `(s: [1])`, `(s: "a", x: 1)`, `(v: 1)`, `(x: 1)`, `(a: {1, 2})`, `(a: {"x"})`, `(a: "ab")`, `(a: <<1>>)`, `(a: {1: 2})`,
	`(s: 1\"a")`, `(a: 1\[1])`, `(a: [1,,2])`,
	`{"a": {1, 2}}`, `[{1, 2}]`, `{"a": (x: 1)}`, `(a: [(x: 1)])`, `{1: 2}`, `{(a: 1): 2}`, `{"a": 1, 2: 3}`, `{"": 1}`, `{"a": true}`, `[true]`,
	`0.5`, `1e21`, `-1`, `{"k": "v"}`, `{"k": (s: "v")}`, `[1, "a"]`, `(a: [1, (s: "a"), (b: true), (b: false), (), (s: ""), (a: [])])`, `()`, `[()]`,
	`{"k": {"l": (a: [{}])}}`, `(b: true)`, `(b: false)`, `(s: "")`, `(a: [])`, `{"a": ()}`,
}

func c13vclassTop(m *model.V) string {
	if m.K == model.KTuple && len(m.Names) == 1 {
		switch m.Names[0] {
		case "s", "a", "b":
			return "tuple:tag-" + m.Names[0]
		}
	}
	if m.K == model.KTuple && len(m.Names) == 0 {
		return "tuple:empty"
	}
	if m.K == model.KTuple {
		if _, ok := m.Get("{||}"); ok {
			return "tuple:reserved-attr"
		}
	}
	return c13vclass(m)
}

func (c *c13) rejectCase(base, prog string, v rel.Value, m *model.V) {
	w := c.w
	codec := base[:4]
	wit := func() string { return "//encoding." + codec + ".encode(" + prog + ")" }
	cls := c13vclassTop(m)
	w.Case(func() string { return "value|" + base + "|" + cls + " ## " + wit() }, func() {
		outcome := func(s string) { w.Note("outcomes", "value|"+base+"|"+cls+"|"+s) }
		o := obs.Eval(c.enc[base], obs.Scope("x", v))
		w.Eval(o.Err == nil) // non-trivial: the encoder produced a document (or panicked), so there is something to compare
		if o.Panic != "" {
			w.Fail("panic", c13panic(o.Panic, c13coarse(cls, false)), wit(), "")
			outcome("panic")
			return
		}
		if o.Err != nil {
			outcome("rejected")
			return
		}
		e, ok := c13bytes(o.V)
		if !ok {
			w.Fail("wrong", base+"|encode-value|"+cls+"|result-not-bytes", wit(), fmt.Sprintf("%T", o.V))
			return
		}
		if _, err := c13refParse(codec, e); err != nil {
			w.Fail("wrong", base+"|encode-value|"+cls+"|output-rejected-by-reference-parser", wit(), strconv.Quote(string(e)))
			outcome("unparseable")
			return
		}
		o2 := obs.Eval(c.dec[base], obs.Scope("x", o.V))
		if o2.Panic != "" {
			w.Fail("panic", c13panic(o2.Panic, c13coarse(cls, false)), wit(), "decoding "+strconv.Quote(string(e)))
			return
		}
		if o2.Err != nil {
			w.Fail("wrong", base+"|encode-value|"+cls+"|output-not-decodable|"+c13errMsg(o2.Err), wit(), strconv.Quote(string(e)))
			outcome("undecodable")
			return
		}
		back, err := obs.Denote(o2.V)
		if err != nil {
			w.Fail("wrong", base+"|encode-value|"+cls+"|undenotable", wit(), err.Error())
			return
		}
		if !model.Equal(back, m) && !model.Equal(c13untag(back), c13untag(m)) {
			w.Fail("wrong", base+"|encode-value|"+c13coarse(cls, false)+"|silently-changed", wit(),
				"encoded as "+strconv.Quote(string(e))+", which decodes to "+model.Src(back))
			outcome("changed→" + c13vclassTop(back))
			return
		}
		outcome("round-trips")
	})
}

// ---------------------------------------------------------------------------------------
// Family 3: wire format. Unmarshal(Marshal v) = v.

// wireTrip returns "" if the value survives, else the discrepancy (and a panic signature).
func c13wireTrip(v rel.Value, m *model.V) (disc, panicSig, detail string) {
	var b []byte
	if sig := core.Try(func() { b = rel.MarshalToJSON(v) }); sig != "" {
		return "panic", sig, "MarshalToJSON"
	}
	if !json.Valid(b) {
		return "output-rejected-by-reference-parser", "", string(b)
	}
	var back rel.Value
	var err error
	if sig := core.Try(func() { back, err = rel.UnmarshalFromJSON(b) }); sig != "" {
		return "panic", sig, "UnmarshalFromJSON(" + string(b) + ")"
	}
	if err != nil {
		msg := c13errMsg(err)
		if i := strings.Index(msg, ", not "); i >= 0 {
			msg = msg[:i]
		}
		return "unmarshal-error|" + msg, "", string(b)
	}
	got, derr := obs.Denote(back)
	if derr != nil {
		return "undenotable", "", derr.Error()
	}
	if !model.Equal(got, m) {
		return "becomes|" + c13coarse(c13vclassTop(got), true), "", "wire " + string(b) + " unmarshals to " + model.Src(got)
	}
	return "", "", ""
}

// wireBlame finds the smallest component that does not survive on its own.
func c13wireBlame(v rel.Value, m *model.V, depth int) (cls, disc, panicSig, detail string) {
	if depth < 6 {
		var kids []rel.Value
		switch x := v.(type) {
		case rel.Tuple:
			names := x.Names().OrderedNames()
			for _, n := range names {
				kids = append(kids, x.MustGet(n))
			}
		case rel.Array:
			for _, it := range x.Values() {
				if it != nil {
					kids = append(kids, it)
				}
			}
		}
		for _, kid := range kids {
			km, err := obs.Denote(kid)
			if err != nil {
				continue
			}
			if cl, d, p, det := c13wireBlame(kid, km, depth+1); d != "" {
				return cl, d, p, det
			}
		}
	}
	d, p, det := c13wireTrip(v, m)
	if d == "" {
		return "", "", "", ""
	}
	return c13coarse(c13vclassTop(m), true), d, p, det
}

func (c *c13) wireCase(prog string, v rel.Value, m *model.V, nontrivial bool) {
	w := c.w
	cls := c13vclassTop(m)
	wit := func() string { return "rel.UnmarshalFromJSON(rel.MarshalToJSON(" + prog + "))" }
	w.Case(func() string { return "wire|" + cls + " ## " + wit() }, func() {
		w.Eval(nontrivial)
		bc, disc, psig, detail := c13wireBlame(v, m, 0)
		switch {
		case disc == "":
			w.Note("outcomes", "wire|"+cls+"|round-trips")
		case psig != "":
			w.Fail("panic", psig, wit(), detail)
			w.Note("outcomes", "wire|"+cls+"|panic")
		default:
			w.Fail("wrong", "wire|"+bc+"|"+disc, wit(), detail)
			w.Note("outcomes", "wire|"+bc+"|"+disc)
		}
	})
}

// c13hasSetLike: the value contains something other than numbers and non-empty tuples.
func c13hasSetLike(m *model.V) bool {
	switch m.K {
	case model.KNum:
		return false
	case model.KTuple:
		for _, v := range m.Vals {
			if c13hasSetLike(v) {
				return true
			}
		}
		return false
	}
	return true
}

func (c *c13) runValues() {
	w := c.w
	sp := rsx.New(w, 2)
	sp.BuildGen0()
	w.Count("universe:U2-states", 0)
	for _, st := range sp.States {
		if !c.mine() {
			continue
		}
		w.Count("universe:U2-states", 1)
		c.rejectCase("json-strict", st.Prog, st.V, st.M)
		c.rejectCase("yaml-strict", st.Prog, st.V, st.M)
		c.wireCase(st.Prog, st.V, st.M, st.M.K == model.KSet && len(st.M.Mem) > 0)
	}
	for _, src := range c13probeSrc {
		if !c.mine() {
			continue
		}
		o := obs.Run(src)
		if !o.OK() {
			w.BrokenF("C13 probe %s does not evaluate: %v %s", src, o.Err, o.Panic)
			continue
		}
		m, err := obs.Denote(o.V)
		if err != nil {
			w.BrokenF("C13 probe %s does not denote: %v", src, err)
			continue
		}
		w.Count("universe:encoder-probes", 1)
		c.rejectCase("json-strict", src, o.V, m)
		c.rejectCase("yaml-strict", src, o.V, m)
		c.wireCase(src, o.V, m, c13hasSetLike(m))
	}
	// nested tuples/arrays/strings/numbers/booleans: the fragment the wire format claims to carry
	leaves := []*c13doc{c13null(), c13bool(true), c13bool(false), c13num("0"), c13num("0.5"), c13num("-1"), c13num("1e21"), c13str(""), c13str("a"), c13str("é\"\\\n😀"),
		{k: 'a'}}
	keys := []string{"a", "b", ""}
	max1 := 2
	if w.Thorough {
		max1 = 3
	}
	var docs []*c13doc
	docs = append(docs, c13scalars()...)
	d1 := c13containers(leaves, keys, max1)
	docs = append(docs, d1...)
	tiny := []*c13doc{c13null(), c13bool(true), c13num("1"), c13str("a"), {k: 'a'}}
	in2 := append(append([]*c13doc{}, tiny...), c13containers(tiny, []string{"a", ""}, 2)...)
	for _, d := range c13containers(in2, []string{"a", "b"}, 2) {
		if d.depth() == 2 {
			docs = append(docs, d)
		}
	}
	// the attribute name the wire format reserves for sets
	for _, x := range leaves {
		t := &c13doc{k: 'o', kids: []*c13doc{x}, keys: []string{"{||}"}}
		docs = append(docs, t,
			&c13doc{k: 'o', kids: []*c13doc{x, c13num("1")}, keys: []string{"{||}", "a"}},
			&c13doc{k: 'a', kids: []*c13doc{t}},
			&c13doc{k: 'o', kids: []*c13doc{t}, keys: []string{"a"}})
	}
	docs = append(docs, &c13doc{k: 'o', kids: []*c13doc{{k: 'a', kids: []*c13doc{c13num("1")}}}, keys: []string{"{||}"}})
	seen := map[string]bool{}
	for _, d := range docs {
		if d.k == 'o' && len(d.kids) == 0 { // {} is the empty array here; the empty tuple is null
			continue
		}
		if d.hasDupKey() || seen[d.text()] {
			continue
		}
		seen[d.text()] = true
		if !c.mine() {
			continue
		}
		v, m := d.wireValue()
		got, err := obs.Denote(v)
		if err != nil || !model.Equal(got, m) {
			w.BrokenF("C13 wire value %s: constructed value does not denote its model", d.wireSrc())
			continue
		}
		w.Count("universe:wire-nested", 1)
		c.wireCase(d.wireSrc(), v, m, c13hasSetLike(m))
	}
}

// ---------------------------------------------------------------------------------------
// Family 4: CSV. decode(encode M) = M for every matrix of strings.

var c13fields = []string{"", "a", ",", "\"", "\n", " a ", "é", "x\r\ny"}

func c13matrixClass(mx [][]string) string {
	if len(mx) == 0 {
		return "no-rows"
	}
	if len(mx[0]) == 0 {
		return "rows-without-columns"
	}
	cr := false
	for _, row := range mx {
		if len(row) == 1 && row[0] == "" {
			return "row-of-one-empty-field"
		}
		for _, f := range row {
			if strings.Contains(f, "\r") {
				cr = true
			}
		}
	}
	if cr {
		return "field-with-carriage-return"
	}
	return "plain"
}

func c13matrixSrc(mx [][]string) string {
	rows := make([]string, len(mx))
	for i, r := range mx {
		fs := make([]string, len(r))
		for j, f := range r {
			fs[j] = strconv.Quote(f)
		}
		rows[i] = "[" + strings.Join(fs, ", ") + "]"
	}
	return "[" + strings.Join(rows, ", ") + "]"
}

func (c *c13) csvCase(cfg string, mx [][]string) {
	w := c.w
	wit := func() string {
		enc := "//encoding.csv.encode"
		if cfg == "crlf" {
			enc = "//encoding.csv.encoder((crlf: true))"
		}
		return "//encoding.csv.decode(" + enc + "(" + c13matrixSrc(mx) + "))"
	}
	cls := c13matrixClass(mx)
	w.Case(func() string { return "csv|" + cfg + "|" + cls + " ## " + wit() }, func() {
		rows := make([]rel.Value, len(mx))
		mrows := make([]*model.V, len(mx))
		nontrivial := len(mx) == 0
		for i, r := range mx {
			fs := make([]rel.Value, len(r))
			ms := make([]*model.V, len(r))
			if len(r) == 0 {
				nontrivial = true
			}
			for j, f := range r {
				fs[j] = rel.NewString([]rune(f))
				ms[j] = model.Str(f, 0)
				if f == "" || strings.ContainsAny(f, ",\"\n\r") || strings.HasPrefix(f, " ") {
					nontrivial = true
				}
			}
			rows[i] = rel.NewArray(fs...)
			mrows[i] = model.Arr(0, ms...)
		}
		want := model.Arr(0, mrows...)
		w.Eval(nontrivial)
		sig := "csv|" + cls + "|"
		outcome := func(s string) { w.Note("outcomes", "csv|"+cfg+"|"+cls+"|"+s) }
		o1 := obs.Eval(c.csvEnc[cfg], obs.Scope("x", rel.NewArray(rows...)))
		if o1.Panic != "" {
			w.Fail("panic", c13panic(o1.Panic, ""), wit(), "encode")
			return
		}
		if o1.Err != nil {
			w.Fail("wrong", sig+"encode-error|"+c13errMsg(o1.Err), wit(), "")
			outcome("encode-error")
			return
		}
		e, ok := c13bytes(o1.V)
		if !ok {
			w.Fail("wrong", sig+"result-not-bytes", wit(), fmt.Sprintf("%T", o1.V))
			return
		}
		// reference parser on the encoded document
		rd := csv.NewReader(bytes.NewReader(e))
		rd.FieldsPerRecord = -1
		refRows, err := rd.ReadAll()
		if err != nil {
			w.Fail("wrong", sig+"output-rejected-by-reference-parser", wit(), strconv.Quote(string(e)))
			outcome("unparseable")
			return
		}
		if !c13sameRows(refRows, mx) {
			w.Fail("wrong", sig+"encoded-document-has-other-rows", wit(), "encoded as "+strconv.Quote(string(e))+", which reads as "+c13matrixSrc(refRows))
			outcome("encoded-other-rows")
			return
		}
		o2 := obs.Eval(c.csvDec, obs.Scope("x", o1.V))
		if o2.Panic != "" {
			w.Fail("panic", c13panic(o2.Panic, ""), wit(), "decode")
			return
		}
		if o2.Err != nil {
			w.Fail("wrong", sig+"decode-error|"+c13errMsg(o2.Err), wit(), "encoded as "+strconv.Quote(string(e)))
			outcome("decode-error")
			return
		}
		got, derr := obs.Denote(o2.V)
		if derr != nil || !model.Equal(got, want) {
			w.Fail("wrong", sig+"decoded-rows-differ", wit(), "encoded as "+strconv.Quote(string(e))+", decoded as "+o2.V.String())
			outcome("rows-differ")
			return
		}
		outcome("round-trips")
	})
}

// csvDocCase: a CSV document (not produced by the encoder). decode d has the rows the
// reference reader (encoding/csv, default configuration) finds; a document the reference
// rejects is rejected; decode(encode(decode d)) = decode d.
func (c *c13) csvDocCase(d string) {
	w := c.w
	wit := func() string { return "//encoding.csv.decode(" + strconv.Quote(d) + ")" }
	cls := "plain"
	if d == "" {
		cls = "empty-document"
	}
	w.Case(func() string { return "csv-doc|" + cls + " ## " + wit() }, func() {
		rd := csv.NewReader(strings.NewReader(d))
		refRows, refErr := rd.ReadAll()
		w.Eval(refErr == nil && strings.ContainsAny(d, "\", \n"))
		sig := "csv-doc|" + cls + "|"
		outcome := func(s string) { w.Note("outcomes", "csv-doc|"+cls+"|"+s) }
		o1 := obs.Eval(c.csvDec, obs.Scope("x", rel.NewBytes([]byte(d))))
		if o1.Panic != "" {
			w.Fail("panic", c13panic(o1.Panic, ""), wit(), "decode")
			return
		}
		if refErr != nil {
			if o1.Err == nil {
				w.Fail("wrong", sig+"accepts-what-the-reference-parser-rejects", wit(), refErr.Error())
				return
			}
			outcome("invalid-rejected")
			return
		}
		if o1.Err != nil {
			w.Fail("wrong", sig+"decode-error|"+c13errMsg(o1.Err), wit(), "")
			outcome("decode-error")
			return
		}
		mrows := make([]*model.V, len(refRows))
		for i, r := range refRows {
			ms := make([]*model.V, len(r))
			for j, f := range r {
				ms[j] = model.Str(f, 0)
			}
			mrows[i] = model.Arr(0, ms...)
		}
		want := model.Arr(0, mrows...)
		got, derr := obs.Denote(o1.V)
		if derr != nil || !model.Equal(got, want) {
			w.Fail("wrong", sig+"rows-differ-from-reference", wit(), "decoded as "+o1.V.String()+", reference reads "+c13matrixSrc(refRows))
			outcome("rows-differ-from-reference")
			return
		}
		mc := c13matrixClass(refRows)
		o2 := obs.Eval(c.csvEnc["lf"], obs.Scope("x", o1.V))
		if o2.Panic != "" {
			w.Fail("panic", c13panic(o2.Panic, ""), wit(), "encode(decode d)")
			return
		}
		if o2.Err != nil {
			w.Fail("wrong", sig+"reencode-error|"+c13errMsg(o2.Err), wit(), "")
			return
		}
		o3 := obs.Eval(c.csvDec, obs.Scope("x", o2.V))
		if o3.Panic != "" {
			w.Fail("panic", c13panic(o3.Panic, ""), wit(), "decode(encode(decode d))")
			return
		}
		if o3.Err != nil {
			w.Fail("wrong", "csv|"+mc+"|decode-error|"+c13errMsg(o3.Err), wit(), "")
			outcome("redecode-error")
			return
		}
		got3, derr := obs.Denote(o3.V)
		if derr != nil || !model.Equal(got3, want) {
			w.Fail("wrong", "csv|"+mc+"|decoded-rows-differ", wit(), "decode d = "+o1.V.String()+", decode(encode(decode d)) = "+o3.V.String())
			outcome("redecode-differs")
			return
		}
		outcome("round-trips")
	})
}

func c13sameRows(a, b [][]string) bool {
	if len(a) != len(b) {
		return false
	}
	for i := range a {
		if len(a[i]) != len(b[i]) {
			return false
		}
		for j := range a[i] {
			if a[i][j] != b[i][j] {
				return false
			}
		}
	}
	return true
}

// c13matrices: all r x c matrices over fields.
func c13matrices(r, cols int, fields []string, visit func([][]string)) {
	n := r * cols
	idx := make([]int, n)
	for {
		mx := make([][]string, r)
		for i := 0; i < r; i++ {
			mx[i] = make([]string, cols)
			for j := 0; j < cols; j++ {
				mx[i][j] = fields[idx[i*cols+j]]
			}
		}
		visit(mx)
		p := n - 1
		for p >= 0 {
			idx[p]++
			if idx[p] < len(fields) {
				break
			}
			idx[p] = 0
			p--
		}
		if p < 0 {
			return
		}
	}
}

func (c *c13) runCSV() {
	w := c.w
	type shape struct {
		r, c   int
		fields []string
	}
	shapes := []shape{{0, 0, nil}, {1, 0, nil}, {2, 0, nil}, {1, 1, c13fields}, {1, 2, c13fields}, {2, 1, c13fields}, {2, 2, c13fields}}
	if w.Thorough {
		small := c13fields[:4]
		shapes = append(shapes, shape{3, 0, nil}, shape{1, 3, c13fields}, shape{3, 1, c13fields}, shape{2, 3, c13fields}, shape{3, 2, c13fields}, shape{3, 3, small})
	}
	for _, sh := range shapes {
		visit := func(mx [][]string) {
			if !c.mine() {
				return
			}
			w.Count(fmt.Sprintf("csv-matrices:%dx%d", sh.r, sh.c), 1)
			c.csvCase("lf", mx)
			c.csvCase("crlf", mx)
		}
		if sh.r*sh.c == 0 {
			visit(make([][]string, sh.r))
			continue
		}
		c13matrices(sh.r, sh.c, sh.fields, visit)
	}
	// CSV documents: every text of length <= 5 (quick) / <= 7 (thorough) over 6 characters
	alpha := []string{"a", ",", "\"", "\n", " ", "\r"}
	maxLen := 5
	if w.Thorough {
		maxLen = 7
	}
	texts := []string{""}
	prev := []string{""}
	for l := 1; l <= maxLen; l++ {
		var next []string
		for _, p := range prev {
			for _, a := range alpha {
				next = append(next, p+a)
			}
		}
		texts = append(texts, next...)
		prev = next
	}
	for _, d := range texts {
		if c.mine() {
			w.Count("csv-documents", 1)
			c.csvDocCase(d)
		}
	}
}

// ---------------------------------------------------------------------------------------
// Family 5: //bits. set(mask s) = s, mask(set n) = n, both equal to integer arithmetic.

func (c *c13) bitsSetCase(positions []int) {
	w := c.w
	parts := make([]string, len(positions))
	vals := make([]rel.Value, len(positions))
	mem := make([]*model.V, len(positions))
	var total uint64
	for i, p := range positions {
		parts[i] = strconv.Itoa(p)
		vals[i] = rel.NewNumber(float64(p))
		mem[i] = model.Num(float64(p))
		total |= 1 << uint(p)
	}
	src := "{" + strings.Join(parts, ", ") + "}"
	cls := "low-bits"
	if len(positions) > 0 && positions[len(positions)-1] >= 31 {
		cls = "high-bits"
	}
	w.Case(func() string { return "bits|mask|" + cls + " ## //bits.set(//bits.mask(" + src + "))" }, func() {
		w.Eval(len(positions) > 0)
		s := rel.MustNewSet(vals...)
		want := model.Set(mem...)
		o := obs.Eval(c.bitsMask, obs.Scope("x", s))
		if !c.bitsOK(o, model.Num(float64(total)), "bits|mask|"+cls, "//bits.mask("+src+")") {
			return
		}
		o2 := obs.Eval(c.bitsSet, obs.Scope("x", o.V))
		if !c.bitsOK(o2, want, "bits|set-of-mask|"+cls, "//bits.set(//bits.mask("+src+"))") {
			return
		}
		w.Note("outcomes", "bits|mask|"+cls+"|inverse")
	})
}

func (c *c13) bitsOK(o obs.Outcome, want *model.V, sig, wit string) bool {
	w := c.w
	switch {
	case o.Panic != "":
		w.Fail("panic", c13panic(o.Panic, ""), wit, "")
		return false
	case o.Err != nil:
		w.Fail("wrong", sig+"|error|"+c13errMsg(o.Err), wit, "")
		return false
	}
	got, err := obs.Denote(o.V)
	if err != nil || !model.Equal(got, want) {
		g := "undenotable"
		if err == nil {
			g = model.Src(got)
		}
		w.Fail("wrong", sig+"|wrong-result", wit, "got "+g+" want "+model.Src(want))
		return false
	}
	return true
}

func (c *c13) bitsNumCase(n uint64) {
	w := c.w
	cls := "below-2^31"
	if n >= 1<<31 {
		cls = "2^31-and-above"
	}
	src := strconv.FormatUint(n, 10)
	w.Case(func() string { return "bits|set|" + cls + " ## //bits.mask(//bits.set(" + src + "))" }, func() {
		w.Eval(n > 0)
		var mem []*model.V
		for i := 0; i < 64; i++ {
			if n&(1<<uint(i)) != 0 {
				mem = append(mem, model.Num(float64(i)))
			}
		}
		o := obs.Eval(c.bitsSet, obs.Scope("x", rel.NewNumber(float64(n))))
		if !c.bitsOK(o, model.Set(mem...), "bits|set|"+cls, "//bits.set("+src+")") {
			return
		}
		o2 := obs.Eval(c.bitsMask, obs.Scope("x", o.V))
		if !c.bitsOK(o2, model.Num(float64(n)), "bits|mask-of-set|"+cls, "//bits.mask(//bits.set("+src+"))") {
			return
		}
		w.Note("outcomes", "bits|set|"+cls+"|inverse")
	})
}

func c13subsets(universe []int, visit func([]int)) {
	for mask := 0; mask < 1<<len(universe); mask++ {
		var s []int
		for i, p := range universe {
			if mask&(1<<i) != 0 {
				s = append(s, p)
			}
		}
		visit(s)
	}
}

func (c *c13) runBits() {
	w := c.w
	low := []int{0, 1, 2, 3, 4, 5, 6, 7, 8, 9, 10, 11, 12}
	high := []int{0, 1, 2, 12, 30, 31, 32, 33, 51, 52}
	maxN := uint64(4096)
	if w.Thorough {
		low = append(low, 13, 14, 15)
		high = []int{0, 1, 2, 12, 15, 16, 30, 31, 32, 33, 47, 48, 51, 52}
		maxN = 1 << 17
	}
	c13subsets(low, func(s []int) {
		if c.mine() {
			w.Count("bits:position-sets", 1)
			c.bitsSetCase(s)
		}
	})
	c13subsets(high, func(s []int) {
		if c.mine() {
			w.Count("bits:position-sets", 1)
			c.bitsSetCase(s)
		}
	})
	for n := uint64(0); n <= maxN; n++ {
		if c.mine() {
			w.Count("bits:integers", 1)
			c.bitsNumCase(n)
		}
	}
	var edge []uint64
	for _, e := range []uint{31, 32, 33, 48, 52, 53} {
		for d := uint64(0); d <= 2; d++ {
			edge = append(edge, 1<<e-d)
			if e < 53 && d > 0 {
				edge = append(edge, 1<<e+d)
			}
		}
	}
	sort.Slice(edge, func(i, j int) bool { return edge[i] < edge[j] })
	for _, n := range edge {
		if n >= 1<<53 { // property: integers < 2^53
			continue
		}
		if c.mine() {
			w.Count("bits:integers", 1)
			c.bitsNumCase(n)
		}
	}
}

func checkC13(w *core.W) {
	c := newC13(w)
	c.runBits()
	c.runCSV()
	c.runValues()
	c.runDocs()
	c13EncoderReuse(w)
}

// c13EncoderReuse: one configured encoder applied to several documents in one evaluation
// must give, for each, exactly what a fresh encoder gives (an encoder must not keep state -
// a shared output buffer, say - between calls; earlier results must not change).
func c13EncoderReuse(w *core.W) {
	docs := []string{`{"k": "v"}`, `[true, null]`, `"s"`, `[1, 2, 3]`, `{"a": {"b": [1]}}`, `0`}
	encoders := []string{"//encoding.json.encoder(())", "//encoding.json.encoder((strict: false))", "//encoding.json.encode",
		"//encoding.yaml.encoder(())", "//encoding.yaml.encode", "//encoding.json.encoder((indent: '  '))"}
	k := 0
	for _, enc := range encoders {
		dec := "//encoding.json.decode"
		if strings.Contains(enc, "strict: false") {
			dec = "//encoding.json.decoder((strict: false))"
		}
		for i, a := range docs {
			for j, b := range docs {
				k++
				if !w.Mine(k) {
					continue
				}
				enc, dec, a, b, i, j := enc, dec, a, b, i, j
				w.Case(func() string {
					return "encoder-reuse|" + enc + " ## one encoder on documents " + a + " and " + b
				}, func() {
					shared := obs.Run("let e = " + enc + "; let d = " + dec + "; let x = e(d('" + a + "')); let y = e(d('" + b + "')); let z = e(d('" + a + "')); [x, y, z]")
					fresh := obs.Run("[" + enc + "(" + dec + "('" + a + "')), " + enc + "(" + dec + "('" + b + "')), " + enc + "(" + dec + "('" + a + "'))]")
					w.Eval(i != j)
					if shared.Panic != "" || fresh.Panic != "" {
						return // crashes are reported by the document families
					}
					ks, kf := "error", "error"
					if shared.OK() {
						ks = fu.Repr(shared.V)
					}
					if fresh.OK() {
						kf = fu.Repr(fresh.V)
					}
					if ks != kf {
						w.Fail("wrong", "encoder-reuse|"+strings.SplitN(strings.TrimPrefix(enc, "//encoding."), ".", 2)[0]+"|results-differ-from-fresh-encoder", "let e = "+enc+"; [e(d("+a+")), e(d("+b+")), e(d("+a+"))]", ks+"  vs fresh  "+kf)
					}
				})
			}
		}
	}
}

var C13 = core.Check{
	ID: "C13", Level: "exploration", Fn: checkC13, Watchdog: 60 * time.Second,
	Rule: "JSON/YAML: every document of a finite grammar (null, booleans, 5 numbers, all strings of length<=2 over 12 runes + 29 YAML-sensitive strings, arrays/objects of <=2 (quick) / <=3 (thorough) children to depth 3 with empty containers, empty and duplicate keys, plus JSON-only and YAML-only spellings) x {json,yaml} x {strict,lax} (and decoder(())/encoder(()) against decode/encode: same outcome): decode, re-encode, parse the output with Go's encoding/json / yaml.v3 and compare content, decode again and compare values; non-trivial = the reference parser accepts the document and it contains an empty string/array/object, null or boolean (the kinds the translators special-case). " +
		"Strict encoders on every state of the U2 representation space and 40 probes: reject, or decode(encode v) = v up to strict tags; non-trivial = a document was produced. " +
		"Wire format: Unmarshal(Marshal v) = v on U2 and on every nested tuple/array/string/number/boolean value of the grammar; non-trivial = the value contains a set-like component. " +
		"CSV: every r x c matrix (r,c<=2 quick; <=3 thorough) over 8 fields x {lf,crlf}: reference-parse the output, decode, compare rows; non-trivial = a field is empty or needs quoting, or there are no rows/columns; and every CSV text of length<=5 (quick) / <=7 (thorough) over {a , \" \\n space \\r}: decode agrees with encoding/csv (rows or rejection) and decode(encode(decode d)) = decode d; non-trivial = the reference accepts it and it contains a separator, quote or newline. " +
		"//bits: every subset of {0..12} and of {0,1,2,12,30,31,32,33,51,52}, every integer 0..4096 and the neighbours of 2^31, 2^32, 2^33, 2^48, 2^52, 2^53 below 2^53, against integer arithmetic; non-trivial = non-empty set / n>0",
	Assume: []string{
		"reference parsers: Go encoding/json, gopkg.in/yaml.v3 (first document), encoding/csv; content = the parsed tree with numbers as float64 and map keys tagged by type",
		"the server wire format is observed at rel.MarshalToJSON / rel.UnmarshalFromJSON, the only transformation between engine value and observer (gRPC and websocket transports are not run)",
		"lax (strict:false) encoders are exercised on decoded documents only; arbitrary values are given to the strict (default) encoders",
	},
}
