package checks

import (
	"math"
	"strings"

	"github.com/arr-ai/arrai/rel"

	"verif/harness/core"
	"verif/harness/model"
	"verif/harness/obs"
	"verif/harness/rsx"
)

// C05: keyed collections act as functions; >>, >>>, ++ and offsets keep keys right.
//
// Operands are the states of the reachable-representation space (so every keyed collection
// occurs in every representation the evaluator can produce: offsets, holes, duplicate keys,
// union sets, relations, generic sets). The reference model works on the denoted set of
// (@: key, X: value) pairs only.

type c05Pair struct {
	k, v *model.V
	attr string
	t    *model.V
}

// pairsOf returns the (@, x) pairs of a set, ok=false if some member is not such a pair.
func pairsOf(m *model.V) (ps []c05Pair, ok bool) {
	if m.K != model.KSet {
		return nil, false
	}
	for _, t := range m.Mem {
		if t.K != model.KTuple || len(t.Names) != 2 {
			return nil, false
		}
		switch {
		case t.Names[0] == "@":
			ps = append(ps, c05Pair{k: t.Vals[0], v: t.Vals[1], attr: t.Names[1], t: t})
		case t.Names[1] == "@": // the other attribute's name sorts before "@" (e.g. $v)
			ps = append(ps, c05Pair{k: t.Vals[1], v: t.Vals[0], attr: t.Names[0], t: t})
		default:
			return nil, false
		}
	}
	return ps, true
}

// callModel: the distinct values paired with key k.
func callModel(ps []c05Pair, k *model.V) []*model.V {
	var out []*model.V
	seen := map[string]bool{}
	for _, p := range ps {
		if model.Equal(p.k, k) && !seen[p.v.Enc()] {
			seen[p.v.Enc()] = true
			out = append(out, p.v)
		}
	}
	return out
}

func isIntNum(v *model.V) bool { return v.K == model.KNum && v.N == math.Trunc(v.N) }

type c05Fn struct {
	src   string // arr.ai source of the operator applied to x
	withK bool
	f     func(k, v *model.V) (*model.V, bool) // ok=false: the function fails
}

var c05Fns = []c05Fn{
	{"x >> \\v v", false, func(_, v *model.V) (*model.V, bool) { return v, true }},
	{"x >> 7", false, func(_, v *model.V) (*model.V, bool) { return model.Num(7), true }},
	{"x >> . + 1", false, func(_, v *model.V) (*model.V, bool) {
		if v.K != model.KNum {
			return nil, false
		}
		return model.Num(v.N + 1), true
	}},
	{"x >>> \\i \\v v", true, func(_, v *model.V) (*model.V, bool) { return v, true }},
	{"x >>> \\i \\v i", true, func(k, _ *model.V) (*model.V, bool) { return k, true }},
}

var c05ArgSrc = []string{"0", "1", "2", "3", "-1", "0.5", `"a"`, "()", "{}", `97`}
var c05Offsets = []float64{-2, -1, 0, 1, 2}

func checkC05(w *core.W) {
	sp := rsx.New(w, 2)
	sp.BuildGen0()
	ex := rsx.NewExpander(sp)
	if w.Round == 0 {
		ex.Discover(1, 0, nil)
		return
	}
	ex.OnePerClass = w.Quick()
	ex.LoadRecipes(w.Prev["newstates"])
	if w.Shard == 0 {
		w.AddStates(len(sp.States))
		w.SetExtra("space", sp.Describe())
	}
	call := obs.MustCompile("x(k)")
	callFb := obs.MustCompile(`x(k)?:"fallback"`)
	concat := obs.MustCompile("a ++ b")
	fnExpr := make([]rel.Expr, len(c05Fns))
	for i, f := range c05Fns {
		fnExpr[i] = obs.MustCompile(f.src)
	}
	offExpr := obs.MustCompile("n\\x")
	type arg struct {
		src string
		v   rel.Value
		m   *model.V
	}
	var fixedArgs []arg
	for _, s := range c05ArgSrc {
		o := obs.Run(s)
		m, _ := obs.Denote(o.V)
		fixedArgs = append(fixedArgs, arg{s, o.V, m})
	}
	fallback := model.Str("fallback", 0)

	// judge one outcome against (want value | wantErr); dontCare=true accepts anything but a crash
	judge := func(op, cls, taint string, o obs.Outcome, want *model.V, wantErr, dontCare bool, wit func() string) {
		sigOf := func(class, kind string) string {
			if taint != "" {
				return "taint:" + taint + "|" + class + "|" + op + "|" + kind
			}
			return op + "|" + cls + "|" + kind
		}
		switch {
		case o.Panic != "":
			if taint != "" {
				w.Fail("panic", "taint:"+taint+"|panic|"+o.Panic, wit(), "")
			} else {
				w.Fail("panic", o.Panic, wit(), "")
			}
		case dontCare:
		case o.Err != nil:
			if !wantErr {
				w.Fail("wrong", sigOf("wrong", "error-instead-of-value"), wit(), core.NormMsg(o.Err.Error())+" want "+model.Src(want))
			}
		case wantErr:
			got, _ := obs.Denote(o.V)
			g := "?"
			if got != nil {
				g = model.Src(got)
			}
			w.Fail("wrong", sigOf("wrong", "value-instead-of-error"), wit(), "got "+g)
		default:
			got, err := obs.Denote(o.V)
			switch {
			case err != nil:
				w.Fail("corrupt-result", sigOf("corrupt-result", "undenotable"), wit(), err.Error())
			case !model.Equal(got, want):
				w.Fail("wrong", sigOf("wrong", diffKind(got, want)), wit(), "got "+model.Src(got)+" want "+model.Src(want))
			default:
				if bad := obs.SelfCheck(o.V, got, nil); bad != "" {
					w.Fail("corrupt-result", sigOf("corrupt-result", bad), wit(), "")
				}
			}
		}
	}

	var keyed []*rsx.State
	for _, s := range sp.States {
		if _, ok := pairsOf(s.M); ok && s.IsSet() {
			keyed = append(keyed, s)
		}
	}
	w.Count("keyed_states_per_worker", int64(len(keyed)))
	for i, c := range sp.States {
		if !w.Mine(i) || !c.IsSet() {
			continue
		}
		c := c
		ps, isKeyed := pairsOf(c.M)
		taintC := model.Taint(c.M)
		w.Case(func() string { return "keyed|" + c.Class + " ## call / >> / >>> / offset on (" + c.Prog + ")" }, func() {
			// ---- calls
			args := append([]arg{}, fixedArgs...)
			seen := map[string]bool{}
			for _, a := range args {
				seen[a.m.Enc()] = true
			}
			if isKeyed {
				for e := c.V.(rel.Set).Enumerator(); e.MoveNext(); {
					if t, ok := e.Current().(rel.Tuple); ok {
						if k, has := t.Get("@"); has {
							if km, err := obs.Denote(k); err == nil && !seen[km.Enc()] {
								seen[km.Enc()] = true
								args = append(args, arg{model.Src(km), k, km})
							}
						}
					}
				}
			}
			for _, a := range args {
				a := a
				var res []*model.V
				if isKeyed {
					res = callModel(ps, a.m)
				}
				o := obs.Eval(call, obs.Scope("x", c.V, "k", a.v))
				w.AddTransitions(1)
				w.Eval(isKeyed && len(res) > 0)
				var want *model.V
				if len(res) == 1 {
					want = res[0]
				}
				judge("call", c.Class, taintC, o, want, len(res) != 1, !isKeyed || c.M.Count() == 0, func() string { return "(" + c.Prog + ")(" + a.src + ")" })
				o = obs.Eval(callFb, obs.Scope("x", c.V, "k", a.v))
				w.AddTransitions(1)
				switch len(res) {
				case 0:
					want = fallback
				case 1:
					want = res[0]
				}
				judge("call?:", c.Class, taintC, o, want, len(res) > 1, !isKeyed || c.M.Count() == 0, func() string { return "(" + c.Prog + ")(" + a.src + `)?:"fallback"` })
			}
			// ---- element transformers
			for fi, f := range c05Fns {
				f := f
				var out []*model.V
				fails, awkward := false, false
				if isKeyed {
					for _, p := range ps {
						nv, ok := f.f(p.k, p.v)
						if !ok {
							fails = true
							break
						}
						if (p.attr == "@char" || p.attr == "@byte") && !(isIntNum(nv) && nv.N >= 0 && (p.attr == "@char" || nv.N <= 255)) {
							awkward = true // result not representable as a char/byte: either answer accepted
						}
						out = append(out, model.Tup("@", p.k, p.attr, nv))
					}
				}
				o := obs.Eval(fnExpr[fi], obs.Scope("x", c.V))
				w.AddTransitions(1)
				w.Eval(isKeyed && len(ps) > 0)
				want := model.Set(out...)
				judge(strings.Fields(f.src)[1]+" "+strings.Join(strings.Fields(f.src)[2:], " "), c.Class, model.Taint(c.M, want), o, want, fails, !isKeyed || awkward, func() string { return strings.Replace(f.src, "x", "("+c.Prog+")", 1) })
			}
			// ---- offsets: defined for sequences (one element kind, integer indices)
			isSeq := isKeyed && len(ps) > 0
			for _, p := range ps {
				if p.attr != ps[0].attr || (p.attr != "@item" && p.attr != "@char" && p.attr != "@byte") || !isIntNum(p.k) {
					isSeq = false
				}
			}
			for _, n := range c05Offsets {
				n := n
				var out []*model.V
				if isSeq {
					for _, p := range ps {
						out = append(out, model.Tup("@", model.Num(p.k.N+n), p.attr, p.v))
					}
				}
				o := obs.Eval(offExpr, obs.Scope("x", c.V, "n", rel.NewNumber(n)))
				w.AddTransitions(1)
				w.Eval(isSeq)
				// a sequence in a non-sequence representation may be refused (error) but must not be shifted wrongly
				dontCare := !isSeq
				if isSeq && o.Err != nil && taintC == "" {
					w.Fail("wrong", "offset|"+c.Class+"|sequence-refused", model.Src(model.Num(n))+"\\("+c.Prog+")", core.NormMsg(o.Err.Error()))
					continue
				}
				judge("offset", c.Class, taintC, o, model.Set(out...), false, dontCare || o.Err != nil, func() string { return model.Src(model.Num(n)) + "\\(" + c.Prog + ")" })
			}
			if o := obs.Eval(offExpr, obs.Scope("x", c.V, "n", rel.NewNumber(0.5))); isSeq {
				w.AddTransitions(1)
				judge("offset-nonint", c.Class, taintC, o, nil, true, false, func() string { return "0.5\\(" + c.Prog + ")" })
			}
			// ---- concatenation with every keyed right operand (and every non-keyed one: must fail)
			for _, b := range sp.States {
				if !b.IsSet() {
					continue
				}
				b := b
				bps, bKeyed := pairsOf(b.M)
				numeric := bKeyed
				for _, p := range bps {
					if p.k.K != model.KNum {
						numeric = false
					}
				}
				var want *model.V
				if numeric {
					out := append([]*model.V{}, c.M.Mem...)
					for _, p := range bps {
						out = append(out, model.Tup("@", model.Num(p.k.N+float64(c.M.Count())), p.attr, p.v))
					}
					want = model.Set(out...)
				}
				o := obs.Eval(concat, obs.Scope("a", c.V, "b", b.V))
				w.AddTransitions(1)
				w.Eval(numeric && c.M.Count() > 0 && b.M.Count() > 0)
				taint := model.Taint(c.M, b.M, want)
				judge("++", c.Class+"|"+b.Class, taint, o, want, !numeric, false, func() string { return "(" + c.Prog + ") ++ (" + b.Prog + ")" })
			}
		})
	}
	// ---- dictionaries in which one key has several values. The state space quarantines them (Dict.Count
	// counts keys, a recorded finding), so they get their own pass here, judged on members only: a call with
	// the repeated key is an error with and without ?:, other keys answer, >> and >>> keep every (key, value) pair.
	if w.Shard == 0 && w.Round > 0 {
		multi := []string{
			`{|@, @value| (1, 2), (1, 3), (2, 9)}`, `{1: 2} | {1: 3}`, `{1: 2} with (@: 1, @value: 3)`, `{1: 2, 2: 9} with (@: 1, @value: 3)`,
			`{"a": 1} | {"a": 2} | {"b": 3}`, `{|@, @value| (1, 2), (1, 3), (1, 4)}`, `{1: 2, 2: 9} | {1: 3, 2: 8}`,
		}
		for _, src := range multi {
			src := src
			w.Case(func() string { return "keyed-multi ## call / >> / >>> on " + src }, func() {
				c := obs.Run(src)
				if !c.OK() {
					w.Fail("wrong", "multi-dict|operand-does-not-evaluate", src, "")
					return
				}
				cm, err := obs.Denote(c.V)
				ps, ok := pairsOf(cm)
				if err != nil || !ok {
					w.Fail("wrong", "multi-dict|operand-not-a-set-of-pairs", src, "")
					return
				}
				cmpMembers := func(op string, o obs.Outcome, want *model.V, wantErr bool) {
					w.Eval(true)
					w.AddTransitions(1)
					wit := strings.Replace(op, "x", "("+src+")", 1)
					switch {
					case o.Panic != "":
						w.Fail("panic", "multi-dict|"+o.Panic, wit, "")
					case o.Err != nil:
						if !wantErr {
							w.Fail("wrong", "multi-dict|"+op+"|error-instead-of-value", wit, core.NormMsg(o.Err.Error()))
						}
					case wantErr:
						w.Fail("wrong", "multi-dict|"+op+"|value-instead-of-error", wit, "")
					default:
						if got, err := obs.Denote(o.V); err != nil || !model.Equal(got, want) {
							g := "?"
							if got != nil {
								g = model.Src(got)
							}
							w.Fail("wrong", "multi-dict|"+op+"|wrong-value", wit, "got "+g+" want "+model.Src(want))
						}
					}
				}
				keys := map[string]*model.V{}
				for _, p := range ps {
					keys[p.k.Enc()] = p.k
				}
				keys["absent"] = model.Num(77)
				for _, k := range keys {
					res := callModel(ps, k)
					kv, _ := c9build(k)
					var want *model.V
					if len(res) == 1 {
						want = res[0]
					}
					cmpMembers("x("+model.Src(k)+")", obs.Eval(call, obs.Scope("x", c.V, "k", kv)), want, len(res) != 1)
					if len(res) == 0 {
						want = fallback
					}
					cmpMembers("x("+model.Src(k)+`)?:"fallback"`, obs.Eval(callFb, obs.Scope("x", c.V, "k", kv)), want, len(res) > 1)
				}
				for fi, f := range c05Fns {
					var out []*model.V
					fails := false
					for _, p := range ps {
						nv, ok := f.f(p.k, p.v)
						if !ok {
							fails = true
							break
						}
						out = append(out, model.Tup("@", p.k, p.attr, nv))
					}
					cmpMembers(f.src, obs.Eval(fnExpr[fi], obs.Scope("x", c.V)), model.Set(out...), fails)
				}
			})
		}
	}
	if w.Shard == 0 && len(keyed) > 2 {
		w.Sample(map[string]string{"keyed_state": keyed[len(keyed)/2].Prog, "shape": keyed[len(keyed)/2].Key})
		sp.ReportQuarantine()
	}
}

var C05 = core.Check{
	ID: "C05", Level: "exploration", Fn: checkC05, Rounds: func(string) int { return 2 },
	Rule:   "operands = every state of the reachable-representation space (generation 0: every construction path of every set of <=2 members over the member alphabet with forced key collisions, offsets, holes; plus one generation of operator results). For every state: x(k) and x(k)?:d for every key present and 10 fixed arguments (absent, non-integer, wrong kind); 3 >> and 2 >>> transformers; n\\x for n in -2..2 and 0.5; a ++ b for every ordered pair of states; plus 7 dictionaries with a repeated key (quarantined from the state space because their count is wrong) under the same calls and transformers, judged on members. The model is the set of (@:k, X:v) pairs: call = the unique value paired with k, error for none / several, fallback exactly for none; >> rewrites each value keeping keys; ++ = left union right shifted by count(left); n\\ shifts every key. non-trivial = keyed operand with at least one matching pair / non-empty operands",
	Assume: []string{"reference model of keyed collections as sets of (@,x) pairs", "states that are not sets of pairs are only checked for crashes (the property speaks about keyed collections)", "a transformer result that is not representable as a char/byte may be either an error or a generic tuple"},
}
