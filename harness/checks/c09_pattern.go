package checks

import (
	"fmt"
	"sort"
	"strconv"
	"strings"

	"verif/harness/model"
)

// C09: pattern AST of the check (written from docs/docs/lang/binding.md, not from rel/pattern_*.go),
// its arr.ai source rendering and the bounded-exhaustive pattern generator.

type c9pat struct {
	k     byte       // 'N' number, 'S' string, 'n' name, '_' wildcard, 'E' (expr[, expr]), 'A' array, 'T' tuple, 'D' dict, 'Z' set
	num   float64    // 'N'
	str   string     // 'S'
	name  string     // 'n'; "#" in a shape = a name slot still to be assigned
	esrc  string     // 'E': source, e.g. "(p)" – refers to names of the OUTER scope only
	evals []*model.V // 'E': the values the expression(s) denote; the pattern matches iff the value equals one of them
	items []c9item   // components of A/T/D/Z
}

type c9item struct {
	rest  bool     // `...` or `...name`
	name  string   // rest name ("" = anonymous, "$" = slot to be assigned)
	key   string   // T: attribute name; D: key source text
	keyM  *model.V // D: key value
	p     *c9pat   // component pattern (nil for rest)
	fb    *model.V // ?:fallback value (nil = none)
	short bool     // T: written `:name` (attribute name = bound name)
}

func c9num(f float64) *c9pat    { return &c9pat{k: 'N', num: f} }
func c9str(s string) *c9pat     { return &c9pat{k: 'S', str: s} }
func c9name(n string) *c9pat    { return &c9pat{k: 'n', name: n} }
func c9wild() *c9pat            { return &c9pat{k: '_'} }
func c9slot() *c9pat            { return c9name("#") }
func c9it(p *c9pat) c9item      { return c9item{p: p} }
func c9rest(name string) c9item { return c9item{rest: true, name: name} }
func c9expr(src string, vals ...*model.V) *c9pat {
	return &c9pat{k: 'E', esrc: src, evals: vals}
}
func c9arr(items ...c9item) *c9pat       { return &c9pat{k: 'A', items: items} }
func c9set(items ...c9item) *c9pat       { return &c9pat{k: 'Z', items: items} }
func c9tup(items ...c9item) *c9pat       { return &c9pat{k: 'T', items: items} }
func c9dict(items ...c9item) *c9pat      { return &c9pat{k: 'D', items: items} }
func c9attr(key string, p *c9pat) c9item { return c9item{key: key, p: p} }
func c9entry(key string, p *c9pat) c9item {
	return c9item{key: strconv.Quote(key), keyM: model.Str(key, 0), p: p}
}
func (it c9item) withFb(v *model.V) c9item { it.fb = v; return it }

// src renders the pattern as arr.ai source.
func (p *c9pat) src() string {
	switch p.k {
	case 'N':
		return strconv.FormatFloat(p.num, 'g', -1, 64)
	case 'S':
		return strconv.Quote(p.str)
	case 'n':
		return p.name
	case '_':
		return "_"
	case 'E':
		return p.esrc
	}
	parts := make([]string, len(p.items))
	for i, it := range p.items {
		switch {
		case it.rest:
			parts[i] = "..." + it.name
		case p.k == 'A' && it.fb != nil:
			parts[i] = "?" + it.p.src() + ":" + c9vsrc(it.fb)
		case p.k == 'A' || p.k == 'Z':
			parts[i] = it.p.src()
		case it.short:
			parts[i] = ":" + it.p.src()
		case it.fb != nil:
			parts[i] = it.key + "?: " + it.p.src() + ":" + c9vsrc(it.fb)
		default:
			parts[i] = it.key + ": " + it.p.src()
		}
	}
	body := strings.Join(parts, ", ")
	switch p.k {
	case 'A':
		return "[" + body + "]"
	case 'T':
		return "(" + body + ")"
	}
	return "{" + body + "}"
}

// kindName is the top-level kind used in signatures.
func (p *c9pat) kindName() string {
	switch p.k {
	case 'N', 'S':
		return "literal"
	case 'n':
		return "name"
	case '_':
		return "wildcard"
	case 'E':
		return "expr"
	case 'A':
		return "array"
	case 'T':
		return "tuple"
	case 'D':
		return "dict"
	}
	return "set"
}

func (p *c9pat) depth() int {
	d := 0
	for _, it := range p.items {
		if it.p != nil {
			if x := it.p.depth(); x > d {
				d = x
			}
		}
	}
	if p.items != nil || p.k == 'A' || p.k == 'T' || p.k == 'D' || p.k == 'Z' {
		return d + 1
	}
	return 0
}

// slots counts plain-name slots and rest-name slots of a shape.
func (p *c9pat) slots() (plain, rest int) {
	if p.k == 'n' && p.name == "#" {
		return 1, 0
	}
	for _, it := range p.items {
		if it.rest {
			if it.name == "$" {
				rest++
			}
			continue
		}
		a, b := it.p.slots()
		plain += a
		rest += b
	}
	return
}

// assign returns a deep copy of the shape with its slots named left to right.
func (p *c9pat) assign(plain []string, rest []string, pi, ri *int) *c9pat {
	q := *p
	if p.k == 'n' && p.name == "#" {
		q.name = plain[*pi]
		*pi++
		return &q
	}
	if p.items != nil {
		q.items = make([]c9item, len(p.items))
		for i, it := range p.items {
			if it.rest {
				if it.name == "$" {
					it.name = rest[*ri]
					*ri++
				}
			} else {
				it.p = it.p.assign(plain, rest, pi, ri)
			}
			q.items[i] = it
		}
	}
	return &q
}

// names lists the names the pattern binds (sorted, distinct) and a role for each (first occurrence).
func (p *c9pat) names() (list []string, role map[string]string) {
	role = map[string]string{}
	var walk func(p *c9pat, ctx string)
	walk = func(p *c9pat, ctx string) {
		if p.k == 'n' {
			if _, ok := role[p.name]; !ok {
				role[p.name] = "name@" + ctx
			}
			return
		}
		for _, it := range p.items {
			if it.rest {
				if it.name != "" {
					if _, ok := role[it.name]; !ok {
						role[it.name] = "rest@" + p.kindName()
					}
				}
				continue
			}
			c := p.kindName()
			if it.fb != nil {
				c = "fallback@" + c
			}
			walk(it.p, c)
		}
	}
	walk(p, "top")
	for n := range role {
		list = append(list, n)
	}
	sort.Strings(list)
	return
}

// features summarises which mechanisms a pattern uses (for counters / evidence only).
func (p *c9pat) features() []string {
	f := map[string]bool{}
	var walk func(p *c9pat)
	seen := map[string]int{}
	walk = func(p *c9pat) {
		f[p.kindName()] = true
		if p.k == 'n' {
			seen[p.name]++
		}
		for _, it := range p.items {
			switch {
			case it.rest && it.name != "":
				f["...rest"] = true
			case it.rest:
				f["..."] = true
			default:
				if it.fb != nil {
					f["fallback"] = true
				}
				walk(it.p)
			}
		}
	}
	walk(p)
	for _, n := range seen {
		if n > 1 {
			f["repeated-name"] = true
		}
	}
	var out []string
	for k := range f {
		out = append(out, k)
	}
	sort.Strings(out)
	return out
}

// ---- generator ----

// Outer scope of every compiled form: p = 2, plus one sentinel per bindable name, so that a
// name the pattern failed to bind (or a binding that leaked from a failed cond arm) shows.
var c9PlainNames = []string{"a", "b", "c"}
var c9RestNames = []string{"t", "u"}
var c9Sentinel = map[string]float64{"a": 901, "b": 902, "c": 903, "t": 904, "u": 905}

const c9OuterP = 2.0

var c9ResultExpr = "(a: a, b: b, c: c, t: t, u: u)"

func c9leaves(full bool) []*c9pat {
	l := []*c9pat{c9num(1), c9slot(), c9wild(), c9expr("(p)", model.Num(c9OuterP))}
	if full {
		l = append(l, c9str("s"), c9expr("(p, 3)", model.Num(c9OuterP), model.Num(3)), c9expr("(p - 1)", model.Num(c9OuterP-1)))
	}
	return l
}

// restVariants returns the component lists obtained from comps by adding no rest, `...` or
// `...name` at every position.
func c9restVariants(comps []c9item, anonymous bool) [][]c9item {
	out := [][]c9item{comps}
	for pos := 0; pos <= len(comps); pos++ {
		kinds := []string{"$"}
		if anonymous {
			kinds = append(kinds, "")
		}
		for _, nm := range kinds {
			l := append([]c9item{}, comps[:pos]...)
			l = append(l, c9rest(nm))
			l = append(l, comps[pos:]...)
			out = append(out, l)
		}
	}
	return out
}

// c9products enumerates all sequences of length n over children.
func c9products(children []*c9pat, n int) [][]*c9pat {
	out := [][]*c9pat{{}}
	for i := 0; i < n; i++ {
		var next [][]*c9pat
		for _, pre := range out {
			for _, c := range children {
				next = append(next, append(append([]*c9pat{}, pre...), c))
			}
		}
		out = next
	}
	return out
}

var c9fbVal = model.Num(7)

// c9structs builds every array/tuple/dict/set shape whose components come from children:
// up to maxComp components, optional rest at any position (arrays) or at the end
// (tuple/dict/set, where position carries no meaning), optional ?:fallback on trailing components.
func c9structs(children []*c9pat, maxComp int, restEverywhere bool, maxFb int) []*c9pat {
	var out []*c9pat
	tupKeys := []string{"x", "y", "z", "q"}
	dictKeys := []string{"k", "j", "i", "h"}
	for n := 0; n <= maxComp; n++ {
		for _, seq := range c9products(children, n) {
			// arrays
			comps := make([]c9item, n)
			for i, c := range seq {
				comps[i] = c9it(c)
			}
			if restEverywhere || n < maxComp {
				for _, l := range c9restVariants(comps, true) {
					if len(l) <= maxComp {
						out = append(out, c9arr(l...))
					}
				}
			} else {
				out = append(out, c9arr(comps...))
			}
			// arrays with trailing fallbacks (1 or 2), no rest
			for f := 1; f <= maxFb && f <= n; f++ {
				l := append([]c9item{}, comps...)
				for i := n - f; i < n; i++ {
					l[i] = l[i].withFb(c9fbVal)
				}
				out = append(out, c9arr(l...))
			}
			// tuples and dicts
			for _, kind := range []byte{'T', 'D'} {
				mk := func(i int, c *c9pat) c9item {
					if kind == 'T' {
						return c9attr(tupKeys[i], c)
					}
					return c9entry(dictKeys[i], c)
				}
				comps := make([]c9item, n)
				for i, c := range seq {
					comps[i] = mk(i, c)
				}
				build := func(l []c9item) {
					if kind == 'D' && len(l) > 0 && l[0].rest {
						return // `{...t}` is a set pattern
					}
					if kind == 'D' && len(l) == 0 {
						return // `{}` is the empty-set pattern
					}
					out = append(out, &c9pat{k: kind, items: l})
				}
				build(comps)
				if n < maxComp || restEverywhere {
					if len(comps)+1 <= maxComp {
						build(append(append([]c9item{}, comps...), c9rest("$")))
						build(append(append([]c9item{}, comps...), c9rest("")))
						if n > 0 { // rest first: position must not matter
							build(append([]c9item{c9rest("$")}, comps...))
						}
					}
				}
				for f := 1; f <= maxFb && f <= n; f++ {
					l := append([]c9item{}, comps...)
					for i := n - f; i < n; i++ {
						l[i] = l[i].withFb(c9fbVal)
					}
					build(l)
					if f == 1 && len(l)+1 <= maxComp {
						build(append(append([]c9item{}, l...), c9rest("$")))
					}
				}
			}
			// sets: order carries no meaning, so only non-decreasing child index sequences
			sorted := true
			for i := 1; i < n; i++ {
				if c9childIndex(children, seq[i-1]) > c9childIndex(children, seq[i]) {
					sorted = false
				}
			}
			for i := 1; i < n; i++ {
				if seq[i-1] == seq[i] && !(seq[i].k == 'n' || seq[i].depth() > 0 && func() bool { a, b := seq[i].slots(); return a+b > 0 }()) {
					sorted = false // {1, 1}: the same closed element pattern twice is the one-element pattern
				}
			}
			if sorted {
				sc := make([]c9item, n)
				for i, c := range seq {
					sc[i] = c9it(c)
				}
				out = append(out, c9set(sc...))
				if len(sc)+1 <= maxComp {
					out = append(out, c9set(append(append([]c9item{}, sc...), c9rest("$"))...))
					out = append(out, c9set(append(append([]c9item{}, sc...), c9rest(""))...))
				}
			}
		}
	}
	return out
}

func c9childIndex(children []*c9pat, c *c9pat) int {
	for i, x := range children {
		if x == c {
			return i
		}
	}
	return -1
}

// c9partitions enumerates the restricted-growth strings of length n over at most k blocks.
func c9partitions(n, k int) [][]int {
	out := [][]int{{}}
	for i := 0; i < n; i++ {
		var next [][]int
		for _, pre := range out {
			mx := -1
			for _, x := range pre {
				if x > mx {
					mx = x
				}
			}
			for b := 0; b <= mx+1 && b < k; b++ {
				next = append(next, append(append([]int{}, pre...), b))
			}
		}
		out = next
	}
	return out
}

// c9namings turns a shape into concrete patterns: every way of naming its plain-name slots
// with a, b, c (all set partitions, so every repeated-name configuration), rest slots t, u.
func c9namings(shape *c9pat) []*c9pat {
	np, nr := shape.slots()
	if np > 3 || nr > 2 {
		return nil
	}
	var out []*c9pat
	for _, part := range c9partitions(np, 3) {
		plain := make([]string, np)
		for i, b := range part {
			plain[i] = c9PlainNames[b]
		}
		pi, ri := 0, 0
		out = append(out, shape.assign(plain, c9RestNames, &pi, &ri))
	}
	return out
}

// c9special are hand-written patterns outside the regular product (each exercises one documented or
// plausible form once).
func c9special() []*c9pat {
	aName, bName := c9name("a"), c9name("b")
	return []*c9pat{
		c9arr(c9it(aName), c9rest("a")),                                           // rest name repeats a plain name: must agree
		c9tup(c9attr("x", c9name("a")), c9rest("a")),                              // the same for tuple, dict and set patterns
		c9tup(c9attr("x", c9arr(c9it(c9name("a")), c9it(c9wild()))), c9rest("a")), // ... also when the repeat is nested
		c9dict(c9entry("k", c9name("a")), c9rest("a")),
		c9set(c9it(c9num(1)), c9it(c9name("a")), c9rest("a")),
		c9set(c9it(aName), c9it(c9name("a"))),                                                   // {a, a}
		c9arr(c9it(aName), c9it(c9expr("(a)", model.Num(c9Sentinel["a"])))),                     // doc: (a) is the OUTER a even when a is also bound
		c9tup(c9item{key: "a", short: true, p: aName}),                                          // (:a) shorthand
		c9tup(c9item{key: "a", short: true, p: aName}, c9item{key: "b", short: true, p: bName}), // (:a, :b)
		c9dict(c9item{key: "1", keyM: model.Num(1), p: aName}),                                  // numeric key
		c9dict(c9item{key: "(p)", keyM: model.Num(c9OuterP), p: aName}),                         // computed key
		c9dict(c9item{key: "[1]", keyM: model.Arr(0, model.Num(1)), p: aName}),
		c9arr(c9it(c9num(1)), c9it(c9num(1))),
		c9str(""),
		c9num(0),
		c9expr("(p, 3, p)", model.Num(c9OuterP), model.Num(3)),
		c9expr("([p, 1])", model.Arr(0, model.Num(c9OuterP), model.Num(1))),
		// two different outer names with the same value: each element consumes a member
		c9set(c9it(c9expr("(p)", model.Num(c9OuterP))), c9it(c9expr("(q)", model.Num(c9OuterP)))),
		c9set(c9it(c9expr("(p)", model.Num(c9OuterP))), c9it(c9expr("(q)", model.Num(c9OuterP))), c9rest("t")),
		c9set(c9it(c9expr("(p)", model.Num(c9OuterP))), c9it(c9expr("(q)", model.Num(c9OuterP))), c9it(aName)),
		c9arr(c9rest(""), c9rest("t")), // two rests: non-deterministic, must be an error
		c9arr(c9rest("t"), c9it(aName), c9rest("u")),
	}
}

// c9Patterns is the enumerated pattern space of a tier (deduplicated by source, sorted).
func c9Patterns(thorough bool) []*c9pat {
	var shapes []*c9pat
	leavesFull := c9leaves(true)
	leaves := c9leaves(false)
	shapes = append(shapes, leavesFull...)
	// depth 1: up to 3 components from the core leaves, up to 2 from the full leaf set
	d1 := c9structs(leaves, 3, false, 2)
	shapes = append(shapes, d1...)
	shapes = append(shapes, c9structs(leavesFull, 2, true, 2)...)
	// depth 2: components = reduced leaves + representative depth-1 structures
	slot := c9slot
	kids := []*c9pat{
		c9num(1), slot(), c9wild(),
		c9arr(), c9arr(c9it(slot())), c9arr(c9it(slot()), c9it(slot())), c9arr(c9it(slot()), c9rest("$")), c9arr(c9rest("$"), c9it(c9num(1))),
		c9arr(c9it(slot()), c9it(slot()).withFb(c9fbVal)),
		c9tup(), c9tup(c9attr("x", slot())), c9tup(c9attr("x", slot()), c9rest("$")), c9tup(c9attr("x", slot()).withFb(c9fbVal)),
		c9dict(c9entry("k", slot())), c9dict(c9entry("k", slot()), c9rest("$")), c9dict(c9entry("k", slot()).withFb(c9fbVal)),
		c9set(), c9set(c9it(slot())), c9set(c9it(c9num(1)), c9it(slot())), c9set(c9it(c9num(1)), c9rest("$")),
	}
	hasStruct := func(p *c9pat) bool {
		for _, it := range p.items {
			if it.p != nil && it.p.depth() > 0 {
				return true
			}
		}
		return false
	}
	for _, s := range c9structs(kids, 2, true, 1) {
		if hasStruct(s) {
			shapes = append(shapes, s)
		}
	}
	if thorough {
		// depth 3: one or two components that are depth-2 structures over the same kids
		var kids2 []*c9pat
		small := []*c9pat{slot(), c9num(1), kids[4], kids[6], kids[10], kids[11], kids[13], kids[14], kids[18], kids[19]}
		for _, s := range c9structs(small, 2, false, 1) {
			if hasStruct(s) {
				kids2 = append(kids2, s)
			}
		}
		// each depth-2 structure wrapped once more, alone or next to a name / `...rest`
		for _, k2 := range kids2 {
			shapes = append(shapes,
				c9arr(c9it(k2)), c9arr(c9it(k2), c9it(slot())), c9arr(c9it(slot()), c9it(k2)), c9arr(c9it(k2), c9rest("$")),
				c9tup(c9attr("x", k2)), c9tup(c9attr("x", k2), c9attr("y", slot())), c9tup(c9attr("x", k2), c9rest("$")),
				c9dict(c9entry("k", k2)), c9dict(c9entry("k", k2), c9entry("j", slot())), c9dict(c9entry("k", k2), c9rest("$")),
				c9set(c9it(k2)), c9set(c9it(k2), c9it(c9num(1))))
		}
		// wider depth 1: four components
		shapes = append(shapes, c9structs([]*c9pat{c9num(1), slot(), c9wild()}, 4, true, 2)...)
	}
	seen := map[string]bool{}
	var out []*c9pat
	add := func(p *c9pat) {
		s := p.src()
		if !seen[s] {
			seen[s] = true
			out = append(out, p)
		}
	}
	for _, sh := range shapes {
		for _, p := range c9namings(sh) {
			if !c9dupSetElems(p) { // {1, 1} / {[a], [a]}: the same element pattern twice; kept once as the special {a, a}
				add(p)
			}
		}
	}
	for _, p := range c9special() {
		add(p)
	}
	sort.SliceStable(out, func(i, j int) bool { return out[i].src() < out[j].src() })
	return out
}

// c9dupSetElems reports a set pattern (anywhere inside p) that lists the same element pattern twice.
func c9dupSetElems(p *c9pat) bool {
	seen := map[string]bool{}
	for _, it := range p.items {
		if it.rest {
			continue
		}
		if p.k == 'Z' {
			s := it.p.src()
			if seen[s] {
				return true
			}
			seen[s] = true
		}
		if c9dupSetElems(it.p) {
			return true
		}
	}
	return false
}

// c9body is the witness body listing the pattern's own names.
func c9body(p *c9pat) string {
	names, _ := p.names()
	if len(names) == 0 {
		return "1"
	}
	return "[" + strings.Join(names, ", ") + "]"
}

func c9describe(p *c9pat) string {
	return fmt.Sprintf("%s depth=%d features=%s", p.src(), p.depth(), strings.Join(p.features(), ","))
}
