package checks

import (
	"archive/zip"
	"bytes"
	"context"
	"fmt"
	"github.com/arr-ai/arrai/pkg/importcache"
	"io"
	"net/http"
	"os"
	"path"
	"path/filepath"
	"regexp"
	"runtime/debug"
	"sort"
	"strings"
	"time"

	"github.com/spf13/afero"

	"github.com/arr-ai/arrai/pkg/bundle"
	"github.com/arr-ai/arrai/pkg/cliutil"
	"github.com/arr-ai/arrai/pkg/ctxfs"
	"github.com/arr-ai/arrai/pkg/ctxrootcache"
	"github.com/arr-ai/arrai/rel"
	"github.com/arr-ai/arrai/syntax"

	"verif/harness/c15util"
	"verif/harness/core"
	"verif/harness/model"
	"verif/harness/obs"
)

// C15: a bundle evaluates exactly like its sources and reads nothing else.
//
// Every layout of a bounded family of source trees (held in an afero.MemMapFs behind a
// recording wrapper that resolves relative names against the real working directory,
// like the OS file system) is evaluated from source and bundled under four
// (working directory, spelling of the main path) configurations; the bundle is run from
// three working directories. All outcomes are compared with a reference model of import
// resolution, the archive is compared with the files the source evaluation read, and the
// recording wrapper must see no access at all while a bundle runs.

type c15env struct {
	base, tree, outside string
}

func c15setup(dirs []string) (*c15env, error) {
	base := filepath.Join(core.VerifDir, ".build", "c15cwd")
	if err := os.MkdirAll(base, 0o755); err != nil {
		return nil, err
	}
	base, err := filepath.EvalSymlinks(base)
	if err != nil {
		return nil, err
	}
	e := &c15env{base: base, tree: filepath.Join(base, "t"), outside: filepath.Join(base, "o")}
	// only empty directories exist on disk (so that the process can chdir into them);
	// every file lives in the in-memory file system
	for _, d := range append([]string{e.outside}, dirs...) {
		p := d
		if d != e.outside {
			p = filepath.Join(e.tree, d)
		}
		if err := os.MkdirAll(p, 0o755); err != nil {
			return nil, err
		}
	}
	return e, nil
}

type c15cfg struct {
	name, cwd, path string
	out             string // non-empty: bundle through BundledScriptsTo's out parameter and read the file back
	warm            bool   // evaluate the script from source first, with the SAME context (carrying an import cache), then bundle
}

type c15got struct {
	enc      string // denotation of the value
	fail     string // failure kind
	raw      string
	panicked bool
}

func (g c15got) key() string {
	if g.fail != "" {
		return "fail:" + g.fail
	}
	return g.enc
}

var ansiRE = regexp.MustCompile("\x1b\\[[0-9;]*m")
var notExistRE = regexp.MustCompile(`(?:open|stat) (.*?): (file does not exist|no such file or directory)`)

type c15panic string

// c15panicKind keeps panic signatures free of layout-specific paths.
func c15panicKind(sig string) string {
	if strings.Contains(sig, "main file not accessible") {
		return "panic|not bundled properly, main file not accessible|syntax/bundle.go:syntax.GetMainBundleSource"
	}
	return sig
}

func (p c15panic) Error() string { return string(p) }

func c15failKind(err error) string {
	if p, ok := err.(c15panic); ok {
		return c15panicKind(string(p))
	}
	msg := ansiRE.ReplaceAllString(err.Error(), "")
	switch {
	case strings.Contains(msg, "module root not found"):
		return "root-not-found"
	case strings.Contains(msg, `Missing attr "nope"`):
		return "eval:missing-attr"
	case strings.Contains(msg, "sentinel does not show module path"):
		return "sentinel-has-no-module"
	}
	if m := notExistRE.FindStringSubmatch(msg); m != nil {
		return "not-exist:" + path.Base(m[1])
	}
	return "other:" + core.NormMsg(msg)
}

func c15outcome(v rel.Value, err error) c15got {
	if err != nil {
		return c15got{fail: c15failKind(err), raw: ansiRE.ReplaceAllString(err.Error(), "")}
	}
	m, derr := obs.Denote(v)
	if derr != nil {
		return c15got{fail: "undenotable:" + derr.Error(), raw: fmt.Sprint(v)}
	}
	return c15got{enc: m.Enc(), raw: fmt.Sprint(v)}
}

func c15ctx(fs afero.Fs) context.Context {
	ctx := ctxfs.SourceFsOnto(context.Background(), fs)
	ctx = ctxfs.RuntimeFsOnto(ctx, fs)
	return ctxrootcache.WithRootCache(ctx)
}

// c15evalFile mirrors cmd/arrai/run.go evalFile (package main cannot be imported). A panic
// raised inside arr.ai becomes a failure kind carrying the panic signature, so that the
// remaining oracles of the case (host access, archive) still run.
func c15evalFile(fs afero.Fs, p string) (got c15got) {
	defer func() {
		if r := recover(); r != nil {
			msg, fn, in := core.PanicSite(r, debug.Stack())
			if !in {
				panic(r)
			}
			got = c15got{fail: c15panicKind("panic|" + msg + "|" + fn), raw: fmt.Sprint(r), panicked: true}
		}
	}()
	ctx := c15ctx(fs)
	if err := cliutil.FileExists(ctx, p); err != nil {
		return c15outcome(nil, err)
	}
	buf, err := afero.ReadFile(ctxfs.SourceFsFrom(ctx), p)
	if err != nil {
		return c15outcome(nil, err)
	}
	switch filepath.Ext(p) {
	case ".arraiz", ".zip":
		return c15outcome(syntax.EvaluateBundleCtx(ctx, buf))
	}
	return c15outcome(syntax.EvaluateExpr(ctx, p, string(buf)))
}

// c15bundle mirrors cmd/arrai/bundle.go bundleCmd.
func c15bundle(fs afero.Fs, cfg c15cfg) (_ []byte, err error) {
	defer func() {
		if r := recover(); r != nil {
			msg, fn, in := core.PanicSite(r, debug.Stack())
			if !in {
				panic(r)
			}
			err = c15panic("panic|" + msg + "|" + fn)
		}
	}()
	ctx := c15ctx(fs)
	if cfg.warm {
		// an embedding host that evaluated the script and then bundles it with the same context:
		// the archive must not depend on what the context's import cache already holds
		ctx = importcache.WithNewImportCache(ctx)
		if buf, rerr := afero.ReadFile(ctxfs.SourceFsFrom(ctx), cfg.path); rerr == nil {
			_, _ = syntax.EvaluateExpr(ctx, cfg.path, string(buf))
		}
	}
	if cfg.out != "" {
		if err := bundle.BundledScriptsTo(ctx, cfg.path, io.Discard, cfg.out); err != nil {
			return nil, err
		}
		return afero.ReadFile(fs, cfg.out+".arraiz")
	}
	var buf bytes.Buffer
	err = bundle.BundledScriptsTo(ctx, cfg.path, &buf, "")
	return buf.Bytes(), err
}

func c15unzip(b []byte) (map[string]string, error) {
	zr, err := zip.NewReader(bytes.NewReader(b), int64(len(b)))
	if err != nil {
		return nil, err
	}
	m := map[string]string{}
	for _, f := range zr.File {
		rc, err := f.Open()
		if err != nil {
			return nil, err
		}
		c, err := io.ReadAll(rc)
		rc.Close()
		if err != nil {
			return nil, err
		}
		if _, dup := m[f.Name]; dup {
			return nil, fmt.Errorf("duplicate archive entry %q", f.Name)
		}
		m[f.Name] = string(c)
	}
	return m, nil
}

func c15archiveKey(m map[string]string) string {
	names := make([]string, 0, len(m))
	for n := range m {
		names = append(names, n)
	}
	sort.Strings(names)
	var sb strings.Builder
	for _, n := range names {
		fmt.Fprintf(&sb, "%q=%q;", n, m[n])
	}
	return sb.String()
}

func c15discrepancy(want, got string) string {
	kind := func(s string) string {
		if strings.HasPrefix(s, "fail:") {
			return s
		}
		return "value"
	}
	if kind(want) == "value" && kind(got) == "value" {
		return "wrong-value"
	}
	return kind(want) + "→" + kind(got)
}

// c15fails aggregates the discrepancies of one phase over the configurations: when every
// configuration shows the same discrepancy the signature does not name a configuration.
type c15fails struct {
	cfg, disc, detail []string
}

func (f *c15fails) add(cfg, disc, detail string) {
	f.cfg, f.disc, f.detail = append(f.cfg, cfg), append(f.disc, disc), append(f.detail, detail)
}

func (f *c15fails) report(w *core.W, phase, class, witness string, total int) {
	if len(f.cfg) == 0 {
		return
	}
	same := len(f.cfg) == total
	for _, d := range f.disc {
		same = same && d == f.disc[0]
	}
	if same {
		w.Fail("wrong", phase+"|"+class+"|"+f.disc[0], witness, "every configuration; "+f.cfg[0]+": "+f.detail[0])
		return
	}
	for i := range f.cfg {
		w.Fail("wrong", phase+"|"+class+"|only:"+f.cfg[i]+"|"+f.disc[i], witness, f.detail[i])
	}
}

func checkC15(w *core.W) {
	sp := c15util.SpaceOf(w.Thorough)
	env, err := c15setup(sp.AllDirs())
	if err != nil {
		w.BrokenF("C15: cannot create working directories: %v", err)
		return
	}
	guard := &c15util.NetGuard{}
	http.DefaultTransport = guard
	http.DefaultClient.Transport = guard

	chdir := func(d string) {
		if err := os.Chdir(d); err != nil {
			panic(fmt.Sprintf("harness: chdir %s: %v", d, err))
		}
	}
	// warm-up outside any case: the first evaluation of a process parses the embedded
	// standard library and the implicit-decoder script (about a second)
	{
		mem := afero.NewMemMapFs()
		_ = afero.WriteFile(mem, "/w/main.arrai", []byte(`[//{./d.json}, //[//encoding.json]{./d.json}, //{./d.yaml}]`), 0o644)
		_ = afero.WriteFile(mem, "/w/d.json", []byte(`{"a": "b"}`), 0o644)
		_ = afero.WriteFile(mem, "/w/d.yaml", []byte("a: b\n"), 0o644)
		if g := c15evalFile(mem, "/w/main.arrai"); g.fail != "" {
			w.BrokenF("C15: warm-up evaluation failed: %s", g.raw)
			return
		}
	}

	layouts := c15util.Enumerate(w.Thorough)
	for k, l := range layouts {
		if !w.Mine(k) {
			continue
		}
		if w.Expired() {
			w.Cap(fmt.Sprintf("deadline reached at layout %d of %d", k, len(layouts)))
			break
		}
		l := l
		want := l.Model()
		class := l.Class(want)
		w.Case(func() string { return l.Fam + "|" + class + " ## " + l.String() }, func() {
			w.Count("layouts", 1)
			w.Count("layouts_"+l.Fam, 1)
			nontrivial := want.Resolved > 0
			wantKey := "fail:" + want.Fail
			if want.Fail == "" {
				wantKey = want.V.Enc()
				w.Note("model_outcomes", fmt.Sprintf("value(files=%d,sentinels=%d)", len(want.Reads), len(want.Sentinels)))
			} else {
				w.Note("model_outcomes", want.Fail)
			}
			witness := l.String()

			mem := afero.NewMemMapFs()
			files := l.Files()
			names := make([]string, 0, len(files))
			for n := range files {
				names = append(names, n)
			}
			sort.Strings(names)
			for _, n := range names {
				if err := afero.WriteFile(mem, filepath.Join(env.tree, n), []byte(files[n]), 0o644); err != nil {
					panic("harness: " + err.Error())
				}
			}
			fs := c15util.NewRecFs(mem)

			mainAbs := filepath.Join(env.tree, l.MainFile())
			mainDir := filepath.Join(env.tree, l.Main)
			cfgs := []c15cfg{
				{name: "abs-from-outside", cwd: env.outside, path: mainAbs},
				{name: "dotdot-from-sibling", cwd: filepath.Join(env.tree, "a b"), path: "../" + l.MainFile()},
				{name: "rel-from-main-dir", cwd: mainDir, path: "main.arrai", out: "out"},
				{name: "rel-from-tree-root", cwd: env.tree, path: l.MainFile()},
			}
			runCwds := []struct{ name, dir string }{{"outside", env.outside}, {"main-dir", mainDir}, {"tree-root", env.tree}}
			if w.Quick() && l.Fam != "F0" && l.Fam != "F1" && l.Fam != "F5" {
				// quick tier: the multi-file families use the absolute and the most indirect spelling only
				cfgs, runCwds = cfgs[:2], runCwds[:2]
			}
			cfgs = append(cfgs, c15cfg{name: "abs-after-eval-on-same-context", cwd: env.outside, path: mainAbs, warm: true})

			// ---- evaluation from source
			var srcKey string
			var srcOpened []string
			var sf c15fails
			for i, cfg := range cfgs {
				chdir(cfg.cwd)
				fs.Reset()
				got := c15evalFile(fs, cfg.path)
				w.Eval(nontrivial)
				w.Count("source_runs", 1)
				if i == 0 {
					srcKey = got.key()
					for _, p := range fs.Opened() {
						if p != mainAbs {
							srcOpened = append(srcOpened, p)
						}
					}
				}
				if got.key() != wantKey {
					sf.add(cfg.name, c15discrepancy(wantKey, got.key()), "source evaluation differs from the model: got "+got.raw)
				}
			}
			sf.report(w, "source", class, witness, len(cfgs))
			// the files the source evaluation opened are those the model says it needs
			var wantOpened []string
			for _, r := range want.Reads {
				wantOpened = append(wantOpened, filepath.Join(env.tree, r))
			}
			if strings.Join(srcOpened, "\n") != strings.Join(wantOpened, "\n") {
				w.Fail("wrong", "source|"+class+"|opened-files≠model", witness,
					fmt.Sprintf("opened %q, model %q", srcOpened, wantOpened))
			}

			// ---- bundling
			var archives []map[string]string
			var bundles [][]byte
			var bf, af c15fails
			for _, cfg := range cfgs {
				chdir(cfg.cwd)
				fs.Reset()
				b, err := c15bundle(fs, cfg)
				w.Eval(nontrivial)
				w.Count("bundles_attempted", 1)
				if err != nil {
					got := c15outcome(nil, err)
					w.Note("bundle_errors", got.fail)
					// a script that fails to compile cannot be bundled: the same failure is required
					// (a bundling failure can never equal a value or an evaluation failure of the sources)
					if got.key() != srcKey {
						bf.add(cfg.name, c15discrepancy(srcKey, got.key()), "bundling failed: "+got.raw)
					}
					continue
				}
				m, err := c15unzip(b)
				if err != nil {
					bf.add(cfg.name, "unreadable-archive", err.Error())
					continue
				}
				w.Count("bundles_built", 1)
				archives = append(archives, m)
				bundles = append(bundles, b)
				if c15archiveKey(m) != c15archiveKey(archives[0]) {
					w.Fail("wrong", "bundle|"+class+"|only:"+cfg.name+"|archive-depends-on-cwd-or-spelling", witness,
						"first: "+c15archiveKey(archives[0])+" this: "+c15archiveKey(m))
				}
				// every file the source evaluation opened is in the archive (contents are unique per file)
				contents := map[string]string{}
				for n, c := range m {
					contents[c] = n
				}
				hasConfig := false
				for n := range m { // (a leading slash in entry names is tolerated: the runtime resolves both)
					hasConfig = hasConfig || strings.TrimPrefix(n, "/") == strings.TrimPrefix(syntax.BundleConfig, "/")
				}
				if !hasConfig {
					af.add(cfg.name, "no-config", c15archiveKey(m))
				}
				for _, p := range append([]string{mainAbs}, srcOpened...) {
					c, _ := afero.ReadFile(mem, p)
					if _, ok := contents[string(c)]; !ok {
						af.add(cfg.name, "needed-file-missing:"+filepath.Ext(p), strings.TrimPrefix(p, env.tree)+" not in "+c15archiveKey(m))
						break
					}
				}
				w.Count("archive_entries_beyond_config_main_imports", int64(len(m)-2-len(srcOpened)))
			}
			bf.report(w, "bundle", class, witness, len(cfgs))
			af.report(w, "archive", class, witness, len(cfgs))
			if len(archives) > 0 {
				names := make([]string, 0, len(archives[0]))
				for n := range archives[0] {
					names = append(names, n)
				}
				sort.Strings(names)
				w.Note("archive_shapes", strings.Join(names, " "))
			}

			// ---- running every distinct archive from several working directories
			seen := map[string]bool{}
			for i, b := range bundles {
				if k := c15archiveKey(archives[i]); seen[k] {
					continue
				} else {
					seen[k] = true
				}
				var rf c15fails
				for _, cwd := range runCwds {
					chdir(cwd.dir)
					// the bundle file itself sits outside the tree; reading it is the one expected access
					bp := filepath.Join(env.outside, "b.arraiz")
					if err := afero.WriteFile(mem, bp, b, 0o644); err != nil {
						panic("harness: " + err.Error())
					}
					fs.Reset()
					got := c15evalFile(fs, bp)
					w.Eval(nontrivial)
					w.Count("bundle_runs", 1)
					if got.fail != "" {
						w.Note("run_outcomes", got.fail)
					} else {
						w.Note("run_outcomes", "value")
					}
					for _, op := range fs.Ops() {
						if op.Path != bp {
							w.Fail("wrong", "run|"+class+"|host-access:"+op.Kind, witness,
								fmt.Sprintf("bundle evaluation touched %s %s (cwd %s)", op.Kind, op.Path, cwd.name))
							break
						}
					}
					if got.key() != srcKey {
						rf.add("cwd-"+cwd.name, c15discrepancy(srcKey, got.key()),
							fmt.Sprintf("source gave %s, bundle gave %s", c15short(srcKey), got.raw))
					}
				}
				rf.report(w, "run", class, witness, len(runCwds))
			}
			if urls := guard.Take(); len(urls) > 0 {
				w.Fail("wrong", "net|"+class+"|network-attempted", witness, strings.Join(urls, " "))
			}
			if len(w.SamplesLeft()) > 0 && l.Fam != "F0" && want.Resolved >= 2 {
				human := "fails: " + want.Fail
				if want.Fail == "" {
					human = model.Src(want.V)
				}
				w.Sample(l.Fam + ": " + witness + "  =>  " + c15short(human))
			}
		})
	}
}

func c15short(s string) string {
	if len(s) > 200 {
		return s[:200] + "…"
	}
	return s
}

var C15 = core.Check{
	ID: "C15", Level: "exploration", Fn: checkC15, Watchdog: 120 * time.Second,
	Rule: "all source trees of six families over the directory universe {/, a, 'a b', a/b} (thorough: + a/'a b') with go.mod sentinels at every subset of {/, a, a/b} (thorough: {/, a, 'a b', a/b}) and main.arrai in every directory: F0 go.mod content variants; F1 one import (every relative and root-relative edge x 10 target kinds/spellings: .arrai with/without extension, lexical detour, function, failing script, json implicit/explicit decoder, yaml, missing file); F2 chains main->x->leaf; F3 two imports incl. the same file by two spellings and diamonds; F4 chains of three; F5 ten exotic directory names (non-ASCII, quotes, backslash, tab, NBSP, zero-width space, control character, Latin-1 byte) as main directory or import target; each evaluated from source and bundled under 4 (cwd, main-path spelling) configurations plus once after evaluating the script with the same context (warm import cache) (the worker really chdirs) and each distinct archive run from 3 cwds (quick tier, families F2-F4: 2 configurations and 2 cwds); all outcomes compared with the reference model of import resolution; non-trivial = at least one import resolves to an existing file (the host->archive path mapping is exercised)",
	Assume: []string{
		"the recording wrapper over afero.MemMapFs resolves relative names against the process working directory exactly as afero.OsFs does",
		"cmd/arrai (package main) is mirrored, not called: evalFile and bundleCmd are re-stated over pkg/bundle.BundledScriptsTo, syntax.EvaluateExpr and syntax.EvaluateBundleCtx",
		"remote (//{https://…}) and Go-module (//{github.com/…}) imports are out of scope; a recording http transport asserts local layouts never attempt them",
		"import cycles are excluded (they do not terminate in either mode)",
	},
}
