package checks

import "verif/harness/core"

var All = []core.Check{C01, C02, C03, C04, C05, C06, C07, C08, C09, C10, C12, C13, C14, C15, C16, C18, C19, C20}
