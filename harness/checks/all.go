package checks

import "verif/harness/core"

var All = []core.Check{C14}
