package checks

import (
	"fmt"
	"strings"

	"github.com/arr-ai/arrai/rel"

	"verif/harness/core"
	"verif/harness/model"
	"verif/harness/obs"
)

// C14: //seq functions agree with their textbook definition and across the three
// sequence encodings (string, bytes, array).

type seq []int

func (s seq) key() string { // textbook reference runs on Go strings over a private alphabet
	b := make([]byte, len(s))
	for i, x := range s {
		b[i] = byte('0' + x)
	}
	return string(b)
}

func seqOf(k string) seq {
	s := make(seq, len(k))
	for i := range k {
		s[i] = int(k[i] - '0')
	}
	return s
}

func allSeqs(alpha, maxLen int) []seq {
	out := []seq{{}}
	prev := []seq{{}}
	for l := 1; l <= maxLen; l++ {
		var next []seq
		for _, p := range prev {
			for a := 1; a <= alpha; a++ {
				next = append(next, append(append(seq{}, p...), a))
			}
		}
		out = append(out, next...)
		prev = next
	}
	return out
}

var encNames = []string{"string", "bytes", "array"}

func encSeq(enc int, s seq) rel.Value {
	switch enc {
	case 0:
		r := make([]rune, len(s))
		for i, x := range s {
			r[i] = rune('a' - 1 + x)
		}
		return rel.NewString(r)
	case 1:
		b := make([]byte, len(s))
		for i, x := range s {
			b[i] = byte(x)
		}
		return rel.NewBytes(b)
	}
	vals := make([]rel.Value, len(s))
	for i, x := range s {
		vals[i] = rel.NewNumber(float64(x))
	}
	return rel.NewArray(vals...)
}

func modelSeq(enc int, s seq) *model.V {
	switch enc {
	case 0:
		r := make([]rune, len(s))
		for i, x := range s {
			r[i] = rune('a' - 1 + x)
		}
		return model.Str(string(r), 0)
	case 1:
		b := make([]byte, len(s))
		for i, x := range s {
			b[i] = byte(x)
		}
		return model.Bytes(0, b...)
	}
	items := make([]*model.V, len(s))
	for i, x := range s {
		items[i] = model.Num(float64(x))
	}
	return model.Arr(0, items...)
}

func modelSeqs(enc int, ss []seq) *model.V {
	items := make([]*model.V, len(ss))
	for i, s := range ss {
		items[i] = modelSeq(enc, s)
	}
	return model.Arr(0, items...)
}

func encSeqs(enc int, ss []seq) rel.Value {
	vals := make([]rel.Value, len(ss))
	for i, s := range ss {
		vals[i] = encSeq(enc, s)
	}
	return rel.NewArray(vals...)
}

func srcSeq(enc int, s seq) string {
	parts := make([]string, len(s))
	switch enc {
	case 0:
		for i, x := range s {
			parts[i] = string(rune('a' - 1 + x))
		}
		return `"` + strings.Join(parts, "") + `"`
	case 1:
		for i, x := range s {
			parts[i] = fmt.Sprint(x)
		}
		return "<<" + strings.Join(parts, ",") + ">>"
	}
	for i, x := range s {
		parts[i] = fmt.Sprint(x)
	}
	return "[" + strings.Join(parts, ",") + "]"
}

func srcSeqs(enc int, ss []seq) string {
	parts := make([]string, len(ss))
	for i, s := range ss {
		parts[i] = srcSeq(enc, s)
	}
	return "[" + strings.Join(parts, ",") + "]"
}

func seqClass(s seq) string {
	if len(s) == 0 {
		return "empty"
	}
	return "nonempty"
}

func checkC14(w *core.W) {
	subjects := append(allSeqs(2, 4), allSeqs(3, 3)...)
	pats := allSeqs(2, 3)
	if w.Thorough {
		subjects = append(allSeqs(2, 6), allSeqs(3, 4)...)
		pats = append(allSeqs(2, 4), allSeqs(3, 2)...)
	}
	subjects = dedupSeqs(subjects)
	pats = dedupSeqs(pats)
	news := allSeqs(2, 2)

	bin := map[string]rel.Expr{}
	for _, f := range []string{"contains", "has_prefix", "has_suffix", "trim_prefix", "trim_suffix", "split", "join"} {
		bin[f] = obs.MustCompile("//seq." + f + "(a, b)")
	}
	sub3 := obs.MustCompile("//seq.sub(a, b, c)")
	concat := obs.MustCompile("//seq.concat(a)")
	repeat := obs.MustCompile("//seq.repeat(n, a)")

	// verdict compares the real outcome with the expected model value under encoding enc
	verdict := func(fn string, enc int, o obs.Outcome, want *model.V, argClasses string, witness func() string) string {
		sigBase := fn + "|" + encNames[enc] + "|" + argClasses + "|"
		switch {
		case o.Panic != "":
			w.Fail("panic", o.Panic, witness(), "")
			return "panic"
		case o.Err != nil:
			w.Fail("wrong", sigBase+"error-instead-of-value", witness(), core.NormMsg(o.Err.Error()))
			return "error"
		}
		got, err := obs.Denote(o.V)
		if err != nil {
			w.Fail("wrong", sigBase+"undenotable-result", witness(), err.Error())
			return "undenotable"
		}
		if !model.Equal(got, want) {
			w.Fail("wrong", sigBase+"wrong-result", witness(), "got "+model.Src(got)+" want "+model.Src(want))
			return "wrong"
		}
		return got.Enc()
	}

	textbook := map[string]func(p, s string) any{
		"contains":    func(p, s string) any { return strings.Contains(s, p) },
		"has_prefix":  func(p, s string) any { return strings.HasPrefix(s, p) },
		"has_suffix":  func(p, s string) any { return strings.HasSuffix(s, p) },
		"trim_prefix": func(p, s string) any { return strings.TrimPrefix(s, p) },
		"trim_suffix": func(p, s string) any { return strings.TrimSuffix(s, p) },
		"split":       func(p, s string) any { return strings.Split(s, p) },
	}
	fnames := []string{"contains", "has_prefix", "has_suffix", "trim_prefix", "trim_suffix", "split"}

	k := 0
	for _, s := range subjects {
		for _, p := range pats {
			k++
			if !w.Mine(k) {
				continue
			}
			s, p := s, p
			for _, fn := range fnames {
				fn := fn
				ref := textbook[fn](p.key(), s.key())
				// non-trivial: the pattern's first element occurs in the subject (something to match)
				nontrivial := len(p) > 0 && len(s) > 0 && strings.ContainsRune(s.key(), rune(p.key()[0]))
				var results [3]string
				for enc := 0; enc < 3; enc++ {
					enc := enc
					w.Case(func() string {
						return fmt.Sprintf("%s|%s ## //seq.%s(%s, %s)", fn, encNames[enc], fn, srcSeq(enc, p), srcSeq(enc, s))
					}, func() {
						var want *model.V
						switch r := ref.(type) {
						case bool:
							want = model.Bool(r)
						case string:
							want = modelSeq(enc, seqOf(r))
						case []string:
							var parts []seq
							for _, x := range r {
								parts = append(parts, seqOf(x))
							}
							want = modelSeqs(enc, parts)
						}
						o := obs.Eval(bin[fn], obs.Scope("a", encSeq(enc, p), "b", encSeq(enc, s)))
						w.Eval(nontrivial)
						results[enc] = verdict(fn, enc, o, want, seqClass(p)+","+seqClass(s), func() string {
							return fmt.Sprintf("//seq.%s(%s, %s)", fn, srcSeq(enc, p), srcSeq(enc, s))
						})
					})
				}
				w.Note("outcomes", fn+":"+fmt.Sprint(ref))
			}
			if len(w.SamplesLeft()) > 0 && len(p) == 2 && len(s) == 3 {
				w.Sample(fmt.Sprintf("//seq.contains(%s, %s) in 3 encodings vs textbook", srcSeq(2, p), srcSeq(2, s)))
			}
		}
	}
	// sub(old, new, subject)
	for _, s := range subjects {
		for _, p := range pats {
			k++
			if !w.Mine(k) {
				continue
			}
			for _, nw := range news {
				s, p, nw := s, p, nw
				ref := strings.ReplaceAll(s.key(), p.key(), nw.key())
				nontrivial := strings.Contains(s.key(), p.key()) && len(p) > 0
				for enc := 0; enc < 3; enc++ {
					enc := enc
					w.Case(func() string {
						return fmt.Sprintf("sub|%s ## //seq.sub(%s, %s, %s)", encNames[enc], srcSeq(enc, p), srcSeq(enc, nw), srcSeq(enc, s))
					}, func() {
						o := obs.Eval(sub3, obs.Scope("a", encSeq(enc, p), "b", encSeq(enc, nw), "c", encSeq(enc, s)))
						w.Eval(nontrivial)
						verdict("sub", enc, o, modelSeq(enc, seqOf(ref)), seqClass(p)+","+seqClass(nw)+","+seqClass(s), func() string {
							return fmt.Sprintf("//seq.sub(%s, %s, %s)", srcSeq(enc, p), srcSeq(enc, nw), srcSeq(enc, s))
						})
					})
				}
			}
		}
	}
	// join(joiner, parts), concat(parts), and join∘split = identity
	small := allSeqs(2, 2)
	var partLists [][]seq
	for _, a := range small {
		partLists = append(partLists, []seq{a})
		for _, b := range small {
			partLists = append(partLists, []seq{a, b})
			if w.Thorough || len(a)+len(b) <= 2 {
				for _, c := range small {
					partLists = append(partLists, []seq{a, b, c})
				}
			}
		}
	}
	for _, parts := range partLists {
		k++
		if !w.Mine(k) {
			continue
		}
		parts := parts
		keys := make([]string, len(parts))
		for i, p := range parts {
			keys[i] = p.key()
		}
		allEmpty := strings.Join(keys, "") == ""
		for enc := 0; enc < 3; enc++ {
			enc := enc
			if !(enc == 1) { // //seq.concat and join are documented for strings and arrays only
				w.Case(func() string { return fmt.Sprintf("concat|%s ## //seq.concat(%s)", encNames[enc], srcSeqs(enc, parts)) }, func() {
					o := obs.Eval(concat, obs.Scope("a", encSeqs(enc, parts)))
					w.Eval(len(parts) > 1 && !allEmpty)
					verdict("concat", enc, o, modelSeq(enc, seqOf(strings.Join(keys, ""))), emptiness(parts), func() string {
						return fmt.Sprintf("//seq.concat(%s)", srcSeqs(enc, parts))
					})
				})
			}
			for _, j := range small {
				j := j
				if enc == 1 {
					continue
				}
				w.Case(func() string {
					return fmt.Sprintf("join|%s ## //seq.join(%s, %s)", encNames[enc], srcSeq(enc, j), srcSeqs(enc, parts))
				}, func() {
					o := obs.Eval(bin["join"], obs.Scope("a", encSeq(enc, j), "b", encSeqs(enc, parts)))
					w.Eval(len(parts) > 1 && len(j) > 0)
					verdict("join", enc, o, modelSeq(enc, seqOf(strings.Join(keys, j.key()))), seqClass(j)+","+emptiness(parts), func() string {
						return fmt.Sprintf("//seq.join(%s, %s)", srcSeq(enc, j), srcSeqs(enc, parts))
					})
				})
			}
		}
	}
	// repeat
	for _, s := range subjects {
		k++
		if !w.Mine(k) || len(s) > 3 {
			continue
		}
		s := s
		for n := 0; n <= 3; n++ {
			n := n
			for enc := 0; enc < 3; enc += 2 { // documented for strings and arrays
				enc := enc
				w.Case(func() string {
					return fmt.Sprintf("repeat|%s ## //seq.repeat(%d, %s)", encNames[enc], n, srcSeq(enc, s))
				}, func() {
					o := obs.Eval(repeat, obs.Scope("n", rel.NewNumber(float64(n)), "a", encSeq(enc, s)))
					w.Eval(n > 1 && len(s) > 0)
					verdict("repeat", enc, o, modelSeq(enc, seqOf(strings.Repeat(s.key(), n))), seqClass(s), func() string {
						return fmt.Sprintf("//seq.repeat(%d, %s)", n, srcSeq(enc, s))
					})
				})
			}
		}
	}
}

// emptiness is the shape class of a list of parts.
func emptiness(parts []seq) string {
	e := 0
	for _, p := range parts {
		if len(p) == 0 {
			e++
		}
	}
	switch e {
	case 0:
		return "parts:all-nonempty"
	case len(parts):
		return "parts:all-empty"
	}
	return "parts:some-empty"
}

func dedupSeqs(l []seq) []seq {
	seen := map[string]bool{}
	var out []seq
	for _, s := range l {
		if !seen[s.key()] {
			seen[s.key()] = true
			out = append(out, s)
		}
	}
	return out
}

var C14 = core.Check{
	ID: "C14", Level: "exploration", Fn: checkC14,
	Rule:   "all subject sequences over {1,2} (len<=4 quick / <=6 thorough) and {1,2,3} (len<=3 / <=4) x all patterns/delimiters (len<=3 / <=4, empty included) x ten //seq functions x three encodings (string, bytes, array), each compared with the textbook result computed on Go strings; non-trivial = the operation has something to do (pattern's first element occurs in the subject / >1 part / n>1)",
	Assume: []string{"reference = Go strings package on a private alphabet", "offset and sparse arrays as //seq inputs are exercised by C10, not here"},
}
