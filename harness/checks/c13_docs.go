package checks

import (
	"encoding/json"
	"fmt"
	"math"
	"sort"
	"strconv"
	"strings"
	"time"

	"gopkg.in/yaml.v3"

	"github.com/arr-ai/arrai/rel"

	"verif/harness/model"
)

// C13 document grammar: a finite family of JSON documents (which are also YAML flow
// documents), the reference parsers (Go's encoding/json and yaml.v3) and the content
// comparison used as oracle.

type c13doc struct {
	k    byte // 'n' null, 't' true, 'f' false, '#' number, 's' string, 'a' array, 'o' object, 'r' raw text
	lit  string
	s    string
	kids []*c13doc
	keys []string
	name string // raw documents: feature name used in signatures
	txt  string
}

func c13null() *c13doc           { return &c13doc{k: 'n'} }
func c13bool(b bool) *c13doc     { return &c13doc{k: map[bool]byte{true: 't', false: 'f'}[b]} }
func c13num(l string) *c13doc    { return &c13doc{k: '#', lit: l} }
func c13str(s string) *c13doc    { return &c13doc{k: 's', s: s} }
func c13raw(n, t string) *c13doc { return &c13doc{k: 'r', name: n, txt: t} }

// c13quote renders a string as a double-quoted scalar valid in JSON and in YAML.
func c13quote(s string) string {
	var sb strings.Builder
	sb.WriteByte('"')
	for _, r := range s {
		switch {
		case r == '"':
			sb.WriteString(`\"`)
		case r == '\\':
			sb.WriteString(`\\`)
		case r == '\n':
			sb.WriteString(`\n`)
		case r < 0x20 || r == 0x7f:
			fmt.Fprintf(&sb, `\u%04x`, r)
		default:
			sb.WriteRune(r)
		}
	}
	sb.WriteByte('"')
	return sb.String()
}

func (d *c13doc) text() string {
	if d.txt != "" || d.k == 'r' {
		return d.txt
	}
	switch d.k {
	case 'n':
		d.txt = "null"
	case 't':
		d.txt = "true"
	case 'f':
		d.txt = "false"
	case '#':
		d.txt = d.lit
	case 's':
		d.txt = c13quote(d.s)
	case 'a':
		parts := make([]string, len(d.kids))
		for i, c := range d.kids {
			parts[i] = c.text()
		}
		d.txt = "[" + strings.Join(parts, ", ") + "]"
	case 'o':
		parts := make([]string, len(d.kids))
		for i, c := range d.kids {
			parts[i] = c13quote(d.keys[i]) + ": " + c.text()
		}
		d.txt = "{" + strings.Join(parts, ", ") + "}"
	}
	return d.txt
}

func (d *c13doc) depth() int {
	m := 0
	for _, c := range d.kids {
		if x := c.depth(); x > m {
			m = x
		}
	}
	if d.k == 'a' || d.k == 'o' {
		return m + 1
	}
	return 0
}

// feature is the input class used in error signatures.
func (d *c13doc) feature() string {
	if d.k == 'r' {
		return d.name
	}
	emptyKey, dupKey := false, false
	var walk func(x *c13doc)
	walk = func(x *c13doc) {
		for i, k := range x.keys {
			if k == "" {
				emptyKey = true
			}
			for j := 0; j < i; j++ {
				if x.keys[j] == k {
					dupKey = true
				}
			}
		}
		for _, c := range x.kids {
			walk(c)
		}
	}
	walk(d)
	switch {
	case emptyKey:
		return "empty-key"
	case dupKey:
		return "duplicate-key"
	}
	return "plain"
}

// special reports whether the document contains one of the kinds the translators
// special-case: empty string/array/object, null, boolean.
func (d *c13doc) special() bool {
	switch d.k {
	case 'n', 't', 'f':
		return true
	case 's':
		return d.s == ""
	case 'a', 'o':
		if len(d.kids) == 0 {
			return true
		}
		for _, c := range d.kids {
			if c.special() {
				return true
			}
		}
	case 'r':
		return true
	}
	return false
}

func (d *c13doc) topKind() string {
	switch d.k {
	case 'n':
		return "null"
	case 't', 'f':
		return "bool"
	case '#':
		return "number"
	case 's':
		return "string"
	case 'a':
		return "array"
	case 'o':
		return "object"
	}
	return "raw:" + d.name
}

// c13containers: every array and every object with at most maxKids children drawn from
// children (with repetition, ordered) and keys drawn from keys (duplicates included).
func c13containers(children []*c13doc, keys []string, maxKids int) []*c13doc {
	return c13containersK(children, keys, maxKids, true)
}

// c13containersK: with allKeys=false the objects of n children get two key assignments
// only: the first n keys in order (distinct) and the first key n times (duplicates).
func c13containersK(children []*c13doc, keys []string, maxKids int, allKeys bool) []*c13doc {
	out := []*c13doc{{k: 'a'}, {k: 'o'}}
	var seqs [][]*c13doc
	prev := [][]*c13doc{nil}
	for n := 1; n <= maxKids; n++ {
		var next [][]*c13doc
		for _, p := range prev {
			for _, c := range children {
				next = append(next, append(append([]*c13doc{}, p...), c))
			}
		}
		seqs = append(seqs, next...)
		prev = next
	}
	for _, s := range seqs {
		out = append(out, &c13doc{k: 'a', kids: s})
	}
	for _, s := range seqs {
		// all key assignments
		ks := [][]string{nil}
		for range s {
			var nk [][]string
			for _, p := range ks {
				for _, k := range keys {
					nk = append(nk, append(append([]string{}, p...), k))
				}
			}
			ks = nk
		}
		if !allKeys {
			ks = [][]string{keys[:len(s)]}
			if len(s) > 1 {
				ks = append(ks, strings.Split(strings.Repeat(keys[0]+"\x00", len(s)-1)+keys[0], "\x00"))
			}
		}
		for _, k := range ks {
			out = append(out, &c13doc{k: 'o', kids: s, keys: k})
		}
	}
	return out
}

var c13runes = []rune{'a', '"', '\\', '/', '\n', 0, ' ', '<', 'é', '\u2028', '😀', '#'}

// strings that YAML would read as something else if the encoder did not quote them
var c13trickyStrings = []string{"yes", "no", "~", "null", "true", "1", "0x10", "1e3", ".inf", "- a", "a: b", "[a]", "{a}",
	" a", "a ", "a\nb", "a\n", "\na", "'", "2001-01-01", "<<", "*a", "&a", "!a", "|", ">", "%a", "@a", "`a"}

func c13numbers() []*c13doc {
	return []*c13doc{c13num("0"), c13num("-1"), c13num("0.5"), c13num("1e21"), c13num("9007199254740991")}
}

// c13scalars is family F0: null, booleans, the five numbers, every string of length <= 2
// over the 12 runes, and the tricky strings.
func c13scalars() []*c13doc {
	out := []*c13doc{c13null(), c13bool(true), c13bool(false)}
	out = append(out, c13numbers()...)
	out = append(out, c13str(""))
	for _, a := range c13runes {
		out = append(out, c13str(string(a)))
	}
	for _, a := range c13runes {
		for _, b := range c13runes {
			out = append(out, c13str(string([]rune{a, b})))
		}
	}
	for _, s := range c13trickyStrings {
		out = append(out, c13str(s))
	}
	return out
}

// JSON-only spellings (escape forms, whitespace, number forms)
func c13jsonRaw() []*c13doc {
	return []*c13doc{
		c13raw("json:unicode-escape", `"\u00e9"`),
		c13raw("json:surrogate-pair", `"\ud83d\ude00"`),
		c13raw("json:lone-surrogate", `"\ud800"`),
		c13raw("json:escaped-slash", `"\/"`),
		c13raw("json:control-escapes", `"\b\f\r\t"`),
		c13raw("json:whitespace", " [ 1 ,\n\t2 ] \n"),
		c13raw("json:exponent-forms", `[1E2, 1e+2, 1.0, 0e0, -0, 1e-7, 123456789012345678901234567890]`),
		c13raw("json:number-out-of-range", `1e400`),
		c13raw("json:trailing-garbage", `1 2`),
		c13raw("json:unterminated", `[1`),
		c13raw("json:bare-word", `yes`),
		c13raw("json:single-quotes", `'a'`),
	}
}

// YAML-only spellings
func c13yamlRaw() []*c13doc {
	return []*c13doc{
		c13raw("yaml:empty-document", ``),
		c13raw("yaml:tilde", `~`),
		c13raw("yaml:yes", `yes`),
		c13raw("yaml:no-in-seq", "- no\n- on\n- off\n"),
		c13raw("yaml:hex", `0x10`),
		c13raw("yaml:octal", "- 0o17\n- 010\n"),
		c13raw("yaml:underscore-number", `1_000`),
		c13raw("yaml:inf", "- .inf\n- -.inf\n"),
		c13raw("yaml:nan", `.nan`),
		c13raw("yaml:big-int", `9007199254740993`),
		c13raw("yaml:int64-max", `9223372036854775807`),
		c13raw("yaml:uint64", `18446744073709551615`),
		c13raw("yaml:timestamp", `2001-01-01`),
		c13raw("yaml:binary", `!!binary aGk=`),
		c13raw("yaml:str-tag", `!!str 1`),
		c13raw("yaml:single-quoted", `'it''s'`),
		c13raw("yaml:plain-multiword", `a b  c`),
		c13raw("yaml:literal-block", "|\n  a\n  b\n"),
		c13raw("yaml:literal-block-keep", "|+\n  a\n\n"),
		c13raw("yaml:folded-block", ">\n  a\n  b\n\n  c\n"),
		c13raw("yaml:block-seq", "- a\n- - b\n  - c\n-\n"),
		c13raw("yaml:block-map", "a: 1\nb:\n  c: ~\n  d: []\n"),
		c13raw("yaml:map-in-seq", "- a: 1\n  b: 2\n- {}\n"),
		c13raw("yaml:non-string-key", `1: a`),
		c13raw("yaml:non-string-key", `true: a`),
		c13raw("yaml:non-string-key", `~: a`),
		c13raw("yaml:non-string-key", `0.5: a`),
		c13raw("yaml:complex-key", "? [1]\n: a\n"),
		c13raw("yaml:anchor-alias", "a: &x [1, 2]\nb: *x\n"),
		c13raw("yaml:merge-key", "a: &x {p: 1}\nb:\n  <<: *x\n  q: 2\n"),
		c13raw("yaml:document-marker", "---\na\n...\n"),
		c13raw("yaml:comment", "a # c\n"),
		c13raw("yaml:duplicate-key", "a: 1\na: 2\n"),
		c13raw("yaml:tab-indent", "a:\n\t- 1\n"),
	}
}

// ---- reference parsers and content comparison ----

type c13time string

func c13refParse(codec string, b []byte) (any, error) {
	var x any
	if codec == "json" {
		if err := json.Unmarshal(b, &x); err != nil {
			return nil, err
		}
		return c13norm(x), nil
	}
	if err := yaml.Unmarshal(b, &x); err != nil {
		return nil, err
	}
	return c13norm(x), nil
}

// c13norm: numbers become float64, map keys are tagged with their type (a string key and
// an integer key are different content), timestamps become c13time.
func c13norm(x any) any {
	switch v := x.(type) {
	case nil, bool, string, float64:
		return v
	case int:
		return float64(v)
	case int64:
		return float64(v)
	case uint64:
		return float64(v)
	case uint:
		return float64(v)
	case []byte:
		return string(v)
	case time.Time:
		return c13time(v.UTC().Format(time.RFC3339Nano))
	case []any:
		out := make([]any, len(v))
		for i, e := range v {
			out[i] = c13norm(e)
		}
		return out
	case map[string]any:
		out := map[string]any{}
		for k, e := range v {
			out["s:"+k] = c13norm(e)
		}
		return out
	case map[any]any:
		out := map[string]any{}
		for k, e := range v {
			if s, ok := k.(string); ok {
				out["s:"+s] = c13norm(e)
			} else {
				out[fmt.Sprintf("%T:%v", k, k)] = c13norm(e)
			}
		}
		return out
	}
	return fmt.Sprintf("unknown %T", x)
}

func c13kind(x any) string {
	switch v := x.(type) {
	case nil:
		return "null"
	case bool:
		if v {
			return "true"
		}
		return "false"
	case float64:
		return "number"
	case string:
		if v == "" {
			return "empty-string"
		}
		return "string"
	case c13time:
		return "timestamp"
	case []any:
		if len(v) == 0 {
			return "empty-array"
		}
		return "array"
	case map[string]any:
		if len(v) == 0 {
			return "empty-object"
		}
		return "object"
	}
	return "unknown"
}

// c13diff returns "" when the contents are the same, else a short description of the
// first difference (deterministic order).
func c13diff(a, b any) string {
	ka, kb := c13kind(a), c13kind(b)
	if ka != kb {
		return ka + "→" + kb
	}
	switch va := a.(type) {
	case float64:
		vb := b.(float64)
		if va != vb && !(math.IsNaN(va) && math.IsNaN(vb)) {
			return "number-value"
		}
	case string:
		if va != b.(string) {
			return "string-value"
		}
	case c13time:
		if va != b.(c13time) {
			return "timestamp-value"
		}
	case []any:
		vb := b.([]any)
		if len(va) != len(vb) {
			return "array-length"
		}
		for i := range va {
			if d := c13diff(va[i], vb[i]); d != "" {
				return d
			}
		}
	case map[string]any:
		vb := b.(map[string]any)
		keys := make([]string, 0, len(va))
		for k := range va {
			keys = append(keys, k)
		}
		sort.Strings(keys)
		for _, k := range keys {
			if _, ok := vb[k]; !ok {
				if !strings.HasPrefix(k, "s:") {
					// a key that is not a string: recorded finding when it comes back as its text with the same
					// content; anything else is an entry that was lost or filed under a different key
					if i := strings.Index(k, ":"); i >= 0 {
						if e, ok := vb["s:"+k[i+1:]]; ok && c13diff(va[k], e) == "" {
							return "non-string-key-stringified"
						}
					}
					return "non-string-key-missing"
				}
				return "key-missing"
			}
		}
		if len(va) != len(vb) {
			return "key-added"
		}
		for _, k := range keys {
			if d := c13diff(va[k], vb[k]); d != "" {
				return d
			}
		}
	}
	return ""
}

// ---- value classes (on the model) used in signatures of the value-driven families ----

func c13vclass(m *model.V) string {
	switch m.K {
	case model.KNum:
		return "number"
	case model.KTuple:
		return "tuple"
	}
	if len(m.Mem) == 0 {
		return "empty-set"
	}
	if model.Equal(m, model.True) {
		return "true"
	}
	attr, nums, tuples := "", 0, 0
	same := true
	idx := map[int]bool{}
	minI, maxI := 1<<30, -(1 << 30)
	dupIdx, strKeys := false, true
	keys := map[string]bool{}
	for _, e := range m.Mem {
		switch e.K {
		case model.KNum:
			nums++
		case model.KTuple:
			tuples++
		}
		a, ok := model.SeqAttr(e)
		if !ok {
			same = false
			continue
		}
		if attr == "" {
			attr = a
		} else if attr != a {
			same = false
		}
		at := e.Vals[0]
		if a == "@value" {
			if keys[at.Enc()] {
				dupIdx = true
			}
			keys[at.Enc()] = true
			if c := c13vclass(at); c != "string" {
				strKeys = false
			}
			continue
		}
		if at.K != model.KNum || at.N != math.Trunc(at.N) {
			same = false
			continue
		}
		i := int(at.N)
		if idx[i] {
			dupIdx = true
		}
		idx[i] = true
		if i < minI {
			minI = i
		}
		if i > maxI {
			maxI = i
		}
	}
	if same && attr != "" {
		var name string
		switch attr {
		case "@char":
			name = "string"
		case "@item":
			name = "array"
		case "@byte":
			name = "bytes"
		case "@value":
			name = "dict"
			if dupIdx {
				return name + ":multi"
			}
			if !strKeys {
				return name + ":non-string-key"
			}
			return name
		default:
			return "relation"
		}
		switch {
		case dupIdx:
			name += ":superimposed"
		case maxI-minI+1 != len(idx):
			name += ":holes"
		case minI != 0:
			name += ":offset"
		}
		return name
	}
	switch {
	case nums == len(m.Mem):
		return "set-of-numbers"
	case tuples == len(m.Mem):
		return "relation"
	}
	return "mixed-set"
}

// c13untag removes the strict-mode discriminating tags (s:), (a:), (b:) wherever they wrap
// a value of the matching kind, so that a leniently accepted untagged spelling and its
// tagged decoding compare equal.
func c13untag(m *model.V) *model.V {
	switch m.K {
	case model.KNum:
		return m
	case model.KTuple:
		if len(m.Names) == 1 {
			inner := m.Vals[0]
			c := ""
			if inner.K == model.KSet {
				c = c13vclass(inner)
			}
			switch m.Names[0] {
			case "s":
				if c == "string" || c == "empty-set" {
					return inner
				}
			case "a":
				if c == "array" || c == "empty-set" {
					return c13untag(inner)
				}
			case "b":
				if c == "true" || c == "empty-set" {
					return inner
				}
			}
		}
		attrs := map[string]*model.V{}
		for i, n := range m.Names {
			attrs[n] = c13untag(m.Vals[i])
		}
		return model.TupMap(attrs)
	}
	mem := make([]*model.V, len(m.Mem))
	for i, e := range m.Mem {
		mem[i] = c13untag(e)
	}
	return model.Set(mem...)
}

// ---- documents as wire-format values: object -> tuple, array -> array, null -> () ----

func (d *c13doc) hasDupKey() bool {
	for i, k := range d.keys {
		for j := 0; j < i; j++ {
			if d.keys[j] == k {
				return true
			}
		}
	}
	for _, c := range d.kids {
		if c.hasDupKey() {
			return true
		}
	}
	return false
}

func (d *c13doc) wireValue() (rel.Value, *model.V) {
	switch d.k {
	case 'n':
		return rel.NewTuple(), model.Tup()
	case 't':
		return rel.NewBool(true), model.True
	case 'f':
		return rel.NewBool(false), model.Empty
	case '#':
		f, _ := strconv.ParseFloat(d.lit, 64)
		return rel.NewNumber(f), model.Num(f)
	case 's':
		return rel.NewString([]rune(d.s)), model.Str(d.s, 0)
	case 'a':
		vs := make([]rel.Value, len(d.kids))
		ms := make([]*model.V, len(d.kids))
		for i, c := range d.kids {
			vs[i], ms[i] = c.wireValue()
		}
		return rel.NewArray(vs...), model.Arr(0, ms...)
	}
	attrs := make([]rel.Attr, len(d.kids))
	mm := map[string]*model.V{}
	for i, c := range d.kids {
		v, m := c.wireValue()
		attrs[i] = rel.NewAttr(d.keys[i], v)
		mm[d.keys[i]] = m
	}
	return rel.NewTuple(attrs...), model.TupMap(mm)
}

// wireSrc renders the wire value as arr.ai source for witnesses.
func (d *c13doc) wireSrc() string {
	switch d.k {
	case 'n':
		return "()"
	case 'a':
		parts := make([]string, len(d.kids))
		for i, c := range d.kids {
			parts[i] = c.wireSrc()
		}
		return "[" + strings.Join(parts, ", ") + "]"
	case 'o':
		parts := make([]string, len(d.kids))
		for i, c := range d.kids {
			parts[i] = strconv.Quote(d.keys[i]) + ": " + c.wireSrc()
		}
		return "(" + strings.Join(parts, ", ") + ")"
	}
	return d.text()
}
