package checks

import (
	"fmt"
	"strconv"
	"strings"
	"time"

	"github.com/arr-ai/arrai/pkg/fu"
	"github.com/arr-ai/arrai/rel"

	"verif/harness/core"
	"verif/harness/model"
	"verif/harness/obs"
	"verif/harness/rsx"
)

// C12: printed values read back as the same value.
//
// v -> fu.Repr(v) -> syntax.EvaluateExpr -> v'; require that the printed text parses, that
// v' denotes the same value as v (and v' = v), and that v' prints identically.

var c12Runes = []rune{
	0, 1, 7, 8, 9, 10, 11, 12, 13, 27, 31, // C0 controls
	' ', '!', '"', '\'', '`', '\\', '$', '{', '}', ':', '#', '%',
	'0', '1', '7', '8', 'a', 'b', 'f', 'n', 'x', 'u', 'A', 'F', 'Z', '_', '@', '.', '-',
	0x7f, 0x80, 0xa0, 0xe9, 0xff, 0x100, 0x2028, 0xfffd, 0xffff, 0x1f600, 0x10ffff,
}

var c12Numbers = []string{"0", "-0", "1", "-1", "0.5", "-0.5", "1e21", "1e-7", "123456789.25", "0.1", "1e100", "-1e-100", "255", "65536", "4294967296", "9007199254740991", "0.000001", "1.5e300"}

func runeClass(r rune) string {
	switch {
	case r < 0x20:
		return "c0"
	case r == '"' || r == '\'' || r == '`':
		return "quote"
	case r == '\\':
		return "backslash"
	case r == '$' || r == '{' || r == '}' || r == ':':
		return "meta"
	case r >= '0' && r <= '9' || r >= 'a' && r <= 'f' || r >= 'A' && r <= 'F':
		return "hexdigit"
	case r < 0x7f:
		return "ascii"
	case r < 0x100:
		return "latin1"
	case r > 0xffff:
		return "astral"
	}
	return "bmp"
}

func strClass(rs []rune) string {
	seen := map[string]bool{}
	var cs []string
	for _, r := range rs {
		c := runeClass(r)
		if !seen[c] {
			seen[c] = true
			cs = append(cs, c)
		}
	}
	return strings.Join(cs, "+")
}

func checkC12(w *core.W) {
	sp := rsx.New(w, 2)
	sp.BuildGen0()
	c02Extra(sp)
	c06Extra(sp)
	ex := rsx.NewExpander(sp)
	if w.Round == 0 {
		ex.Discover(1, 0, nil)
		return
	}
	ex.OnePerClass = w.Quick()
	ex.LoadRecipes(w.Prev["newstates"])
	if w.Shard == 0 {
		w.AddStates(len(sp.States))
	}
	roundTrip := func(v rel.Value, m *model.V, class, how string) (ok bool) {
		var text string
		if p := core.Try(func() { text = fu.Repr(v) }); p != "" {
			w.Fail("panic", p, "repr of "+how, "")
			return
		}
		w.Eval(true)
		if m == nil {
			m, _ = obs.Denote(v)
		}
		taint := ""
		if m != nil {
			taint = model.Taint(m)
		}
		sig := func(kind string) string {
			if taint != "" {
				return "taint:" + taint + "|repr|" + kind
			}
			return "repr|" + class + "|" + kind
		}
		// parse errors of wbnf can take exponential time to render: never call Error() on them
		e, co := obs.Compile(text)
		if co.Panic != "" {
			w.Fail("panic", co.Panic, "reading back "+strconv.Quote(text)+" printed for "+how, "")
			return
		}
		if e == nil {
			w.Fail("wrong", sig("printed-text-does-not-parse"), how+" prints as "+strconv.Quote(text), fmt.Sprintf("%T", co.Err))
			return
		}
		o := obs.Eval(e, rel.EmptyScope)
		if !o.OK() {
			w.Fail("wrong", sig("printed-text-does-not-evaluate"), how+" prints as "+strconv.Quote(text), o.Panic)
			return
		}
		if m == nil {
			return
		}
		m2, err := obs.Denote(o.V)
		if err != nil || !model.Equal(m, m2) {
			got := "?"
			if m2 != nil {
				got = model.Src(m2)
			}
			w.Fail("wrong", sig("reads-back-as-a-different-value"), how+" prints as "+strconv.Quote(text), "reads back as "+short(got))
			return
		}
		if !v.Equal(o.V) || !o.V.Equal(v) {
			w.Fail("wrong", sig("read-back-value-not-equal"), how+" prints as "+strconv.Quote(text), "")
			return
		}
		return true
	}
	// ---- every state of the representation space
	for i, s := range sp.States {
		if !w.Mine(i) {
			continue
		}
		s := s
		w.Case(func() string { return "repr-state|" + s.Class + " ## " + s.Prog }, func() {
			if !roundTrip(s.V, s.M, s.Class, "("+s.Prog+")") {
				return // wrapping a value that does not round-trip adds nothing
			}
			// nested: as a member, an attribute value, an array item and a dict key/value
			for _, wrap := range []struct{ name, src string }{{"in-set", "{x, 7}"}, {"in-tuple", "(a: x)"}, {"in-array", "[x]"}, {"dict-value", "{1: x}"}, {"dict-key", "{x: 1}"}} {
				o := obs.Eval(obs.MustCompile(wrap.src), obs.Scope("x", s.V))
				if o.OK() {
					roundTrip(o.V, nil, wrap.name+":"+baseKind(s.Class), strings.Replace(wrap.src, "x", "("+s.Prog+")", 1))
				}
			}
		})
	}
	// ---- strings: all sequences of length <= 2 (quick) / <= 3 over the first 24 runes (thorough) of the rune alphabet
	var strs [][]rune
	for _, a := range c12Runes {
		strs = append(strs, []rune{a})
		for _, b := range c12Runes {
			strs = append(strs, []rune{a, b})
		}
	}
	// all strings of length 3 over the runes that interact with quoting and escaping
	hard := []rune{'\'', '"', '`', '\\', '\n', 0, '$', 'a', '0', 0xe9}
	for _, a := range hard {
		for _, b := range hard {
			for _, c := range hard {
				strs = append(strs, []rune{a, b, c})
			}
		}
	}
	if w.Thorough {
		sub := c12Runes[:24]
		for _, a := range sub {
			for _, b := range sub {
				for _, c := range sub {
					strs = append(strs, []rune{a, b, c})
				}
			}
		}
	}
	for i := 0; i < len(strs); i += 50 {
		if !w.Mine(i / 50) {
			continue
		}
		lo, hi := i, i+50
		if hi > len(strs) {
			hi = len(strs)
		}
		w.Case(func() string {
			return "repr-strings|" + strClass(strs[lo]) + " ## strings #" + strconv.Itoa(lo) + ".." + strconv.Itoa(hi)
		}, func() {
			for _, rs := range strs[lo:hi] {
				q := strconv.QuoteToASCII(string(rs))
				str := rel.NewString(rs)
				if roundTrip(str, model.Str(string(rs), 0), "string:"+strClass(rs), "the string "+q) {
					roundTrip(rel.NewOffsetString(rs, 2), model.Str(string(rs), 2), "offset-string", "the string 2\\"+q)
				}
				// the same text as an attribute name and as bytes
				t := rel.NewTuple(rel.NewAttr(string(rs), rel.NewNumber(1)))
				roundTrip(t, model.Tup(string(rs), model.Num(1)), "attr-name:"+strClass(rs), "the tuple with attribute name "+q)
				rl, err := rel.NewSet(t)
				if err == nil {
					roundTrip(rl, model.Set(model.Tup(string(rs), model.Num(1))), "relation-heading:"+strClass(rs), "the relation with attribute name "+q)
				}
				if allBytes(rs) {
					b := make([]byte, len(rs))
					for i, r := range rs {
						b[i] = byte(r)
					}
					if roundTrip(rel.NewBytes(b), model.Bytes(0, b...), "bytes:"+strClass(rs), "the bytes "+q) {
						roundTrip(rel.NewOffsetBytes(b, 1), model.Bytes(1, b...), "offset-bytes", "the bytes 1\\"+q)
					}
				}
			}
		})
	}
	// ---- numbers
	if w.Shard == 0 {
		w.Case(func() string { return "repr-numbers ## the number list" }, func() {
			for _, ns := range c12Numbers {
				f, _ := strconv.ParseFloat(ns, 64)
				roundTrip(rel.NewNumber(f), model.Num(f), "number", "the number "+ns)
				roundTrip(rel.NewTuple(rel.NewAttr("n", rel.NewNumber(f))), nil, "number-in-tuple", "(n: "+ns+")")
			}
		})
		w.Sample(map[string]string{"round_trip": "v -> fu.Repr(v) -> syntax.Compile+Eval -> v'", "example_state": sp.States[len(sp.States)/2].Prog})
	}
}

func allBytes(rs []rune) bool {
	for _, r := range rs {
		if r > 0xff {
			return false
		}
	}
	return true
}

var C12 = core.Check{
	ID: "C12", Level: "exploration", Fn: checkC12, Rounds: func(string) int { return 2 }, Watchdog: 60 * time.Second,
	Rule:   "values = every state of the reachable-representation space (every representation: offsets, holes, multi-valued dicts, union sets, relations, nested) alone and wrapped as set member, attribute value, array item, dict value and dict key; every string of length <=2 over a 51-rune alphabet (all classes: C0 controls, the three quotes, backslash, $ { } :, hex digits that matter after an escape, DEL, Latin-1, BMP specials, astral) and every string of length 3 over the 10 runes that interact with quoting and escaping (thorough: also length 3 over 24 runes) as string, offset string, attribute name, relation heading, bytes and offset bytes; 18 numbers with short decimal forms. Each value is printed with fu.Repr, the text compiled and evaluated, and the result must denote the same value and be = to the original both ways round (wrapped / offset variants are only judged when the plain value round-trips). non-trivial = every round trip",
	Assume: []string{"fu.Repr is the printer used by eval output, the shell and //str.repr", "parse errors are detected by type only (rendering a wbnf parse error can take exponential time: recorded under C10)"},
}
