package checks

import (
	"fmt"
	"sort"
	"strings"

	"github.com/arr-ai/arrai/pkg/fu"
	"github.com/arr-ai/arrai/rel"

	"verif/harness/core"
	"verif/harness/model"
	"verif/harness/obs"
	"verif/harness/rsx"
)

// C02: equality is extensional and equal values are interchangeable (RSX, model checking).
//
// Round 0 expands the representation space (generation 1 = operator results); round 1
// compares every ordered pair of states: `a = b` must hold exactly when the denotations
// are equal, and twins (equal denotation, different representation) must be
// indistinguishable in every context: hash, set membership, dict key, repr, and as operand
// of every binary operator against every state of a small third-operand universe.

// tuple construction paths that should all denote the same tuple as the literal
var c02TupleDerivs = []string{"x +> ()", "() +> x", "x :> ."}

// set construction paths around a (possibly non-canonical) tuple
var c02SetOfDerivs = []string{"{x}", "{x} | {}", "{x} where true"}

func c02Extra(sp *rsx.Space) {
	var tds, sds []rel.Expr
	for _, d := range c02TupleDerivs {
		tds = append(tds, obs.MustCompile(d))
	}
	for _, d := range c02SetOfDerivs {
		sds = append(sds, obs.MustCompile(d))
	}
	for _, m := range sp.Members {
		if m.M.K != model.KTuple {
			continue
		}
		for i, td := range tds {
			o := obs.Eval(td, obs.Scope("x", m.V))
			if !o.OK() {
				continue
			}
			prog := strings.ReplaceAll(c02TupleDerivs[i], "x", m.Src)
			sp.Add(o.V, prog, 0, "", "tuple-deriv")
			for j, sd := range sds {
				r := obs.Eval(sd, obs.Scope("x", o.V))
				if r.OK() {
					sp.Add(r.V, strings.ReplaceAll(c02SetOfDerivs[j], "x", "("+prog+")"), 0, "", "tuple-deriv")
				}
			}
		}
	}
}

var c02Ops = []string{"|", "&", "&~", "~~", "=", "<:", "++", "+>", "<&>", "with", "without"}

func reprOf(v rel.Value) (s string) {
	defer func() {
		if r := recover(); r != nil {
			s = fmt.Sprint("<repr panicked: ", core.NormMsg(fmt.Sprint(r)), ">")
		}
	}()
	return fu.Repr(v)
}

// reprUnordered is the printed form of a value with the members of a (top-level) set in sorted order of
// their own printed forms, unless the set prints in a sugared form (string, array, dict, relation).
func reprUnordered(v rel.Value) string {
	r := reprOf(v)
	s, isSet := v.(rel.Set)
	if !isSet || !strings.HasPrefix(r, "{") || strings.HasPrefix(r, "{|") {
		return r
	}
	if _, isDict := v.(rel.Dict); isDict {
		return r
	}
	var ms []string
	n := 0
	for e := s.Enumerator(); e.MoveNext() && n < 1000; n++ {
		ms = append(ms, reprOf(e.Current()))
	}
	sort.Strings(ms)
	return "{" + strings.Join(ms, ", ") + "}"
}

func outcomeKey(o obs.Outcome) string {
	switch {
	case o.Panic != "":
		return o.Panic
	case o.Err != nil:
		return "error"
	}
	if obs.IsFunction(o.V) {
		return "function"
	}
	m, err := obs.Denote(o.V)
	if err != nil {
		return "undenotable:" + err.Error()
	}
	return m.Enc()
}

func checkC02(w *core.W) {
	k := 2
	sp := rsx.New(w, k)
	sp.BuildGen0()
	c02Extra(sp)
	ex := rsx.NewExpander(sp)
	if w.Round == 0 {
		// discovery only: note operator results as candidate states for round 1
		ex.Discover(1, 0, nil)
		return
	}
	ex.OnePerClass = w.Quick()
	n := ex.LoadRecipes(w.Prev["newstates"])
	w.Count("states_added_round1", int64(n))
	if w.Shard == 0 {
		w.AddStates(len(sp.States))
		w.SetExtra("space", sp.Describe())
	}
	eq := obs.MustCompile("a = b")
	ne := obs.MustCompile("a != b")
	pair := obs.MustCompile("{a, b} count")
	key := obs.MustCompile("{a: 1}(b)")
	memb := obs.MustCompile("b <: {a}")
	ops := make([]rel.Expr, len(c02Ops))
	for i, op := range c02Ops {
		ops[i] = obs.MustCompile("a " + op + " b")
	}
	// third operands: every generation-0 state with at most one member, and the non-set values
	var thirds []*rsx.State
	for _, s := range sp.States {
		if s.Gen == 0 && (s.M.K != model.KSet || s.M.Count() <= 1) {
			thirds = append(thirds, s)
		}
	}
	if w.Quick() && len(thirds) > 60 {
		// quick-tier bound: the first 60 (simplest-first) third operands
		thirds = thirds[:60]
	}
	for i, a := range sp.States {
		if !w.Mine(i) {
			continue
		}
		a := a
		w.Case(func() string { return "equality|" + a.Class + " ## all pairs with left operand (" + a.Prog + ")" }, func() {
			for _, b := range sp.States {
				b := b
				same := model.Equal(a.M, b.M)
				taint := model.Taint(a.M, b.M)
				wit := func() string { return "a = (" + a.Prog + "), b = (" + b.Prog + ")" }
				report := func(class, kind, detail string) {
					sig := "eq|" + a.Class + "|" + b.Class + "|" + kind
					if taint != "" {
						sig = "taint:" + taint + "|" + class + "|" + kind
					}
					w.Fail(class, sig, wit(), detail)
				}
				boolOf := func(e rel.Expr, what string) (val, ok bool) {
					o := obs.Eval(e, obs.Scope("a", a.V, "b", b.V))
					w.AddTransitions(1)
					switch {
					case o.Panic != "":
						if taint != "" {
							w.Fail("panic", "taint:"+taint+"|panic|"+o.Panic, what+" with "+wit(), "")
						} else {
							w.Fail("panic", o.Panic, what+" with "+wit(), "")
						}
						return false, false
					case o.Err != nil:
						report("wrong", what+":error-instead-of-value", core.NormMsg(o.Err.Error()))
						return false, false
					}
					return o.V.IsTrue(), true
				}
				w.Eval(same && a.Key != b.Key)
				if v, ok := boolOf(eq, "a = b"); ok && v != same {
					if same {
						report("wrong", "equal-values-compare-unequal", "a = b is false")
					} else {
						report("wrong", "distinct-values-compare-equal", "a = b is true")
					}
				}
				if v, ok := boolOf(ne, "a != b"); ok && v == same {
					report("wrong", "!=-disagrees-with-denotation", "")
				}
				// one member or two when put in a set together
				if o := obs.Eval(pair, obs.Scope("a", a.V, "b", b.V)); o.OK() {
					w.AddTransitions(1)
					want := 2.0
					if same {
						want = 1
					}
					if nv, isNum := o.V.(rel.Number); !isNum || nv.Float64() != want {
						if same {
							report("wrong", "equal-values-not-collapsed-in-set", "{a, b} count = "+reprOf(o.V))
						} else if t := model.Taint(model.Set(a.M, b.M)); t != "" && taint == "" {
							// the set {a, b} itself lies in a known-broken region (superimposed items / multi-valued key)
							w.Fail("wrong", "taint:"+t+"|wrong|distinct-values-collapsed-in-set", wit(), "{a, b} count = "+reprOf(o.V))
						} else {
							report("wrong", "distinct-values-collapsed-in-set", "{a, b} count = "+reprOf(o.V))
						}
					}
				} else if o.Panic != "" {
					if taint != "" {
						w.Fail("panic", "taint:"+taint+"|panic|"+o.Panic, "{a, b} count with "+wit(), "")
					} else {
						w.Fail("panic", o.Panic, "{a, b} count with "+wit(), "")
					}
				}
				if v, ok := boolOf(memb, "b <: {a}"); ok && v != same {
					report("wrong", "membership-disagrees-with-denotation", fmt.Sprint("b <: {a} is ", v))
				}
				if !same || a.Key == b.Key {
					continue
				}
				// twins: indistinguishable
				if a.V.Hash(0) != b.V.Hash(0) {
					report("wrong", "twins-hash-differently", "")
				}
				// printed form: for sets the members' printed forms are compared as a multiset - the ORDER in
				// which members are printed is the business of C06/C07 (it follows Less, which has recorded defects)
				if ra, rb := reprUnordered(a.V), reprUnordered(b.V); ra != rb {
					report("wrong", "twins-print-differently", ra+" vs "+rb)
				}
				o := obs.Eval(key, obs.Scope("a", a.V, "b", b.V))
				w.AddTransitions(1)
				if !o.OK() {
					report("wrong", "twin-does-not-select-dict-entry", fmt.Sprint(o.Err, o.Panic))
				}
				if a.Key > b.Key {
					continue // substitution is symmetric: once per unordered twin pair
				}
				for _, c := range thirds {
					for oi, op := range c02Ops {
						for side := 0; side < 2; side++ {
							var oa, ob obs.Outcome
							if side == 0 {
								oa = obs.Eval(ops[oi], obs.Scope("a", a.V, "b", c.V))
								ob = obs.Eval(ops[oi], obs.Scope("a", b.V, "b", c.V))
							} else {
								oa = obs.Eval(ops[oi], obs.Scope("a", c.V, "b", a.V))
								ob = obs.Eval(ops[oi], obs.Scope("a", c.V, "b", b.V))
							}
							w.AddTransitions(2)
							w.Eval(true)
							ka, kb := outcomeKey(oa), outcomeKey(ob)
							if ka != kb {
								t2 := model.Taint(a.M, c.M)
								sig := "subst|" + op + "|" + a.Class + "~" + b.Class + "|" + c.Class
								if t2 != "" {
									sig = "taint:" + t2 + "|subst"
								}
								pos := "a op c"
								if side == 1 {
									pos = "c op a"
								}
								w.Fail("wrong", sig, "twins ("+a.Prog+") and ("+b.Prog+") differ under "+pos+" with op "+op+", c = ("+c.Prog+")", short(ka)+" vs "+short(kb))
							}
						}
					}
				}
			}
		})
	}
	if w.Shard == 0 {
		tw := sp.Twins()
		w.Count("twin_classes", int64(len(tw)))
		sort.Slice(tw, func(i, j int) bool { return len(tw[i]) > len(tw[j]) })
		for i := 0; i < len(tw) && i < 3; i++ {
			var ps []string
			for _, s := range tw[i] {
				ps = append(ps, s.Prog)
				if len(ps) == 4 {
					break
				}
			}
			w.Sample(map[string]any{"twins": ps})
		}
		sp.ReportQuarantine()
	}
}

func short(s string) string {
	if len(s) > 120 {
		return s[:120] + "…"
	}
	return s
}

var C02 = core.Check{
	ID: "C02", Level: "model_checking", Fn: checkC02, Rounds: func(string) int { return 2 },
	Rule:   "explicit-state search over reachable representations (round 0: generation 0 = every construction path of every set of <=2 members over the member alphabet, sugar literals, tuples built by +> / :> and sets of them; generation 1 = results of | & &~ ~~ ++ with without where => offset on them); round 1: every ordered pair of states is compared (a = b, a != b, {a,b} count, b <: {a}) against equality of denotations, and every pair of twins (equal denotation, different representation) must hash, print and select a dict entry identically and give denotation-equal results under 11 binary operators on either side against every third operand with <=1 member; non-trivial = twin pair (pair tests) / every substitution test",
	Assume: []string{"reference model: a value is a number, a tuple or a set; equality is equality of canonical encodings", "rel.VerifShape distinguishes representations (deduplication only)"},
}
