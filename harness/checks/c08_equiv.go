package checks

import (
	"fmt"
	"sort"
	"strings"
	"time"

	"github.com/arr-ai/arrai/rel"

	"verif/harness/c08util"
	"verif/harness/core"
	"verif/harness/obs"
)

// C08: documented source-level equivalences preserve meaning. Every program of a bounded
// space is rewritten by every applicable documented equivalence at every position; both
// sources are compiled and evaluated by the real implementation and must agree: equal
// denotations (functions: equal results on a small argument alphabet) or both fail.

// c08res is the observed meaning of one source text.
type c08res struct {
	class string // "value", "function", "cfail" (does not compile), "rfail" (fails at run time), "panic"
	fp    string // canonical fingerprint of the value ("" for failures)
	truth bool   // IsTrue of the value
	msg   string
}

func (r c08res) fails() bool { return r.class != "value" && r.class != "function" }

var c08args = []string{`0`, `1`, `{1, 2}`, `(a: 1)`, `[1, 2]`}

type c08eval struct {
	memo map[string]c08res
	args []rel.Value
	n    int64 // parses
}

func newC08Eval() *c08eval {
	e := &c08eval{memo: map[string]c08res{}}
	for _, a := range c08args {
		o := obs.Run(a)
		if !o.OK() {
			panic("harness: argument alphabet does not evaluate: " + a)
		}
		e.args = append(e.args, o.V)
	}
	return e
}

// fingerprint: data through obs.Denote (canonical encoding of the model value); a function
// is observed by applying it to the argument alphabet (two levels deep for curried ones);
// data that contains functions is walked through the public enumerators.
func (e *c08eval) fingerprint(v rel.Value, depth int) string {
	if v == nil {
		return "<nil>"
	}
	if obs.IsFunction(v) {
		if depth >= 2 {
			return "F"
		}
		parts := make([]string, len(e.args))
		for i, a := range e.args {
			parts[i] = e.apply(v.(rel.Set), a, depth)
		}
		return "F[" + strings.Join(parts, "|") + "]"
	}
	m, err := obs.Denote(v)
	if err == nil {
		return m.Enc()
	}
	if err.Error() != "function" || depth >= 3 {
		return "<undenotable:" + core.NormMsg(err.Error()) + ">"
	}
	switch x := v.(type) {
	case rel.Tuple:
		var parts []string
		for en := x.Enumerator(); en.MoveNext(); {
			name, val := en.Current()
			parts = append(parts, fmt.Sprintf("%q=%s", name, e.fingerprint(val, depth+1)))
		}
		sort.Strings(parts)
		return "T(" + strings.Join(parts, ",") + ")"
	case rel.Set:
		var parts []string
		n := 0
		for en := x.Enumerator(); en.MoveNext(); {
			if n++; n > 1000 {
				return "<endless>"
			}
			parts = append(parts, e.fingerprint(en.Current(), depth+1))
		}
		sort.Strings(parts)
		return "S{" + strings.Join(parts, ";") + "}"
	}
	return "<undenotable>"
}

func (e *c08eval) apply(f rel.Set, a rel.Value, depth int) (out string) {
	defer func() {
		if r := recover(); r != nil {
			out = "P"
		}
	}()
	v, err := rel.SetCall(obs.Ctx, f, a)
	if err != nil {
		return "E"
	}
	return e.fingerprint(v, depth+1)
}

func (e *c08eval) run(src string) c08res {
	if r, ok := e.memo[src]; ok {
		return r
	}
	e.n++
	var r c08res
	expr, co := obs.Compile(src)
	switch {
	case co.Panic != "":
		r = c08res{class: "panic", msg: co.Panic}
	case co.Err != nil:
		// never render a compile error: wbnf's ParseError.Error() takes exponential time on some inputs
		// (`(cond # c⏎{0: 1})` does not return within minutes; recorded under C10)
		r = c08res{class: "cfail", msg: fmt.Sprintf("%T", co.Err)}
	default:
		o := obs.Eval(expr, rel.EmptyScope)
		switch {
		case o.Panic != "":
			r = c08res{class: "panic", msg: o.Panic}
		case o.Err != nil:
			r = c08res{class: "rfail", msg: core.NormMsg(o.Err.Error())}
		case o.V == nil:
			r = c08res{class: "rfail", msg: "nil value"}
		default:
			fp := ""
			if sig := core.Try(func() { fp = e.fingerprint(o.V, 0) }); sig != "" {
				r = c08res{class: "panic", msg: sig}
				break
			}
			r = c08res{class: "value", fp: fp}
			if obs.IsFunction(o.V) {
				r.class = "function"
			} else {
				core.Try(func() { r.truth = o.V.IsTrue() })
			}
		}
	}
	if len(e.memo) < 400000 {
		e.memo[src] = r
	}
	return r
}

func c08show(r c08res) string {
	switch r.class {
	case "value", "function":
		s := r.fp
		if len(s) > 120 {
			s = s[:120] + "…"
		}
		return r.class + " " + s
	}
	return r.class + " (" + r.msg + ")"
}

// c08grammars: the bounded program spaces of family G (general programs).
func c08grammars(thorough bool) []c08util.Grammar {
	xy := []string{"x", "y"}
	x := []string{"x"}
	bind := c08util.Grammar{ // binding core: let / function / application / -> with numbers
		Name: "bind", Lits: []string{"1", "2"}, Binders: xy, Let: true, Fn: true, App: true,
		Arrows: []string{"->"}, Bins: []string{"+"}, MaxSize: 5,
	}
	coll := c08util.Grammar{ // collections: transforms with the implicit binder, attribute access, displays
		Name: "coll", Lits: []string{"1", "{1, 2}", "(a: 1)", "[1, 2]"}, Binders: x, Let: true,
		Arrows: []string{"=>", ">>", ":>", "where"}, PreArr: []string{"=>"}, Bins: []string{"+"}, Cmps: []string{"<"},
		Posts: []string{"count"}, Attrs: []string{"a"}, Set1: true, Arr1: true, Tup1: []string{"a"}, MaxSize: 4,
	}
	fnarrow := c08util.Grammar{ // function literals and names right of arrows: explicit vs implicit binder
		Name: "fnarrow", Lits: []string{"1", "{1, 2}"}, Binders: x, Fn: true, Let: true,
		Arrows: []string{"=>", "where", "->"}, Bins: []string{"+"}, MaxSize: 5,
	}
	sugar := c08util.Grammar{ // displays and sugar: constant folding of literal-only displays vs displays with names
		Name: "sugar", Lits: []string{"1", "2", `"a"`, "[1, 2]", "{1: 2}", "true", "{}"}, Binders: x, Let: true,
		Set1: true, Set2: true, Arr1: true, Arr2: true, Tup1: []string{"a"}, Dict1: true, Bins: []string{"|"}, MaxSize: 4,
	}
	lazy := c08util.Grammar{ // laziness: cond / && / || select branches
		Name: "lazy", Lits: []string{"0", "1", "{}"}, Binders: x, Let: true,
		Bins: []string{"&&", "||"}, Cmps: []string{"<"}, Attrs: []string{"a"}, Cond1: true, Cond2: true, MaxSize: 5,
	}
	if !thorough {
		return []c08util.Grammar{bind, coll, fnarrow, sugar, lazy}
	}
	bind.MaxSize = 6
	coll5 := c08util.Grammar{
		Name: "coll5", Lits: []string{"1", "{1, 2}", "(a: 1)"}, Binders: x, Let: true,
		Arrows: []string{"=>", ":>", "where"}, Bins: []string{"+"},
		Posts: []string{"count"}, Attrs: []string{"a"}, Set1: true, Tup1: []string{"a"}, MaxSize: 5,
	}
	sugar.Lits = append(sugar.Lits, `{"a": 1}`, `<<1, 2>>`, `""`, `%a`)
	sugar5 := c08util.Grammar{
		Name: "sugar5", Lits: []string{"1", `"a"`, "[1, 2]", "{1: 2}"}, Binders: x, Let: true,
		Set1: true, Set2: true, Arr1: true, Arr2: true, Tup1: []string{"a"}, Dict1: true, MaxSize: 5,
	}
	lazy.MaxSize = 6
	lazy.If = true
	return []c08util.Grammar{bind, coll, coll5, fnarrow, sugar, sugar5, lazy}
}

func checkC08(w *core.W) {
	ev := newC08Eval()
	k := 0
	// compare: the two sources must have the same meaning. Returns an outcome label.
	compare := func(rule, class, srcA, srcB string, nontrivialIfValue bool) string {
		a, b := ev.run(srcA), ev.run(srcB)
		nt := nontrivialIfValue && (!a.fails() || !b.fails()) && srcA != srcB
		w.Eval(nt)
		w.Count("pairs:"+strings.SplitN(rule, "-", 2)[0], 1)
		for _, r := range []c08res{a, b} {
			if r.class == "panic" {
				w.Count("panics-observed", 1)
				w.Note("panics", r.msg)
			}
		}
		witness := func() string { return srcA + "   ⇄   " + srcB }
		switch {
		case a.fails() && b.fails():
			if (a.class == "cfail") != (b.class == "cfail") {
				w.Count("both-fail:compile-vs-runtime", 1)
				w.Note("mixedfail", rule+"|"+class)
			}
			return "both-fail"
		case a.fails() != b.fails():
			kind := "value-becomes-failure"
			if a.fails() {
				kind = "failure-becomes-value"
			}
			w.Fail("wrong", rule+"|"+class+"|"+kind, witness(), c08show(a)+"  vs  "+c08show(b))
			return kind
		case a.fp != b.fp:
			w.Fail("wrong", rule+"|"+class+"|different-value", witness(), c08show(a)+"  vs  "+c08show(b))
			return "different-value"
		}
		return "same-" + a.class
	}

	// perProgram: one program against every applicable rewrite at every position
	perProgram := func(fam string, t *c08util.Node, opts c08util.Options) {
		w.Count("programs:"+fam, 1)
		src := c08util.Min(t)
		base := ev.run(src)
		w.Note("outcomes", fam+":"+base.class)
		if len(w.SamplesLeft()) > 0 && t.Size() >= 4 && !base.fails() && t.K != c08util.KFn {
			w.Sample(src + "  =  " + c08show(base))
		}
		// R5: minimal parentheses vs fully parenthesised
		full := c08util.Full(t)
		if full != src {
			compare("R5-minimal>full", "G-"+t.Label(), src, full, true)
		}
		for _, v := range c08util.Rewrites(t, opts) {
			compare(v.Rule, v.Class, src, c08util.Min(v.Tree), true)
		}
		// R6 for a closed, successfully evaluating (non-syntactic-value) right-hand side
		t.Walk(func(p c08util.Path, n *c08util.Node) {
			if n.K != c08util.KLet || n.Pat != "" || c08util.IsValue(n.Kids[0]) || !n.Kids[0].Closed() {
				return
			}
			if r := ev.run(c08util.Min(n.Kids[0])); r.fails() {
				return
			}
			if body, ok := c08util.Subst(n.Kids[1], n.Op, n.Kids[0], t); ok {
				pp := append(c08util.Path{}, p...)
				compare("R6-subst-evaluated", n.Label(), src, c08util.Min(c08util.ReplaceKeeping(t, pp, body)), true)
			}
		})
		// R7: unselected branches are not evaluated
		for _, s := range c08util.LazySites(t) {
			var truth []bool
			for _, ci := range s.Conds {
				c, ok := c08util.InContext(t, append(append(c08util.Path{}, s.Path...), ci))
				if !ok {
					break
				}
				r := ev.run(c08util.Min(c))
				if r.fails() || r.class == "function" {
					break
				}
				truth = append(truth, r.truth)
				if r.truth {
					break
				}
			}
			if len(truth) == 0 {
				w.Count("R7:condition-not-static", 1)
				continue
			}
			if v := c08util.LazyRewrite(t, s, truth); v != nil {
				compare("R7-unselected>error", t.At(s.Path).Label(), src, c08util.Min(v), true)
			}
		}
	}

	// tokenComments: a comment (and newline) at EVERY inter-token blank of the printed program,
	// not only around complete sub-expressions (e.g. between a let pattern and its `=`).
	tokenComments := func(src string) {
		cat := func(r byte) string {
			switch {
			case r == '_' || r == '$' || r == '@' || r == '.' || r >= '0' && r <= '9' || r >= 'a' && r <= 'z' || r >= 'A' && r <= 'Z':
				return "w"
			}
			return string(r)
		}
		var inStr byte
		for i := 0; i < len(src); i++ {
			ch := src[i]
			if inStr != 0 {
				if ch == '\\' {
					i++
				} else if ch == inStr {
					inStr = 0
				}
				continue
			}
			if ch == '"' || ch == '\'' || ch == '`' {
				inStr = ch
				continue
			}
			if ch == ' ' && i > 0 && i+1 < len(src) && src[i-1] != ' ' && src[i+1] != ' ' {
				// the word before the blank, when it is a keyword, names the position (let, cond, where, ...)
				j := i
				for j > 0 && cat(src[j-1]) == "w" {
					j--
				}
				prev := cat(src[i-1])
				if w := src[j:i]; prev == "w" {
					switch w {
					case "let", "cond", "where", "orderby", "rank", "nest", "count", "if", "else", "with", "without":
						prev = w
					}
				}
				compare("R4-comment-at-token-boundary", prev+"_"+cat(src[i+1]), src, src[:i]+" # c\n"+src[i+1:], true)
			}
		}
	}

	// ---------- family G: general programs x every rewrite at every position ----------
	for _, g := range c08grammars(w.Thorough) {
		g := g
		// leaves (names, constants) get the parentheses decoration only; comments and blanks go around every compound node
		opts := c08util.Options{R1: true, R2: true, R3: true, R4: true, R6: true, R4Space: w.Thorough, R4Leaves: 1}
		for _, t := range g.Enumerate() {
			k++
			if !w.Mine(k) {
				continue
			}
			t := t
			w.Case(func() string { return "G:" + g.Name + " ## " + c08util.Min(t) }, func() {
				perProgram(g.Name, t, opts)
				if g.Name == "bind" || g.Name == "lazy" || w.Thorough {
					tokenComments(c08util.Min(t))
				}
			})
		}
	}

	// ---------- family S: fixed larger programs x every rewrite at every position ----------
	for _, t := range c08util.Seeds() {
		k++
		if !w.Mine(k) {
			continue
		}
		t := t
		w.Case(func() string { return "S:seed ## " + c08util.Min(t) }, func() {
			perProgram("seeds", t, c08util.Options{R1: true, R2: true, R3: true, R4: true, R6: true, R4Space: true, R4Leaves: 2})
			tokenComments(c08util.Min(t))
		})
	}

	// ---------- family L: every spelling of the sugared literals vs the documented spelled-out forms ----------
	for _, lc := range c08util.LitCases() {
		k++
		if !w.Mine(k) {
			continue
		}
		lc := lc
		w.Case(func() string { return "L:" + lc.Cat + " ## " + lc.Src }, func() {
			w.Count("programs:literals", 1)
			sug := c08util.LitContexts(c08util.Lit(lc.Src))
			tup := c08util.LitContexts(c08util.Lit(lc.Tuples))
			rl := c08util.LitContexts(c08util.Lit(lc.Rel))
			for i := range sug {
				compare("R2-sugar>tuples", lc.Cat, c08util.Min(sug[i]), c08util.Min(tup[i]), true)
				if lc.Rel != "" {
					compare("R2-sugar>relation", lc.Cat, c08util.Min(sug[i]), c08util.Min(rl[i]), true)
				}
			}
		})
	}

	// ---------- family P: operator pairs, minimal vs full parentheses ----------
	nLeaves := 2
	if w.Thorough {
		nLeaves = 3
	}
	ops := c08util.PairOps(w.Thorough)
	c08util.PairPrograms(ops, nLeaves, []string{"{1, 2}"}, func(outer, inner *c08util.OpDesc, hole int, t, core, in *c08util.Node) {
		k++
		if !w.Mine(k) {
			return
		}
		w.Case(func() string { return "P:" + outer.Name + "/" + inner.Name + " ## " + c08util.Min(t) }, func() {
			w.Count("programs:pairs", 1)
			min, full := c08util.Min(t), c08util.Full(t)
			class := fmt.Sprintf("L%d.%d/L%d", c08util.Level(core), hole, c08util.Level(in))
			res := compare("R5-minimal>full", class, min, full, true)
			if strings.HasPrefix(res, "same-") {
				w.Note("pairs-with-value", outer.Name+"/"+inner.Name)
			}
			w.Note("pairs", outer.Name+"/"+inner.Name)
		})
	})
	w.Count("parses", ev.n)
}

var C08 = core.Check{
	ID: "C08", Level: "exploration", Fn: checkC08, Watchdog: 60 * time.Second,
	Rule: "family G: every closed, well-scoped program of five small grammars (bind: let/\\/call/->/+ over {1,2},{x,y}, <=5 nodes quick, <=6 thorough; coll: => >> :> where, prefix =>, .a, count, displays over 4 literals, <=4 (+ a 3-arrow sub-grammar <=5 thorough); fnarrow: function literals and names right of => where ->, <=5; sugar: set/array/tuple/dict displays over 7 (11) literals incl. string, array, dict, true, <=4 (+4 literals <=5 thorough); lazy: cond && || (if thorough) with let, .a, <, <=5 (6)) x EVERY applicable rewrite at EVERY position: R1 let = arrow = apply, R2 sugar = set of tuples = relation literal (literals, array/dict displays with computed parts, sets of tuples), R3 implicit \\. = explicit \\. = fresh name, omitted lhs = `.`, R4 parentheses around every node and comment (+ blanks thorough) around every compound node, and a comment at every inter-token blank of the printed program (bind, lazy and seed programs; all thorough), R5 minimal vs full parentheses, R6 capture-avoiding substitution of a let-bound value (syntactic value, or closed rhs that evaluates), R7 every unselected cond/&&/||/if branch replaced by a failing expression. family S: 45 fixed larger programs (curried calls, chained tails, shadowing closures, nested implicit binders, destructuring patterns) x the same rewrites. family L: 22 sugared literal spellings (quotes, escapes, sparse/nested arrays, bytes, dicts, true/false) x 4 contexts vs hand-written spelled-out forms. family P: every ordered pair of operator constructors (24 quick: 1-2 per level of the table; 66 thorough: every operator of the table) x every operand hole x all assignments of 2 (3) typed leaves per hole, minimal parentheses by the documented table vs fully parenthesised. Both sources are compiled and evaluated by the implementation and compared by denotation (obs.Denote encoding; functions by application to 5 arguments, two levels deep); a pair agrees iff both fail or both yield equal denotations. non-trivial = the two sources differ textually and at least one of them evaluates to a value",
	Assume: []string{
		"the precedence/associativity specification is the table of DESIGN.md Appendix A (transcribed from rule expr of syntax/arrai.wbnf at the pinned commit), carried as data in harness/c08util/print.go",
		"`. where`, `. & x`, `. | x |` lex as attribute access/projection: the printer parenthesises a left operand ending in the name `.` before such operators (lexical, outside the table)",
		"chained comparisons are n-ary and are never re-parenthesised",
		"R7 is applied where the truth of the conditions is determined by the program text (closed, or closed under the enclosing lets)",
		"a function literal directly right of an arrow / >>> is the explicit binder; the printer never parenthesises it by itself (doing so is rewrite R4, a recorded finding)",
		"a panic of the implementation counts as failure of that source (panics are the business of other checks)",
		"R6 is applied to syntactic values (constants, names, function literals, displays of values) and to closed right-hand sides that evaluate; binders inside destructuring patterns and the implicit `.` are never renamed (such substitutions are skipped)",
	},
}
