package checks

import (
	"fmt"
	"sort"
	"strconv"
	"strings"

	"github.com/arr-ai/arrai/rel"

	"verif/harness/model"
)

// ---- the reference matcher (property C09 read literally) ----
//
// match(P, V, β) is the list of all extensions of β under which P, read as an expression,
// rebuilds V: literals/(expr) denote themselves, a name denotes its binding (repeated names
// agree by VALUE), `_` anything, [..] an offset-0 hole-free array, (..) a tuple with exactly
// the named attributes, {k: ..} a single-valued dict with exactly the keys, {..} a set;
// `...rest` is exactly the unmatched remainder (array re-based at 0 / tuple / dict / set),
// a ?:fallback component matches the fallback value iff the component is absent.
// P matches V iff there is exactly one such binding; several = non-deterministic = no match.
//
// Two points the property text and the documentation leave open are decided BOTH ways and
// either result is accepted (strict / lenient run of the same matcher):
//   - a structure with a ?:fallback component and no `...`, facing components nobody asked for
//     (binding.md shows `let (b?: x:42) = (a: 1)` matching; construction says it cannot),
//   - set patterns with more element patterns than members ({a, 42} against {42}), and set
//     patterns that are locally ambiguous but pinned down by a repeated name elsewhere.

type c9bind map[string]*model.V

func (b c9bind) with(n string, v *model.V) c9bind {
	c := make(c9bind, len(b)+1)
	for k, x := range b {
		c[k] = x
	}
	c[n] = v
	return c
}

func (b c9bind) key() string {
	ns := make([]string, 0, len(b))
	for n := range b {
		ns = append(ns, n)
	}
	sort.Strings(ns)
	var sb strings.Builder
	for _, n := range ns {
		sb.WriteString(n)
		sb.WriteByte('=')
		sb.WriteString(b[n].Enc())
		sb.WriteByte(';')
	}
	return sb.String()
}

type c9matcher struct {
	lenient       bool
	sawPrintAlike bool   // some alternative died on a repeated name facing "1" vs 1
	why           string // reason of the most recent failure (the deepest, first-in-order one for deterministic patterns)
}

func (m *c9matcher) fail(why string) []c9bind {
	m.why = why
	return nil
}

func c9dedup(bs []c9bind) []c9bind {
	if len(bs) < 2 {
		return bs
	}
	seen := map[string]bool{}
	var out []c9bind
	for _, b := range bs {
		k := b.key()
		if !seen[k] {
			seen[k] = true
			out = append(out, b)
		}
	}
	return out
}

func (m *c9matcher) bindName(n string, v *model.V, b c9bind) []c9bind {
	if old, ok := b[n]; ok {
		if model.Equal(old, v) {
			return []c9bind{b}
		}
		if c9printAlike(old, v) {
			m.sawPrintAlike = true
			return m.fail("repeated-name-differs:print-alike")
		}
		return m.fail("repeated-name-differs")
	}
	return []c9bind{b.with(n, v)}
}

// c9printAlike: a number and the string spelling it ("1" vs 1) – different values that
// render identically at top level.
func c9printAlike(x, y *model.V) bool {
	if x.K != model.KNum {
		x, y = y, x
	}
	if x.K != model.KNum || c9vkind(y) != "string" {
		return false
	}
	return model.Equal(y, model.Str(strconv.FormatFloat(x.N, 'g', -1, 64), 0))
}

type c9elem struct {
	idx int
	val *model.V
}

// c9asArray: v is a set of (@: int, @item: x) tuples with distinct indices.
func c9asArray(v *model.V) (items []c9elem, ok bool) {
	if v.K != model.KSet {
		return nil, false
	}
	seen := map[int]bool{}
	for _, mem := range v.Mem {
		attr, is := model.SeqAttr(mem)
		if !is || attr != "@item" || mem.Vals[0].K != model.KNum || mem.Vals[0].N != float64(int(mem.Vals[0].N)) {
			return nil, false
		}
		i := int(mem.Vals[0].N)
		if seen[i] {
			return nil, false
		}
		seen[i] = true
		items = append(items, c9elem{i, mem.Vals[1]})
	}
	sort.Slice(items, func(i, j int) bool { return items[i].idx < items[j].idx })
	return items, true
}

func c9plain(items []c9elem) bool {
	for i, it := range items {
		if it.idx != i {
			return false
		}
	}
	return true
}

type c9kv struct{ k, v *model.V }

// c9asDict: v is a set of (@: k, @value: x) tuples; single reports distinct keys.
func c9asDict(v *model.V) (entries []c9kv, single, ok bool) {
	if v.K != model.KSet {
		return nil, false, false
	}
	seen := map[string]bool{}
	single = true
	for _, mem := range v.Mem {
		attr, is := model.SeqAttr(mem)
		if !is || attr != "@value" {
			return nil, false, false
		}
		if seen[mem.Vals[0].Enc()] {
			single = false
		}
		seen[mem.Vals[0].Enc()] = true
		entries = append(entries, c9kv{mem.Vals[0], mem.Vals[1]})
	}
	return entries, single, true
}

func c9isSeqOf(v *model.V, attr string) bool {
	if v.K != model.KSet || len(v.Mem) == 0 {
		return false
	}
	for _, mem := range v.Mem {
		a, is := model.SeqAttr(mem)
		if !is || a != attr {
			return false
		}
	}
	return true
}

// c9vkind classifies a value for signatures.
func c9vkind(v *model.V) string {
	switch v.K {
	case model.KNum:
		return "number"
	case model.KTuple:
		return "tuple"
	}
	if len(v.Mem) == 0 {
		return "empty"
	}
	if c9isSeqOf(v, "@char") {
		return "string"
	}
	if c9isSeqOf(v, "@byte") {
		return "bytes"
	}
	if items, ok := c9asArray(v); ok {
		switch {
		case c9plain(items):
			return "array"
		case items[len(items)-1].idx-items[0].idx+1 == len(items):
			return "offset-array"
		}
		return "sparse-array"
	}
	if _, single, ok := c9asDict(v); ok {
		if single {
			return "dict"
		}
		return "multidict"
	}
	return "set"
}

func (m *c9matcher) match(p *c9pat, v *model.V, b c9bind) []c9bind {
	switch p.k {
	case 'N':
		if v.K == model.KNum && v.N == p.num {
			return []c9bind{b}
		}
		return m.fail("literal≠" + c9vkind(v))
	case 'S':
		if model.Equal(v, model.Str(p.str, 0)) {
			return []c9bind{b}
		}
		return m.fail("literal≠" + c9vkind(v))
	case 'E':
		for _, e := range p.evals {
			if model.Equal(v, e) {
				return []c9bind{b}
			}
		}
		return m.fail("(expr)≠" + c9vkind(v))
	case '_':
		return []c9bind{b}
	case 'n':
		return m.bindName(p.name, v, b)
	case 'A':
		return m.matchArray(p, v, b)
	case 'T':
		return m.matchTuple(p, v, b)
	case 'D':
		return m.matchDict(p, v, b)
	case 'Z':
		return m.matchSet(p, v, b)
	}
	panic("c09: unknown pattern kind")
}

// step matches one component against one value in every binding of bs.
func (m *c9matcher) step(bs []c9bind, p *c9pat, v *model.V) []c9bind {
	var out []c9bind
	for _, b := range bs {
		out = append(out, m.match(p, v, b)...)
	}
	return out
}

func (m *c9matcher) stepRest(bs []c9bind, name string, v *model.V) []c9bind {
	if name == "" {
		return bs
	}
	var out []c9bind
	for _, b := range bs {
		out = append(out, m.bindName(name, v, b)...)
	}
	return out
}

func c9shape(p *c9pat) (restAt int, nRest int, nFb int) {
	restAt = -1
	for i, it := range p.items {
		if it.rest {
			nRest++
			if restAt < 0 {
				restAt = i
			}
		} else if it.fb != nil {
			nFb++
		}
	}
	return
}

func (m *c9matcher) matchArray(p *c9pat, v *model.V, b c9bind) []c9bind {
	items, ok := c9asArray(v)
	if !ok {
		return m.fail("array-pattern≠" + c9vkind(v))
	}
	restAt, nRest, nFb := c9shape(p)
	if nRest > 1 {
		return m.fail("two-rests")
	}
	if !c9plain(items) {
		// no array expression [..] denotes an array with an offset or holes; only a lone
		// `...rest` can stand for one (it IS the value)
		if len(p.items) == 1 && nRest == 1 {
			return m.stepRest([]c9bind{b}, p.items[0].name, v)
		}
		return m.fail("array-pattern≠" + c9vkind(v))
	}
	n := len(items)
	bs := []c9bind{b}
	if nRest == 0 {
		if n < len(p.items)-nFb {
			return m.fail("array-too-short")
		}
		if n > len(p.items) && !(nFb > 0 && m.lenient) {
			return m.fail("array-too-long")
		}
		// fallback components are the trailing ones (generator invariant): the absent ones are
		// those beyond the end of the array
		for i, it := range p.items {
			if i < n {
				bs = m.step(bs, it.p, items[i].val)
			} else {
				if it.fb == nil {
					return m.fail("array-too-short")
				}
				bs = m.step(bs, it.p, it.fb)
			}
			if len(bs) == 0 {
				return nil
			}
		}
		return bs
	}
	pre, post := p.items[:restAt], p.items[restAt+1:]
	if n < len(pre)+len(post) {
		return m.fail("array-too-short")
	}
	for i, it := range pre {
		if bs = m.step(bs, it.p, items[i].val); len(bs) == 0 {
			return nil
		}
	}
	var mid []*model.V
	for _, e := range items[len(pre) : n-len(post)] {
		mid = append(mid, e.val)
	}
	if bs = m.stepRest(bs, p.items[restAt].name, model.Arr(0, mid...)); len(bs) == 0 {
		return nil
	}
	for i, it := range post {
		if bs = m.step(bs, it.p, items[n-len(post)+i].val); len(bs) == 0 {
			return nil
		}
	}
	return bs
}

func (m *c9matcher) matchTuple(p *c9pat, v *model.V, b c9bind) []c9bind {
	if v.K != model.KTuple {
		return m.fail("tuple-pattern≠" + c9vkind(v))
	}
	_, nRest, nFb := c9shape(p)
	if nRest > 1 {
		return m.fail("two-rests")
	}
	bs := []c9bind{b}
	used := map[string]bool{}
	restName, hasRest := "", false
	for _, it := range p.items {
		if it.rest {
			restName, hasRest = it.name, true
			continue
		}
		used[it.key] = true
		if val, ok := v.Get(it.key); ok {
			bs = m.step(bs, it.p, val)
		} else if it.fb != nil {
			bs = m.step(bs, it.p, it.fb)
		} else {
			return m.fail("tuple-missing-attr")
		}
		if len(bs) == 0 {
			return nil
		}
	}
	left := map[string]*model.V{}
	for i, n := range v.Names {
		if !used[n] {
			left[n] = v.Vals[i]
		}
	}
	if hasRest {
		return m.stepRest(bs, restName, model.TupMap(left))
	}
	if len(left) > 0 && !(nFb > 0 && m.lenient) {
		return m.fail("tuple-extra-attr")
	}
	return bs
}

func (m *c9matcher) matchDict(p *c9pat, v *model.V, b c9bind) []c9bind {
	entries, single, ok := c9asDict(v)
	if !ok || !single {
		return m.fail("dict-pattern≠" + c9vkind(v))
	}
	_, nRest, nFb := c9shape(p)
	if nRest > 1 {
		return m.fail("two-rests")
	}
	bs := []c9bind{b}
	used := map[string]bool{}
	restName, hasRest := "", false
	for _, it := range p.items {
		if it.rest {
			restName, hasRest = it.name, true
			continue
		}
		used[it.keyM.Enc()] = true
		var val *model.V
		for _, e := range entries {
			if model.Equal(e.k, it.keyM) {
				val = e.v
			}
		}
		switch {
		case val != nil:
			bs = m.step(bs, it.p, val)
		case it.fb != nil:
			bs = m.step(bs, it.p, it.fb)
		default:
			return m.fail("dict-missing-key")
		}
		if len(bs) == 0 {
			return nil
		}
	}
	var left []*model.V
	for _, e := range entries {
		if !used[e.k.Enc()] {
			left = append(left, model.DictEntry(e.k, e.v))
		}
	}
	if hasRest {
		return m.stepRest(bs, restName, model.Set(left...))
	}
	if len(left) > 0 && !(nFb > 0 && m.lenient) {
		return m.fail("dict-extra-key")
	}
	return bs
}

func (m *c9matcher) matchSet(p *c9pat, v *model.V, b c9bind) []c9bind {
	if v.K != model.KSet {
		return m.fail("set-pattern≠" + c9vkind(v))
	}
	_, nRest, _ := c9shape(p)
	if nRest > 1 {
		return m.fail("two-rests")
	}
	var comps []*c9pat
	restName, hasRest := "", false
	for _, it := range p.items {
		if it.rest {
			restName, hasRest = it.name, true
		} else {
			comps = append(comps, it.p)
		}
	}
	members := v.Mem
	if !m.lenient {
		// binding.md: a set pattern with more than one open element ({a, b}) is a
		// "non-deterministic situation" that should fail; an error is always acceptable there
		open := 0
		if hasRest {
			open++
		}
		for _, c := range comps {
			if !(c.k == 'N' || c.k == 'S' || c.k == 'E' && len(c.evals) == 1) {
				open++
			}
		}
		if open > 1 {
			return m.fail("set-pattern-non-deterministic")
		}
	}
	if !m.lenient && len(comps) > len(members) {
		return m.fail("set-too-small")
	}
	if !hasRest && len(comps) < len(members) {
		return m.fail("set-too-large")
	}
	var results []c9bind
	usedCount := make([]int, len(members))
	var rec func(i int, b c9bind)
	rec = func(i int, b c9bind) {
		if i == len(comps) {
			var left []*model.V
			for j, mem := range members {
				if usedCount[j] == 0 {
					left = append(left, mem)
				}
			}
			if hasRest {
				results = append(results, m.stepRest([]c9bind{b}, restName, model.Set(left...))...)
			} else if len(left) == 0 {
				results = append(results, b)
			}
			return
		}
		for j, mem := range members {
			if usedCount[j] > 0 && !m.lenient {
				continue
			}
			for _, nb := range m.match(comps[i], mem, b) {
				usedCount[j]++
				rec(i+1, nb)
				usedCount[j]--
			}
		}
	}
	rec(0, b)
	results = c9dedup(results)
	if len(results) == 0 {
		switch {
		case m.sawPrintAlike:
			return m.fail("set-no-assignment:print-alike")
		case strings.HasPrefix(m.why, "set-no-assignment"):
			return m.fail(m.why) // a set nested in a set: keep the innermost reason
		case c9exoticElems(comps):
			return m.fail("set-no-assignment:string-or-computed-element")
		}
		return m.fail("set-no-assignment(" + m.why + ")")
	}
	if len(results) > 1 && !m.lenient {
		return m.fail("set-non-deterministic")
	}
	return results
}

// c9exoticElems: the set pattern has a string literal or a computed / multi-alternative
// (expr) element (signature class only).
func c9exoticElems(comps []*c9pat) bool {
	for _, c := range comps {
		if c.k == 'S' || c.k == 'E' && c.esrc != "(p)" && c.esrc != "(q)" {
			return true
		}
	}
	return false
}

// c9verdict is what the reference allows for one (pattern, value).
type c9verdict struct {
	// acceptable outcomes: "no" and/or binding keys
	strictMatch, lenientMatch bool
	strictB, lenientB         c9bind
	why                       string // strict reason for a non-match
}

func c9judge(p *c9pat, v *model.V) c9verdict {
	var out c9verdict
	s := &c9matcher{}
	rs := c9dedup(s.match(p, v, c9bind{}))
	switch len(rs) {
	case 1:
		out.strictMatch, out.strictB = true, rs[0]
	case 0:
		out.why = s.why
	default:
		out.why = "non-deterministic"
	}
	l := &c9matcher{lenient: true}
	rl := c9dedup(l.match(p, v, c9bind{}))
	switch len(rl) {
	case 1:
		out.lenientMatch, out.lenientB = true, rl[0]
	case 0:
		if !out.strictMatch {
			out.why = l.why // both readings fail: the lenient one names the real obstacle
		}
	default:
		if !out.strictMatch {
			out.why = "non-deterministic"
		}
	}
	return out
}

func (vd c9verdict) definite() bool {
	if vd.strictMatch != vd.lenientMatch {
		return false
	}
	return !vd.strictMatch || vd.strictB.key() == vd.lenientB.key()
}

// ---- values: rendering, building, instances, near-misses ----

// c9vsrc renders a model value as readable arr.ai source (sugar where it is unambiguous).
func c9vsrc(v *model.V) string {
	switch v.K {
	case model.KNum:
		return strconv.FormatFloat(v.N, 'g', -1, 64)
	case model.KTuple:
		parts := make([]string, len(v.Names))
		for i, n := range v.Names {
			parts[i] = model.AttrName(n) + ": " + c9vsrc(v.Vals[i])
		}
		return "(" + strings.Join(parts, ", ") + ")"
	}
	switch c9vkind(v) {
	case "empty":
		return "{}"
	case "string":
		ok := true
		rs := make([]rune, len(v.Mem))
		for _, mem := range v.Mem {
			i := int(mem.Vals[0].N)
			if mem.Vals[0].K != model.KNum || i < 0 || i >= len(rs) || rs[i] != 0 || mem.Vals[1].K != model.KNum || mem.Vals[1].N < 32 || mem.Vals[1].N > 126 {
				ok = false
				break
			}
			rs[i] = rune(mem.Vals[1].N)
		}
		if ok {
			return strconv.Quote(string(rs))
		}
	case "array", "offset-array", "sparse-array":
		items, _ := c9asArray(v)
		lo := items[0].idx
		if lo < 0 {
			break
		}
		var parts []string
		next := lo
		for _, it := range items {
			for ; next < it.idx; next++ {
				parts = append(parts, "")
			}
			parts = append(parts, c9vsrc(it.val))
			next++
		}
		s := "[" + strings.Join(parts, ", ") + "]"
		if lo != 0 {
			s = strconv.Itoa(lo) + `\` + s
		}
		return s
	case "dict":
		entries, _, _ := c9asDict(v)
		parts := make([]string, len(entries))
		for i, e := range entries {
			parts[i] = c9vsrc(e.k) + ": " + c9vsrc(e.v)
		}
		return "{" + strings.Join(parts, ", ") + "}"
	}
	parts := make([]string, len(v.Mem))
	for i, mem := range v.Mem {
		parts[i] = c9vsrcPlain(mem)
	}
	return "{" + strings.Join(parts, ", ") + "}"
}

// c9vsrcPlain renders members of a generic set; sequence-element tuples stay spelled out.
func c9vsrcPlain(v *model.V) string { return c9vsrc(v) }

// c9build constructs the real value for a model value with the public constructors (the
// same canonicalising path set literals take).
func c9build(v *model.V) (rel.Value, error) {
	switch v.K {
	case model.KNum:
		return rel.NewNumber(v.N), nil
	case model.KTuple:
		attrs := make([]rel.Attr, len(v.Names))
		for i, n := range v.Names {
			x, err := c9build(v.Vals[i])
			if err != nil {
				return nil, err
			}
			attrs[i] = rel.NewAttr(n, x)
		}
		return rel.NewTuple(attrs...), nil
	}
	vals := make([]rel.Value, len(v.Mem))
	for i, mem := range v.Mem {
		x, err := c9build(mem)
		if err != nil {
			return nil, err
		}
		vals[i] = x
	}
	return rel.NewSet(vals...)
}

var c9nameDomain = []*model.V{model.Num(1), model.Str("1", 0), model.Arr(0, model.Num(2))}

func c9restDomain(kind byte) []*model.V {
	switch kind {
	case 'A':
		return []*model.V{model.Empty, model.Arr(0, model.Num(2)), model.Arr(0, model.Num(1), model.Str("1", 0))}
	case 'T':
		return []*model.V{model.Tup(), model.Tup("w", model.Num(2))}
	case 'D':
		return []*model.V{model.Empty, model.Set(model.DictEntry(model.Str("w", 0), model.Num(2)))}
	}
	return []*model.V{model.Empty, model.Set(model.Num(8)), model.Set(model.Num(8), model.Num(9))}
}

// c9construct builds the value the pattern denotes under seed binding b. variant 0 keeps
// ?:fallback components present and gives `...` something to swallow; variant 1 leaves
// fallback components absent and `...` empty and picks the second alternative of (e1, e2).
func c9construct(p *c9pat, b c9bind, variant int) *model.V {
	switch p.k {
	case 'N':
		return model.Num(p.num)
	case 'S':
		return model.Str(p.str, 0)
	case 'E':
		return p.evals[variant%len(p.evals)]
	case '_':
		return model.Num(3)
	case 'n':
		return b[p.name]
	case 'A':
		var items []*model.V
		for _, it := range p.items {
			switch {
			case it.rest && it.name != "":
				if els, ok := c9asArray(b[it.name]); ok {
					for _, e := range els {
						items = append(items, e.val)
					}
				}
			case it.rest:
				if variant == 0 {
					items = append(items, model.Num(9))
				}
			case it.fb != nil && variant == 1:
			default:
				items = append(items, c9construct(it.p, b, variant))
			}
		}
		return model.Arr(0, items...)
	case 'T':
		attrs := map[string]*model.V{}
		for _, it := range p.items {
			switch {
			case it.rest && it.name != "":
				r := b[it.name]
				if r.K == model.KTuple {
					for i, n := range r.Names {
						attrs[n] = r.Vals[i]
					}
				}
			case it.rest:
				if variant == 0 {
					attrs["w"] = model.Num(9)
				}
			case it.fb != nil && variant == 1:
			default:
				attrs[it.key] = c9construct(it.p, b, variant)
			}
		}
		return model.TupMap(attrs)
	case 'D':
		var mem []*model.V
		for _, it := range p.items {
			switch {
			case it.rest && it.name != "":
				mem = append(mem, b[it.name].Mem...)
			case it.rest:
				if variant == 0 {
					mem = append(mem, model.DictEntry(model.Str("w", 0), model.Num(9)))
				}
			case it.fb != nil && variant == 1:
			default:
				mem = append(mem, model.DictEntry(it.keyM, c9construct(it.p, b, variant)))
			}
		}
		return model.Set(mem...)
	}
	var mem []*model.V
	for _, it := range p.items {
		switch {
		case it.rest && it.name != "":
			mem = append(mem, b[it.name].Mem...)
		case it.rest:
			if variant == 0 {
				mem = append(mem, model.Num(9))
			}
		default:
			mem = append(mem, c9construct(it.p, b, variant))
		}
	}
	return model.Set(mem...)
}

// c9restKinds maps each rest name to the kind of the structure holding it.
func c9restKinds(p *c9pat, out map[string]byte) {
	for _, it := range p.items {
		if it.rest {
			if it.name != "" {
				if _, ok := out[it.name]; !ok {
					out[it.name] = p.k
				}
			}
		} else {
			c9restKinds(it.p, out)
		}
	}
}

// c9instances enumerates the values the pattern denotes under every seed binding (each
// plain name over c9nameDomain, each rest name over its remainder domain) and both variants.
func c9instances(p *c9pat) []*model.V {
	names, _ := p.names()
	rk := map[string]byte{}
	c9restKinds(p, rk)
	doms := make([][]*model.V, len(names))
	for i, n := range names {
		if k, ok := rk[n]; ok {
			doms[i] = c9restDomain(k)
		} else {
			doms[i] = c9nameDomain
		}
	}
	// bound the product: shrink the largest domain (from its end) until <= 64 seed bindings
	for {
		prod, big := 1, 0
		for i, d := range doms {
			prod *= len(d)
			if len(d) > len(doms[big]) {
				big = i
			}
		}
		if prod <= 64 || len(doms) == 0 || len(doms[big]) <= 1 {
			break
		}
		doms[big] = doms[big][:len(doms[big])-1]
	}
	var out []*model.V
	seen := map[string]bool{}
	b := c9bind{}
	var rec func(i int)
	rec = func(i int) {
		if i == len(names) {
			for variant := 0; variant < 2; variant++ {
				v := c9construct(p, b, variant)
				if !seen[v.Enc()] {
					seen[v.Enc()] = true
					out = append(out, v)
				}
			}
			return
		}
		for _, d := range doms[i] {
			b[names[i]] = d
			rec(i + 1)
		}
	}
	rec(0)
	return out
}

// c9mutants are the one-step neighbours of a value: one component changed, added or removed,
// wrong kind, array offset / hole, duplicate dict key; recursively inside components down to
// the given depth.
func c9mutants(v *model.V, depth int) []*model.V {
	var out []*model.V
	add := func(x *model.V) { out = append(out, x) }
	switch v.K {
	case model.KNum:
		add(model.Num(v.N + 1))
		add(model.Str(strconv.FormatFloat(v.N, 'g', -1, 64), 0))
		add(model.Tup())
		return out
	case model.KTuple:
		for i := range v.Names {
			m := map[string]*model.V{}
			for j, n := range v.Names {
				if j != i {
					m[n] = v.Vals[j]
				}
			}
			add(model.TupMap(m))
			if depth > 0 {
				for _, mv := range c9mutants(v.Vals[i], depth-1) {
					m2 := map[string]*model.V{}
					for j, n := range v.Names {
						m2[n] = v.Vals[j]
					}
					m2[v.Names[i]] = mv
					add(model.TupMap(m2))
				}
			}
		}
		m := map[string]*model.V{"v": model.Num(99)}
		for j, n := range v.Names {
			m[n] = v.Vals[j]
		}
		add(model.TupMap(m))
		add(model.Num(7))
		add(model.Empty)
		// the dict with the same content
		var ents []*model.V
		for j, n := range v.Names {
			ents = append(ents, model.DictEntry(model.Str(n, 0), v.Vals[j]))
		}
		if len(ents) > 0 {
			add(model.Set(ents...))
		}
		return out
	}
	kind := c9vkind(v)
	switch kind {
	case "empty":
		add(model.Num(7))
		add(model.Tup())
		add(model.Arr(0, model.Num(99)))
		add(model.Set(model.Num(99)))
		return out
	case "string":
		add(model.Str("zz", 0))
		s := c9vsrc(v)
		if f, err := strconv.ParseFloat(strings.Trim(s, `"`), 64); err == nil {
			add(model.Num(f))
		}
		add(model.Empty)
		return out
	case "array":
		items, _ := c9asArray(v)
		vals := make([]*model.V, len(items))
		for i, it := range items {
			vals[i] = it.val
		}
		add(model.Arr(0, vals[:len(vals)-1]...))                                   // last removed
		add(model.Arr(1, vals[1:]...))                                             // first removed: offset / hole at 0
		add(model.Arr(0, append(append([]*model.V{}, vals...), model.Num(99))...)) // one appended
		add(model.Arr(0, append([]*model.V{model.Num(99)}, vals...)...))           // one prepended
		add(model.Arr(1, vals...))                                                 // same items, offset 1
		if len(vals) >= 3 {
			h := append([]*model.V{}, vals...)
			h[1] = nil
			add(model.Arr(0, h...)) // hole in the middle
		}
		if len(vals) >= 2 {
			h := append(append([]*model.V{}, vals[:len(vals)-1]...), nil, vals[len(vals)-1])
			add(model.Arr(0, h...)) // hole inserted before the last item
			sw := append([]*model.V{}, vals...)
			sw[0], sw[1] = sw[1], sw[0]
			add(model.Arr(0, sw...)) // first two swapped
		}
		if depth > 0 {
			for i := range vals {
				for _, mv := range c9mutants(vals[i], depth-1) {
					c := append([]*model.V{}, vals...)
					c[i] = mv
					add(model.Arr(0, c...))
				}
			}
		}
		// wrong kinds with the same content
		add(model.Set(vals...))
		var ents []*model.V
		attrs := map[string]*model.V{}
		for i, x := range vals {
			ents = append(ents, model.DictEntry(model.Num(float64(i)), x))
			attrs[string(rune('x'+i%3))] = x
		}
		add(model.Set(ents...))
		add(model.TupMap(attrs))
		add(model.Str(strings.Repeat("s", len(vals)), 0))
		add(model.Num(7))
		return out
	case "dict":
		entries, _, _ := c9asDict(v)
		mk := func(es []c9kv) *model.V {
			var mem []*model.V
			for _, e := range es {
				mem = append(mem, model.DictEntry(e.k, e.v))
			}
			return model.Set(mem...)
		}
		for i := range entries {
			add(mk(append(append([]c9kv{}, entries[:i]...), entries[i+1:]...)))
			if depth > 0 {
				for _, mv := range c9mutants(entries[i].v, depth-1) {
					c := append([]c9kv{}, entries...)
					c[i] = c9kv{entries[i].k, mv}
					add(mk(c))
				}
			}
			// same value under another key
			c := append([]c9kv{}, entries...)
			c[i] = c9kv{model.Str("v", 0), entries[i].v}
			add(mk(c))
		}
		add(mk(append(append([]c9kv{}, entries...), c9kv{model.Str("v", 0), model.Num(99)})))
		add(mk(append(append([]c9kv{}, entries...), c9kv{entries[0].k, model.Num(98)}))) // duplicate key: multi-valued
		attrs := map[string]*model.V{}
		allStr := true
		for _, e := range entries {
			if c9vkind(e.k) != "string" {
				allStr = false
				break
			}
			attrs[strings.Trim(c9vsrc(e.k), `"`)] = e.v
		}
		if allStr {
			add(model.TupMap(attrs))
		}
		add(model.Num(7))
		add(model.Empty)
		return out
	}
	// generic set (also offset/sparse arrays, multidicts, bytes: treated member-wise)
	for i := range v.Mem {
		add(model.Set(append(append([]*model.V{}, v.Mem[:i]...), v.Mem[i+1:]...)...))
		if depth > 0 && kind == "set" {
			for _, mv := range c9mutants(v.Mem[i], depth-1) {
				c := append([]*model.V{}, v.Mem...)
				c[i] = mv
				add(model.Set(c...))
			}
		}
	}
	add(model.With(v, model.Num(99)))
	if kind == "set" {
		add(model.Arr(0, v.Mem...))
	}
	add(model.Num(7))
	return out
}

// c9Universe is the pattern-independent part of the value space: every kind, depth <= 2.
func c9Universe() []*model.V {
	n := model.Num
	s := func(x string) *model.V { return model.Str(x, 0) }
	arr := func(xs ...*model.V) *model.V { return model.Arr(0, xs...) }
	de := model.DictEntry
	u := []*model.V{
		n(0), n(1), n(2), n(3), n(7),
		s("s"), s("1"), s("ss"), model.Str("s", 1),
		model.Empty, model.Tup(), model.Set(model.Tup()),
		model.Tup("x", n(1)), model.Tup("x", n(2)), model.Tup("y", n(1)), model.Tup("x", n(1), "y", n(1)), model.Tup("x", n(1), "y", n(2)),
		model.Tup("x", n(1), "y", n(2), "z", n(3)), model.Tup("x", s("1")), model.Tup("x", arr(n(1))), model.Tup("a", n(1)),
		arr(n(1)), arr(n(2)), arr(n(1), n(1)), arr(n(1), n(2)), arr(n(2), n(1)), arr(n(1), n(2), n(3)), arr(n(1), n(2), n(1)), arr(n(1), n(2), n(3), n(4)),
		arr(s("1"), n(1)), arr(n(1), s("1")), arr(model.Empty), arr(model.Empty, model.Empty),
		model.Arr(1, n(1)), model.Arr(1, n(1), n(2)), model.Arr(0, n(1), nil, n(2)), model.Arr(0, n(1), n(2), nil, n(3)), model.Arr(2, n(1), nil, n(1)),
		arr(arr(n(1)), n(1)), arr(arr(n(1), n(2)), n(3)), arr(n(1), arr(n(1))), arr(model.Tup("x", n(1))), arr(model.Tup("x", n(1)), n(1)),
		arr(model.Arr(1, n(1))), arr(model.Arr(1, n(1)), n(1)),
		model.Set(de(s("k"), n(1))), model.Set(de(s("k"), n(2))), model.Set(de(s("j"), n(1))), model.Set(de(s("k"), n(1)), de(s("j"), n(1))),
		model.Set(de(s("k"), n(1)), de(s("j"), n(2))), model.Set(de(s("k"), n(1)), de(s("j"), n(2)), de(s("i"), n(3))),
		model.Set(de(s("k"), n(1)), de(s("k"), n(2))), model.Set(de(n(1), n(1))), model.Set(de(s("k"), arr(n(1)))),
		model.Set(de(s("k"), model.Set(de(s("k"), n(1))))),
		model.Set(n(1)), model.Set(n(2)), model.Set(n(1), n(2)), model.Set(n(1), n(2), n(3)), model.Set(n(1), s("1")), model.Set(arr(n(1))), model.Set(n(1), arr(n(1))),
		model.Set(model.Tup("x", n(1))), model.Set(model.Tup("x", n(1)), model.Tup("x", n(2))),
		model.Bytes(0, 1, 2),
	}
	return u
}

func c9short(s string, n int) string {
	if len(s) > n {
		return s[:n] + "…"
	}
	return s
}

var _ = fmt.Sprint
