package checks

import (
	"context"
	"errors"
	"fmt"
	"path"
	"regexp"
	"runtime/debug"
	"sort"
	"strings"
	"syscall"
	"time"

	"github.com/arr-ai/arrai/pkg/arrai"
	"github.com/arr-ai/arrai/pkg/ctxfs"
	"github.com/arr-ai/arrai/rel"

	"verif/harness/c19util"
	"verif/harness/core"
	"verif/harness/obs"
)

// C19: --out=dir:PATH writes exactly the described tree (combined with what exists by the
// ifExists rules) or, when the description is invalid, changes nothing; --out=file:PATH
// writes exactly the bytes; an injected I/O error makes the command fail.
//
// Reference model (from docs/docs/cli/eval.md, state independent):
//   entry value   string|bytes|{}            == (file: v)       default ifExists = replace
//                 non-empty dict             == (dir: v)        default ifExists = merge
//                 tuple with attrs among ifExists,file,dir:
//                    ifExists one of the five strings; remove => neither file nor dir;
//                    otherwise exactly one of file (string|bytes|{}) / dir (dict|{});
//                    merge => dir
//                 anything else                                  invalid
//   entry key     a string that is one path component (not "", ".", "..", no "/")
//   existing node x ifExists: ignore keeps | replace substitutes | remove deletes |
//                 fail refuses (error, nothing changed) | merge: dir onto dir overlays,
//                 dir onto file = conflict (an error is demanded, nothing else)
//   PATH absent => created; PATH a file (dir mode) => conflict.

// ---------------------------------------------------------------- description terms

const (
	kStr = iota
	kBytes
	kEmpty
	kDict
	kNum
	kSet
	kArr
	kFn
	kTuple
)

type c19key struct {
	name  string
	isNum bool // the key is the number 1 instead of a string
}

type c19ent struct {
	kind int
	data string   // kStr, kBytes
	dict *c19dict // kDict
	// kTuple
	ifx       string // "" = absent, "#42" = the number 42, otherwise the string value
	file, dir *c19ent
}

type c19dict struct {
	keys []c19key
	vals []*c19ent
}

func (d *c19dict) clone() *c19dict {
	if d == nil {
		return nil
	}
	c := &c19dict{keys: append([]c19key{}, d.keys...)}
	for _, v := range d.vals {
		c.vals = append(c.vals, v.clone())
	}
	return c
}

func (e *c19ent) clone() *c19ent {
	if e == nil {
		return nil
	}
	c := *e
	c.dict = e.dict.clone()
	c.file = e.file.clone()
	c.dir = e.dir.clone()
	return &c
}

var c19fn rel.Value
var c19shrinkRuns int64

func (k c19key) rel() rel.Value {
	if k.isNum {
		return rel.NewNumber(1)
	}
	return rel.NewString([]rune(k.name))
}

func (k c19key) src() string {
	if k.isNum {
		return "1"
	}
	return "'" + k.name + "'"
}

func (d *c19dict) rel() rel.Value {
	entries := make([]rel.DictEntryTuple, len(d.keys))
	for i := range d.keys {
		entries[i] = rel.NewDictEntryTuple(d.keys[i].rel(), d.vals[i].rel())
	}
	return rel.MustNewDict(false, entries...)
}

func (d *c19dict) src() string {
	parts := make([]string, len(d.keys))
	for i := range d.keys {
		parts[i] = d.keys[i].src() + ": " + d.vals[i].src()
	}
	return "{" + strings.Join(parts, ", ") + "}"
}

func (e *c19ent) rel() rel.Value {
	switch e.kind {
	case kStr:
		return rel.NewString([]rune(e.data))
	case kBytes:
		return rel.NewBytes([]byte(e.data))
	case kEmpty:
		return rel.None
	case kDict:
		return e.dict.rel()
	case kNum:
		return rel.NewNumber(7)
	case kSet:
		return rel.MustNewSet(rel.NewNumber(1), rel.NewNumber(2))
	case kArr:
		return rel.NewArray(rel.NewNumber(1))
	case kFn:
		return c19fn
	}
	var attrs []rel.Attr
	switch {
	case e.ifx == "":
	case e.ifx == "#42":
		attrs = append(attrs, rel.NewAttr("ifExists", rel.NewNumber(42)))
	default:
		attrs = append(attrs, rel.NewAttr("ifExists", rel.NewString([]rune(e.ifx))))
	}
	if e.file != nil {
		attrs = append(attrs, rel.NewAttr("file", e.file.rel()))
	}
	if e.dir != nil {
		attrs = append(attrs, rel.NewAttr("dir", e.dir.rel()))
	}
	return rel.NewTuple(attrs...)
}

func (e *c19ent) src() string {
	switch e.kind {
	case kStr:
		return "'" + e.data + "'"
	case kBytes:
		return fmt.Sprintf("<<%d>>", e.data[0])
	case kEmpty:
		return "{}"
	case kDict:
		return e.dict.src()
	case kNum:
		return "7"
	case kSet:
		return "{1, 2}"
	case kArr:
		return "[1]"
	case kFn:
		return `\z z`
	}
	var parts []string
	switch {
	case e.ifx == "":
	case e.ifx == "#42":
		parts = append(parts, "ifExists: 42")
	default:
		parts = append(parts, "ifExists: '"+e.ifx+"'")
	}
	if e.file != nil {
		parts = append(parts, "file: "+e.file.src())
	}
	if e.dir != nil {
		parts = append(parts, "dir: "+e.dir.src())
	}
	if len(parts) == 0 {
		return "()"
	}
	return "(" + strings.Join(parts, ", ") + ")"
}

// form is the data-free shape of an entry value, used in signatures.
func (e *c19ent) form(short bool) string {
	switch e.kind {
	case kStr:
		return "str"
	case kBytes:
		return "bytes"
	case kEmpty:
		return "{}"
	case kDict:
		if short {
			return "dict"
		}
		return "dict" + e.dict.form()
	case kNum:
		return "num"
	case kSet:
		return "set"
	case kArr:
		return "array"
	case kFn:
		return "fn"
	}
	var parts []string
	if e.ifx != "" {
		parts = append(parts, e.ifx)
	}
	if e.file != nil {
		parts = append(parts, "file="+e.file.form(short))
	}
	if e.dir != nil {
		parts = append(parts, "dir="+e.dir.form(short))
	}
	return "(" + strings.Join(parts, ",") + ")"
}

func (d *c19dict) form() string {
	parts := make([]string, len(d.keys))
	for i := range d.keys {
		parts[i] = keyClass(d.keys[i]) + ":" + d.vals[i].form(false)
	}
	sort.Strings(parts)
	return "{" + strings.Join(parts, " ") + "}"
}

func keyClass(k c19key) string {
	switch {
	case k.isNum:
		return "<numkey>"
	case k.name == "":
		return "<empty>"
	case k.name == ".":
		return "<dot>"
	case strings.HasPrefix(k.name, ".."):
		return "<dotdot>"
	case strings.Contains(k.name, "/"):
		return "<slash>"
	}
	return "n"
}

// ---------------------------------------------------------------- reference model

func keyReason(k c19key) string {
	if c := keyClass(k); c != "n" {
		return "key" + c
	}
	return ""
}

var c19ifx = map[string]bool{"ignore": true, "replace": true, "merge": true, "remove": true, "fail": true}

// entReasons lists why an entry value is an invalid description (empty = valid).
func entReasons(e *c19ent, ctx string) []string {
	switch e.kind {
	case kStr, kBytes, kEmpty:
		return nil
	case kDict:
		return dictReasons(e.dict, ctx)
	case kNum:
		return []string{ctx + "entry:number"}
	case kSet:
		return []string{ctx + "entry:set"}
	case kArr:
		return []string{ctx + "entry:array"}
	case kFn:
		return []string{ctx + "entry:function"}
	}
	if e.ifx == "#42" {
		return []string{ctx + "tuple:ifExists-not-string"}
	}
	if e.ifx != "" && !c19ifx[e.ifx] {
		return []string{ctx + "tuple:ifExists-unknown"}
	}
	if e.ifx == "remove" {
		if e.file != nil || e.dir != nil {
			return []string{ctx + "tuple:remove-with-content"}
		}
		return nil
	}
	switch {
	case e.file == nil && e.dir == nil:
		return []string{ctx + "tuple:" + ifxName(e) + "-without-content"}
	case e.file != nil && e.dir != nil:
		return []string{ctx + "tuple:" + ifxName(e) + "-file-and-dir"}
	case e.file != nil:
		if e.ifx == "merge" {
			return []string{ctx + "tuple:merge-with-file"}
		}
		if k := e.file.kind; k != kStr && k != kBytes && k != kEmpty {
			return []string{ctx + "tuple:" + ifxName(e) + "-bad-file-content"}
		}
		return nil
	}
	switch e.dir.kind {
	case kEmpty:
		return nil
	case kDict:
		return dictReasons(e.dir.dict, ctx+"in-"+ifxName(e)+"/")
	}
	return []string{ctx + "tuple:" + ifxName(e) + "-bad-dir-content"}
}

func ifxName(e *c19ent) string {
	if e.ifx == "" {
		return "plain"
	}
	return e.ifx
}

func dictReasons(d *c19dict, ctx string) []string {
	var out []string
	for i, k := range d.keys {
		if r := keyReason(k); r != "" {
			out = append(out, ctx+r)
			continue
		}
		if d.vals[i].kind == kDict {
			out = append(out, dictReasons(d.vals[i].dict, ctx+"in-dict/")...)
		} else {
			out = append(out, entReasons(d.vals[i], ctx)...)
		}
	}
	return out
}

type c19want struct {
	kind    string // ok | invalid | refuse | conflict
	reasons []string
	tree    *c19util.Node // kind ok: whole expected file system
	// soft: a directory description that contains no file was laid over an existing file
	// (or PATH is a file and nothing is to be written): the file stays; an error is
	// acceptable as well
	soft bool
}

const c19path = "/w/out"

// normalise turns a VALID entry into (ifExists, isFile, bytes, dict).
func normalise(e *c19ent) (ifx string, isFile bool, data []byte, dir *c19dict) {
	switch e.kind {
	case kStr, kBytes:
		return "replace", true, []byte(e.data), nil
	case kEmpty:
		return "replace", true, nil, nil
	case kDict:
		return "merge", false, nil, e.dict
	}
	ifx = e.ifx
	if e.file != nil {
		if ifx == "" {
			ifx = "replace"
		}
		return ifx, true, []byte(e.file.data), nil
	}
	if e.dir != nil {
		if ifx == "" {
			ifx = "merge"
		}
		if e.dir.kind == kDict {
			return ifx, false, nil, e.dir.dict
		}
		return ifx, false, nil, &c19dict{}
	}
	return ifx, false, nil, nil // remove
}

// describesFiles reports whether a valid dict would write at least one file somewhere.
func describesFiles(d *c19dict) bool {
	for _, v := range d.vals {
		ifx, isFile, _, sub := normalise(v)
		if ifx == "remove" {
			continue
		}
		if isFile || describesFiles(sub) {
			return true
		}
	}
	return false
}

// applyDir overlays a valid dict on directory node D; it returns "", "soft", "refuse" or "conflict".
func applyDir(D *c19util.Node, d *c19dict) string {
	res := ""
	rank := map[string]int{"": 0, "soft": 1, "refuse": 2, "conflict": 3}
	worst := func(r string) {
		if rank[r] > rank[res] {
			res = r
		}
	}
	for i, k := range d.keys {
		ifx, isFile, data, sub := normalise(d.vals[i])
		cur := D.Kids[k.name]
		create := func() {
			if isFile {
				D.Kids[k.name] = c19util.NewFile(data)
				return
			}
			nd := c19util.NewDir()
			worst(applyDir(nd, sub))
			D.Kids[k.name] = nd
		}
		if cur == nil {
			if ifx != "remove" {
				create()
			}
			continue
		}
		switch ifx {
		case "ignore":
		case "fail":
			worst("refuse")
		case "remove":
			delete(D.Kids, k.name)
		case "replace":
			delete(D.Kids, k.name)
			create()
		case "merge":
			if !cur.Dir {
				if describesFiles(sub) {
					worst("conflict")
				} else {
					worst("soft")
				}
			} else {
				worst(applyDir(cur, sub))
			}
		}
	}
	return res
}

func specDir(prior *c19util.Node, d *c19dict) c19want {
	if rs := dictReasons(d, ""); len(rs) > 0 {
		return c19want{kind: "invalid", reasons: rs}
	}
	t := prior.Clone()
	w := t.Kids["w"]
	cur := w.Kids["out"]
	if cur == nil {
		cur = c19util.NewDir()
		w.Kids["out"] = cur
	} else if !cur.Dir {
		if describesFiles(d) {
			return c19want{kind: "conflict"}
		}
		return c19want{kind: "ok", tree: t, soft: true}
	}
	switch applyDir(cur, d) {
	case "refuse":
		return c19want{kind: "refuse"}
	case "conflict":
		return c19want{kind: "conflict"}
	case "soft":
		return c19want{kind: "ok", tree: t, soft: true}
	}
	return c19want{kind: "ok", tree: t}
}

func specFile(prior *c19util.Node, e *c19ent) c19want {
	switch e.kind {
	case kStr, kBytes, kEmpty:
	default:
		return c19want{kind: "invalid", reasons: []string{"file-mode:" + e.form(true)}}
	}
	t := prior.Clone()
	w := t.Kids["w"]
	if cur := w.Kids["out"]; cur != nil && cur.Dir {
		return c19want{kind: "conflict"}
	}
	w.Kids["out"] = c19util.NewFile([]byte(e.data))
	return c19want{kind: "ok", tree: t}
}

// ---------------------------------------------------------------- running the implementation

type c19run struct {
	err   error
	panic string
	after *c19util.Node
	fs    *c19util.FS
}

func c19exec(prior *c19util.Node, v rel.Value, out string, failAt []int, readOnly bool) (r c19run) {
	mem := c19util.Materialise(prior)
	fs := c19util.NewFS(mem)
	for _, i := range failAt {
		fs.FailAt[i] = true
	}
	fs.ReadOnly = readOnly
	r.fs = fs
	ctx := ctxfs.RuntimeFsOnto(context.Background(), fs)
	r.panic = core.Try(func() { r.err = arrai.OutputValue(ctx, v, nil, out) })
	r.after = c19util.Snapshot(mem)
	return r
}

// diffClass summarises how tree b differs from tree a: a sorted set of
// +dir +file ~file -dir -file kind-change, with an "outside:" prefix for nodes not under PATH.
func diffClass(a, b *c19util.Node) string {
	set := map[string]bool{}
	var rec func(p string, x, y *c19util.Node)
	rec = func(p string, x, y *c19util.Node) {
		tag := func(s string) {
			if p != c19path && !strings.HasPrefix(p, c19path+"/") {
				s = "outside:" + s
			}
			set[s] = true
		}
		kind := func(n *c19util.Node) string {
			if n.Dir {
				return "dir"
			}
			return "file"
		}
		switch {
		case x == nil && y == nil:
			return
		case x == nil:
			tag("+" + kind(y))
			if y.Dir {
				for k, c := range y.Kids {
					rec(p+"/"+k, nil, c)
				}
			}
			return
		case y == nil:
			tag("-" + kind(x))
			return
		case x.Dir != y.Dir:
			tag(kind(x) + "->" + kind(y))
			return
		case !x.Dir:
			if string(x.Data) != string(y.Data) {
				tag("~file")
			}
			return
		}
		names := map[string]bool{}
		for k := range x.Kids {
			names[k] = true
		}
		for k := range y.Kids {
			names[k] = true
		}
		for k := range names {
			rec(strings.TrimSuffix(p, "/")+"/"+k, x.Kids[k], y.Kids[k])
		}
	}
	rec("/", a, b)
	if len(set) == 0 {
		return "same"
	}
	l := make([]string, 0, len(set))
	for s := range set {
		l = append(l, s)
	}
	sort.Strings(l)
	return strings.Join(l, ",")
}

var c19pathRE = regexp.MustCompile(`/w[/\w.]*`)

func errClass(err error) string {
	var en syscall.Errno
	if errors.As(err, &en) {
		switch en {
		case syscall.EISDIR:
			return "EISDIR"
		case syscall.ENOTDIR:
			return "ENOTDIR"
		case syscall.ENOENT:
			return "ENOENT"
		case syscall.EEXIST:
			return "EEXIST"
		case syscall.EIO:
			return "EIO"
		case syscall.EROFS:
			return "EROFS"
		}
		return en.Error()
	}
	return core.NormMsg(c19pathRE.ReplaceAllString(err.Error(), "<p>"))
}

// verdict compares a fault-free run with the reference; it returns "" (agrees) or the
// coarse failure kind (stable while a description is shrunk) and the fine detail.
func c19verdict(prior *c19util.Node, want c19want, r c19run) (coarse, fine string) {
	if r.panic != "" {
		return r.panic, ""
	}
	change := diffClass(prior, r.after)
	outside := strings.Contains(change, "outside:")
	// severity of an unwanted change: outside PATH > existing content destroyed > additions only
	sev := "additive"
	switch {
	case outside:
		sev = "outside-touched"
	case strings.Contains(change, "-") || strings.Contains(change, "~"):
		sev = "destructive"
	}
	switch want.kind {
	case "invalid", "refuse":
		name := map[string]string{"invalid": "invalid", "refuse": "ifExists-fail"}[want.kind]
		if r.err == nil {
			if outside {
				return name + "-accepted|outside-touched", "changes=" + change
			}
			return name + "-accepted|inside-PATH", "changes=" + change
		}
		if change != "same" {
			return name + "-not-atomic|" + sev, "changes=" + change
		}
	case "conflict":
		if r.err == nil {
			return "conflict-accepted", "changes=" + change
		}
		if outside {
			return "conflict|outside-touched", "changes=" + change
		}
	case "ok":
		if r.err != nil && want.soft {
			if outside {
				return "conflict|outside-touched", "changes=" + change
			}
			return "", ""
		}
		if r.err != nil {
			return "valid-rejected|" + errClass(r.err), ""
		}
		if d := diffClass(want.tree, r.after); d != "same" {
			return "wrong-tree", "got-vs-want=" + d
		}
	}
	return "", ""
}

// ---------------------------------------------------------------- signatures by shrinking

// removals returns every description obtained by deleting one dict entry at any depth.
func removals(d *c19dict) []*c19dict {
	var out []*c19dict
	for i := range d.keys {
		c := d.clone()
		c.keys = append(c.keys[:i:i], c.keys[i+1:]...)
		c.vals = append(c.vals[:i:i], c.vals[i+1:]...)
		out = append(out, c)
	}
	for i, v := range d.vals {
		var inner *c19dict
		switch {
		case v.kind == kDict:
			inner = v.dict
		case v.kind == kTuple && v.dir != nil && v.dir.kind == kDict:
			inner = v.dir.dict
		}
		if inner == nil {
			continue
		}
		for _, sub := range removals(inner) {
			if len(sub.keys) == 0 {
				continue // an empty dict is a different kind of value ({} = empty file)
			}
			c := d.clone()
			if v.kind == kDict {
				c.vals[i].dict = sub
			} else {
				c.vals[i].dir.dict = sub
			}
			out = append(out, c)
		}
	}
	return out
}

// shrinkDir deletes entries while the failure kind stays the same.
func shrinkDir(prior *c19util.Node, d *c19dict, kind string) *c19dict {
	for {
		c19shrinkRuns++
		progress := false
		for _, c := range removals(d) {
			r := c19exec(prior, c.rel(), "dir:"+c19path, nil, false)
			if k, _ := c19verdict(prior, specDir(prior, c), r); k == kind {
				d, progress = c, true
				break
			}
		}
		if !progress {
			return d
		}
	}
}

func pathState(prior *c19util.Node) string {
	n := prior.Lookup(c19path)
	switch {
	case n == nil:
		return "path-absent"
	case n.Dir:
		return "path-dir"
	}
	return "path-file"
}

// ---------------------------------------------------------------- the space

func c19str(s string) *c19ent       { return &c19ent{kind: kStr, data: s} }
func c19dictEnt(d *c19dict) *c19ent { return &c19ent{kind: kDict, dict: d} }
func c19d(kv ...any) *c19dict {
	d := &c19dict{}
	for i := 0; i+1 < len(kv); i += 2 {
		switch k := kv[i].(type) {
		case string:
			d.keys = append(d.keys, c19key{name: k})
		case c19key:
			d.keys = append(d.keys, k)
		}
		d.vals = append(d.vals, kv[i+1].(*c19ent))
	}
	return d
}

var c19ifxAll = []string{"", "ignore", "replace", "merge", "remove", "fail", "bogus", "#42"}

// c19states: the prior contents of /w/out; /w/keep always exists next to it.
func c19states(thorough bool) (names []string, trees []*c19util.Node) {
	mk := func(out *c19util.Node) *c19util.Node {
		root := c19util.NewDir()
		w := c19util.NewDir()
		root.Kids["w"] = w
		w.Kids["keep"] = c19util.NewFile([]byte("k"))
		if out != nil {
			w.Kids["out"] = out
		}
		return root
	}
	dir := func(kv ...any) *c19util.Node {
		n := c19util.NewDir()
		for i := 0; i+1 < len(kv); i += 2 {
			n.Kids[kv[i].(string)] = kv[i+1].(*c19util.Node)
		}
		return n
	}
	old := func() *c19util.Node { return c19util.NewFile([]byte("old")) }
	add := func(n string, t *c19util.Node) { names = append(names, n); trees = append(trees, mk(t)) }
	add("absent", nil)
	add("empty-dir", dir())
	add("file", old())
	add("a=file", dir("a", old()))
	add("a=dir{c}", dir("a", dir("c", old())))
	add("a=dir{c},b=file", dir("a", dir("c", old()), "b", old()))
	if thorough {
		add("a=file,b=dir{c}", dir("a", old(), "b", dir("c", old())))
		add("a=dir{c=dir{d}}", dir("a", dir("c", dir("d", old()))))
	}
	return
}

// nested dicts (level 2): names c (exists in some states), d, ../x; values below
func c19nested(thorough bool) []*c19dict {
	names := []string{"c", "d", "../x", ".."}
	vals := []*c19ent{
		c19str("n"),
		{kind: kEmpty},
		{kind: kNum},
		{kind: kTuple, ifx: "fail", file: c19str("n")},
		{kind: kTuple, ifx: "remove"},
		{kind: kTuple, dir: &c19ent{kind: kEmpty}},
		{kind: kArr},
		{kind: kTuple, ifx: "replace", file: &c19ent{kind: kNum}},
	}
	pairVals := vals[:4]
	if thorough {
		pairVals = vals
	}
	var out []*c19dict
	for _, n := range names {
		for _, v := range vals {
			out = append(out, c19d(n, v))
		}
	}
	for i := 0; i < len(names); i++ {
		for j := i + 1; j < len(names); j++ {
			for _, v1 := range pairVals {
				for _, v2 := range pairVals {
					out = append(out, c19d(names[i], v1, names[j], v2))
				}
			}
		}
	}
	return out
}

// atoms: every entry kind and every tuple shape without deep nesting
func c19atoms() (full, small, tiny []*c19ent) {
	nd := c19d("c", c19str("n"))
	simple := []*c19ent{
		c19str("s"), {kind: kBytes, data: "\x01"}, {kind: kEmpty}, c19dictEnt(nd),
		{kind: kNum}, {kind: kSet}, {kind: kArr}, {kind: kFn},
	}
	full = append(full, simple...)
	type content struct{ file, dir *c19ent }
	contents := []content{
		{nil, nil},
		{c19str("t"), nil},
		{nil, &c19ent{kind: kEmpty}},
		{nil, c19dictEnt(nd)},
		{c19str("t"), &c19ent{kind: kEmpty}},
		{c19str("t"), c19dictEnt(nd)},
		{&c19ent{kind: kNum}, nil},
		{nil, &c19ent{kind: kNum}},
		{nil, c19str("s")},
		{&c19ent{kind: kBytes, data: "\x02"}, nil},
		{&c19ent{kind: kEmpty}, nil},
		{c19dictEnt(nd), nil},
	}
	for _, ifx := range c19ifxAll {
		for _, c := range contents {
			full = append(full, &c19ent{kind: kTuple, ifx: ifx, file: c.file, dir: c.dir})
		}
	}
	// small: one representative of every entry kind and every (ifExists x {none,file,dir,both}) shape
	small = append(small, simple...)
	for _, ifx := range c19ifxAll {
		for _, c := range contents[:5] {
			if c.dir != nil && c.dir.kind == kEmpty && c.file == nil && ifx != "" && ifx != "replace" {
				continue // (dir: {}) kept only for plain and replace in the small set
			}
			small = append(small, &c19ent{kind: kTuple, ifx: ifx, file: c.file, dir: c.dir})
		}
	}
	tiny = []*c19ent{c19str("s"), {kind: kNum}, {kind: kArr}, c19dictEnt(c19d("d", c19str("n"))),
		{kind: kTuple, ifx: "fail", file: c19str("t")}, {kind: kTuple, ifx: "replace", dir: c19dictEnt(nd)}}
	return
}

// Keys containing "/" (e.g. a/b) and "." are deliberately not in the alphabet: neither the property nor the docs say
// whether such keys are valid (the repository's own tests use "bar/baz" as a nested path), so no verdict is possible.
var c19keys = []c19key{{name: "a"}, {name: "b"}, {name: "../x"}, {name: "../keep"}, {name: ".."}, {name: ""}, {isNum: true}}

// ---------------------------------------------------------------- the check

func checkC19(w *core.W) {
	if o := obs.Run(`\z z`); o.OK() {
		c19fn = o.V
	} else {
		w.BrokenF("cannot build a function value: %v %s", o.Err, o.Panic)
		return
	}
	stateNames, states := c19states(w.Thorough)
	full, small, tiny := c19atoms()
	nested := c19nested(w.Thorough)

	// wrappers that carry a nested dict
	wrap := func(nd *c19dict) []*c19ent {
		out := []*c19ent{c19dictEnt(nd)}
		for _, ifx := range []string{"", "merge", "replace", "ignore", "fail", "remove"} {
			out = append(out, &c19ent{kind: kTuple, ifx: ifx, dir: c19dictEnt(nd)})
		}
		return out
	}
	var rich []*c19ent
	for _, nd := range nested {
		rich = append(rich, wrap(nd)...)
	}

	var dicts []*c19dict
	dicts = append(dicts, &c19dict{}) // {}
	for _, k := range c19keys {
		for _, v := range full {
			dicts = append(dicts, c19d(k, v))
		}
		if k.name == "a" || k.name == "b" || k.name == "../x" {
			for _, v := range rich {
				dicts = append(dicts, c19d(k, v))
			}
		}
	}
	// two entries: both keys valid -> all x all values; one valid key + one invalid key ->
	// small x tiny (thorough: all x small); two invalid keys -> tiny x tiny (thorough: small x small)
	isValidKey := func(k c19key) bool { return keyClass(k) == "n" }
	for i := 0; i < len(c19keys); i++ {
		for j := i + 1; j < len(c19keys); j++ {
			ki, kj := c19keys[i], c19keys[j]
			s1, s2 := full, full
			lo, hi := tiny, small
			if w.Thorough {
				lo, hi = small, full
			}
			switch {
			case isValidKey(ki) && isValidKey(kj):
			case isValidKey(ki):
				s1, s2 = hi, lo
			case isValidKey(kj):
				s1, s2 = lo, hi
			default:
				s1, s2 = lo, lo
			}
			for _, v1 := range s1 {
				for _, v2 := range s2 {
					dicts = append(dicts, c19d(ki, v1, kj, v2))
				}
			}
		}
	}
	// a nested-rich entry next to a second entry
	for _, v1 := range rich {
		for _, v2 := range tiny {
			dicts = append(dicts, c19d("a", v1, "b", v2), c19d("b", v1, "a", v2))
		}
	}
	// valid descriptions in depth: three entries a, b, d over ten valid shapes, and two nested
	// valid entries (c, d) below every wrapper
	nd1 := c19d("c", c19str("n"))
	validVals := []*c19ent{
		c19str("s"), {kind: kEmpty}, c19dictEnt(nd1),
		{kind: kTuple, ifx: "replace", file: c19str("t")}, {kind: kTuple, ifx: "ignore", file: c19str("t")},
		{kind: kTuple, ifx: "fail", file: c19str("t")}, {kind: kTuple, ifx: "remove"},
		{kind: kTuple, ifx: "merge", dir: c19dictEnt(c19d("d", c19str("n")))},
		{kind: kTuple, ifx: "replace", dir: &c19ent{kind: kEmpty}}, {kind: kTuple, dir: c19dictEnt(nd1)},
	}
	for _, v1 := range validVals {
		for _, v2 := range validVals {
			for _, v3 := range validVals {
				dicts = append(dicts, c19d("a", v1, "b", v2, "d", v3))
			}
		}
	}
	nestedValid := []*c19ent{c19str("n"), {kind: kEmpty}, {kind: kTuple, ifx: "fail", file: c19str("n")},
		{kind: kTuple, ifx: "remove"}, {kind: kTuple, dir: &c19ent{kind: kEmpty}}, {kind: kTuple, ifx: "ignore", file: c19str("n")},
		{kind: kTuple, ifx: "replace", dir: c19dictEnt(c19d("d", c19str("m")))}}
	for _, v1 := range nestedValid {
		for _, v2 := range nestedValid {
			for _, wv := range wrap(c19d("c", v1, "d", v2)) {
				dicts = append(dicts, c19d("a", wv), c19d("a", wv, "b", c19str("s")))
			}
		}
	}
	if w.Thorough {
		for i := 0; i < len(c19keys); i++ {
			for j := i + 1; j < len(c19keys); j++ {
				for l := j + 1; l < len(c19keys); l++ {
					for _, v1 := range tiny {
						for _, v2 := range tiny {
							for _, v3 := range tiny {
								dicts = append(dicts, c19d(c19keys[i], v1, c19keys[j], v2, c19keys[l], v3))
							}
						}
					}
				}
			}
		}
	}
	w.Count("space.dicts", 0)
	if w.Shard == 0 {
		w.Count("space.dicts", int64(len(dicts)))
		w.Count("space.states", int64(len(states)))
	}

	debug.SetGCPercent(400)
	defer func() { w.Count("shrink.rounds", c19shrinkRuns) }()
	k := 0
	for di, d := range dicts {
		if w.Expired() {
			w.Cap(fmt.Sprintf("deadline reached after %d of %d descriptions", di, len(dicts)))
			break
		}
		for si := range states {
			k++
			if !w.Mine(k) {
				continue
			}
			d, prior, sname := d, states[si], stateNames[si]
			_ = di
			w.Case(func() string {
				return fmt.Sprintf("dir|%s ## arrai eval --out=dir:%s %q with %s = %s", sname, c19path, d.src(), c19path, sname)
			}, func() { c19dirCase(w, d, prior, sname) })
		}
	}

	// file mode and flag spellings
	fstates, fnames := []*c19util.Node{states[0], states[1], states[2], states[4]}, []string{stateNames[0], stateNames[1], stateNames[2], stateNames[4]}
	fileVals := append(append([]*c19ent{}, full...), c19dictEnt(c19d("a", c19str("s"))))
	for _, v := range fileVals {
		for si := range fstates {
			for _, flag := range []string{"file:", "f:", ":", ""} {
				k++
				if !w.Mine(k) {
					continue
				}
				v, prior, sname, flag := v, fstates[si], fnames[si], flag
				w.Case(func() string {
					return fmt.Sprintf("file|%s ## arrai eval --out=%s%s %q with %s = %s", sname, flag, c19path, v.src(), c19path, sname)
				}, func() { c19fileCase(w, v, prior, sname, flag) })
			}
		}
	}
	// other spellings of the flag: d: behaves as dir:, an unknown mode is an error without effect,
	// dir mode needs a dict
	for _, v := range fileVals {
		for si := range fstates {
			k++
			if !w.Mine(k) {
				continue
			}
			v, prior, sname := v, fstates[si], fnames[si]
			w.Case(func() string {
				return fmt.Sprintf("flag|%s ## arrai eval --out={bogus:,d:}%s %q with %s = %s", sname, c19path, v.src(), c19path, sname)
			}, func() {
				r := c19exec(prior, v.rel(), "bogus:"+c19path, nil, false)
				w.Eval(true)
				if kind, _ := c19verdict(prior, c19want{kind: "invalid"}, r); kind != "" {
					w.Fail("wrong", "flag|unknown-mode|"+kind, "--out=bogus:"+c19path+" "+v.src(), "")
				}
				want := c19want{kind: "invalid"}
				if v.kind == kDict {
					want = specDir(prior, v.dict)
				} else if v.kind == kEmpty {
					want = specDir(prior, &c19dict{})
				}
				r = c19exec(prior, v.rel(), "d:"+c19path, nil, false)
				w.Eval(true)
				if kind, _ := c19verdict(prior, want, r); kind != "" && (v.kind != kDict && v.kind != kEmpty) {
					w.Fail("wrong", "flag|d:|non-dict:"+v.form(true)+"|"+kind, "--out=d:"+c19path+" "+v.src(), "")
				} else if v.kind == kDict || v.kind == kEmpty {
					r2 := c19exec(prior, v.rel(), "dir:"+c19path, nil, false)
					if (r.err == nil) != (r2.err == nil) || diffClass(r.after, r2.after) != "same" {
						w.Fail("wrong", "flag|d:-differs-from-dir:", "--out=d:"+c19path+" "+v.src(), "")
					}
				}
			})
		}
	}
}

func opTarget(d *c19dict, p string) string {
	p = path.Clean(p)
	if p == c19path {
		return "top"
	}
	rel := strings.TrimPrefix(p, c19path+"/")
	if rel == p {
		return "outside"
	}
	class := func(v *c19ent) string {
		switch {
		case v.kind == kStr || v.kind == kBytes || v.kind == kEmpty:
			return "file-entry"
		case v.kind == kDict:
			return "plain-dir-entry"
		case v.kind == kTuple && v.ifx == "" && v.dir != nil:
			return "plain-dir-entry"
		case v.kind == kTuple && v.ifx == "":
			return "file-entry"
		case v.kind == kTuple && v.dir != nil:
			return "ifExists-dir-entry"
		case v.kind == kTuple:
			return "ifExists-entry"
		}
		return "other"
	}
	cur := d
	parts := strings.Split(rel, "/")
	for i, part := range parts {
		var v *c19ent
		for j, k := range cur.keys {
			if !k.isNum && k.name == part {
				v = cur.vals[j]
			}
		}
		if v == nil {
			return "other"
		}
		if i == len(parts)-1 {
			return class(v)
		}
		switch {
		case v.kind == kDict:
			cur = v.dict
		case v.kind == kTuple && v.dir != nil && v.dir.kind == kDict:
			cur = v.dir.dict
		default:
			return "other"
		}
	}
	return "other"
}

// sigForm is the shape of an entry value with data and file-like kinds abstracted.
func sigForm(e *c19ent) string {
	switch e.kind {
	case kStr, kBytes, kEmpty:
		return "content"
	case kDict:
		return "dict"
	case kTuple:
		var parts []string
		if e.ifx != "" {
			parts = append(parts, e.ifx)
		}
		if e.file != nil {
			parts = append(parts, "file="+sigForm(e.file))
		}
		if e.dir != nil {
			if e.dir.kind == kEmpty {
				parts = append(parts, "dir={}")
			} else {
				parts = append(parts, "dir="+sigForm(e.dir))
			}
		}
		return "(" + strings.Join(parts, ",") + ")"
	}
	return e.form(true)
}

// topForms lists "<what exists there>:<entry shape>" for the top-level entries.
func topForms(prior *c19util.Node, d *c19dict) string {
	parts := make([]string, len(d.keys))
	for i, k := range d.keys {
		at := keyClass(k)
		if at == "n" {
			switch n := prior.Lookup(c19path + "/" + k.name); {
			case n == nil:
				at = "absent"
			case n.Dir:
				at = "dir"
			default:
				at = "file"
			}
		}
		parts[i] = at + ":" + sigForm(d.vals[i])
	}
	sort.Strings(parts)
	return "{" + strings.Join(parts, " ") + "}"
}

// reasonClasses abstracts the invalidity reasons of a description: the nesting context keeps
// only whether the entry sits below a replace/ignore/fail tuple; with coarse=true the five
// kinds of bad key and the three non-data entry kinds (set, array, function) are merged.
func reasonClasses(reasons []string, coarse bool) string {
	set := map[string]bool{}
	for _, r := range reasons {
		segs := strings.Split(r, "/")
		leaf := segs[len(segs)-1]
		ctx := ""
		nested := false
		for _, sg := range segs[:len(segs)-1] {
			switch sg {
			case "in-replace", "in-ignore", "in-fail":
				if !strings.Contains(ctx, sg) {
					ctx += sg + "/"
				}
			default:
				nested = true
			}
		}
		if nested && ctx == "" {
			ctx = "nested/"
		}
		if coarse {
			switch {
			case strings.HasPrefix(leaf, "key<"):
				leaf = "key"
			case strings.HasPrefix(leaf, "entry:number"):
			case strings.HasPrefix(leaf, "entry:"):
				leaf = "entry:non-data"
			}
		}
		set[ctx+leaf] = true
	}
	l := make([]string, 0, len(set))
	for r := range set {
		l = append(l, r)
	}
	sort.Strings(l)
	return strings.Join(l, "+")
}

// c19signature names a fault-free failure after shrinking it to a minimal description m.
func c19signature(prior *c19util.Node, kind string, m *c19dict) string {
	want := specDir(prior, m)
	r := c19exec(prior, m.rel(), "dir:"+c19path, nil, false)
	_, fine := c19verdict(prior, want, r)
	change := diffClass(prior, r.after)
	parts := strings.SplitN(kind, "|", 2)
	switch parts[0] {
	case "invalid-accepted":
		return "dir|invalid-accepted|" + parts[1] + "|" + reasonClasses(want.reasons, false)
	case "invalid-not-atomic":
		if change == "+dir" {
			return "dir|invalid-not-atomic|only-empty-dirs-created|" + pathState(prior)
		}
		return "dir|invalid-not-atomic|" + parts[1] + "|" + reasonClasses(want.reasons, true)
	case "ifExists-fail-accepted", "ifExists-fail-not-atomic":
		if change == "+dir" {
			return "dir|" + parts[0] + "|only-empty-dirs-created|" + pathState(prior)
		}
		return "dir|" + kind + "|" + pathState(prior)
	}
	sig := "dir|" + kind + "|" + pathState(prior) + "|" + topForms(prior, m)
	if fine != "" && parts[0] != "conflict-accepted" {
		sig += "|" + fine
	}
	return sig
}

// opClass names a logged call: kind, what the path denotes in the description, and the
// how-many-th call of that kind on that path it is.
func opClass(d *c19dict, ops []c19util.Op, i int) string {
	op := ops[i-1]
	occ := 0
	for _, o := range ops[:i] {
		if o == op {
			occ++
		}
	}
	t := opTarget(d, op.Path)
	return fmt.Sprintf("%s#%d|on:%s", op.Kind, occ, t)
}

func c19dirCase(w *core.W, d *c19dict, prior *c19util.Node, sname string) {
	val := d.rel()
	out := "dir:" + c19path
	want := specDir(prior, d)
	base := c19exec(prior, val, out, nil, false)

	// non-trivial: the description is invalid/refused/conflicting, or an entry meets an existing node
	nontrivial := want.kind != "ok"
	if !nontrivial {
		for _, k := range d.keys {
			if prior.Lookup(c19path+"/"+k.name) != nil {
				nontrivial = true
			}
		}
	}
	w.Eval(nontrivial)
	kind, _ := c19verdict(prior, want, base)
	w.Note("outcomes", want.kind+"/"+map[bool]string{true: "err", false: "ok"}[base.err != nil]+"/"+diffClass(prior, base.after))
	w.Count("want."+want.kind, 1)
	if len(w.SamplesLeft()) > 0 && len(d.keys) == 2 && want.kind == "ok" && nontrivial && kind == "" {
		w.Sample(fmt.Sprintf("--out=dir:%s %s on %s -> %s", c19path, d.src(), sname, strings.Join(base.after.Lines(), "; ")))
	}
	if kind != "" {
		w.Count("base.deviates", 1)
		if strings.HasPrefix(kind, "panic|") {
			w.Fail("panic", kind, d.src()+" on "+sname, "")
		} else {
			m := shrinkDir(prior, d, kind)
			detail := ""
			if base.err != nil {
				detail = "error: " + base.err.Error()
			}
			w.Fail("wrong", c19signature(prior, kind, m), fmt.Sprintf("--out=dir:%s %s with %s = %s (minimal: %s)", c19path, d.src(), c19path, sname, m.src()), detail)
		}
	} else {
		w.Count("base.agrees", 1)
	}

	// fault enumeration: fail the i-th file-system call, for every i. "The command must fail"
	// is judged on the cases whose fault-free behaviour agrees with the reference; on the
	// others only panics and damage outside PATH are looked for.
	n := len(base.fs.Ops)
	w.Count("fault.base-ops", int64(n))
	swallowed := map[string]bool{}
	check := func(r c19run, fired []int, what string) {
		w.Eval(true)
		w.Count("fault.runs", 1)
		if r.panic != "" {
			w.Fail("panic", r.panic, d.src()+" on "+sname+" "+what, "")
			return
		}
		if want.kind != "invalid" && strings.Contains(diffClass(prior, r.after), "outside:") {
			w.Fail("wrong", "fault|outside-touched", d.src()+" on "+sname+" "+what, "")
		}
		if r.err != nil {
			w.Count("fault.reported", 1)
			return
		}
		if kind != "" {
			w.Count("fault.unjudged-base-deviates", 1)
			return
		}
		tree := "tree-differs-from-spec"
		if want.kind == "ok" && diffClass(want.tree, r.after) == "same" {
			tree = "tree-as-specified"
		}
		cls := make([]string, len(fired))
		for i, f := range fired {
			cls[i] = opClass(d, r.fs.Ops, f)
		}
		if len(fired) == 1 {
			swallowed[cls[0]] = true
			w.Fail("wrong", "fault|error-swallowed|"+cls[0]+"|"+tree, fmt.Sprintf("--out=dir:%s %s with %s = %s, %s", c19path, d.src(), c19path, sname, what), "")
			return
		}
		// a pair of faults each of which is already reported as swallowed on its own adds nothing
		if swallowed[cls[0]] && swallowed[cls[1]] {
			w.Count("fault.pair-of-singly-swallowed", 1)
			return
		}
		w.Fail("wrong", "fault|pair-swallowed|"+r.fs.Ops[fired[0]-1].Kind+"+"+r.fs.Ops[fired[1]-1].Kind+"|"+tree, fmt.Sprintf("--out=dir:%s %s with %s = %s, %s", c19path, d.src(), c19path, sname, what), "")
	}
	type pair struct{ i, j int }
	var pairs []pair
	for i := 1; i <= n; i++ {
		r := c19exec(prior, val, out, []int{i}, false)
		if len(r.fs.Fired) != 1 {
			w.BrokenF("fault %d of %d not reached for %s on %s", i, n, d.src(), sname)
			continue
		}
		check(r, r.fs.Fired, fmt.Sprintf("EIO at call %d (%s %s)", i, r.fs.Ops[i-1].Kind, r.fs.Ops[i-1].Path))
		if w.Thorough {
			for j := i + 1; j <= len(r.fs.Ops); j++ {
				pairs = append(pairs, pair{i, j})
			}
		}
	}
	for _, p := range pairs {
		r2 := c19exec(prior, val, out, []int{p.i, p.j}, false)
		if len(r2.fs.Fired) != 2 {
			w.BrokenF("fault pair %d,%d not reached for %s on %s", p.i, p.j, d.src(), sname)
			continue
		}
		w.Count("fault.pairs", 1)
		check(r2, r2.fs.Fired, fmt.Sprintf("EIO at calls %d and %d", p.i, p.j))
	}
	// persistent fault: a read-only file system; success is only allowed when nothing had to change
	ro := c19exec(prior, val, out, nil, true)
	w.Eval(true)
	w.Count("fault.readonly-runs", 1)
	if d := diffClass(prior, ro.after); d != "same" {
		w.BrokenF("read-only fs changed: %s", d)
	}
	switch {
	case ro.panic != "":
		w.Fail("panic", ro.panic, d.src()+" on "+sname+" read-only", "")
	case ro.err != nil:
		w.Count("fault.readonly-reported", 1)
	case kind != "":
		w.Count("fault.unjudged-base-deviates", 1)
	case want.kind == "ok" && diffClass(want.tree, prior) == "same":
		w.Count("fault.readonly-nothing-to-do", 1)
	default:
		sig := "fault|read-only-success|want=" + want.kind + "|" + pathState(prior)
		if want.kind == "ok" {
			sig += "|needed=" + diffClass(prior, want.tree)
		}
		w.Fail("wrong", sig, fmt.Sprintf("--out=dir:%s %s with %s = %s on a read-only file system", c19path, d.src(), c19path, sname), "")
	}
}

func c19fileCase(w *core.W, v *c19ent, prior *c19util.Node, sname, flag string) {
	val := v.rel()
	out := flag + c19path
	want := specFile(prior, v)
	base := c19exec(prior, val, out, nil, false)
	w.Eval(want.kind != "ok" || prior.Lookup(c19path) != nil)
	w.Note("outcomes", "file:"+want.kind+"/"+map[bool]string{true: "err", false: "ok"}[base.err != nil]+"/"+diffClass(prior, base.after))
	if kind, fine := c19verdict(prior, want, base); kind != "" {
		if strings.HasPrefix(kind, "panic|") {
			w.Fail("panic", kind, v.src()+" on "+sname, "")
		} else {
			w.Fail("wrong", "file|"+kind+"|"+fine+"|"+pathState(prior)+"|"+v.form(true), fmt.Sprintf("--out=%s %s with %s = %s", out, v.src(), c19path, sname), "")
		}
	}
	for i := 1; i <= len(base.fs.Ops); i++ {
		r := c19exec(prior, val, out, []int{i}, false)
		w.Eval(true)
		w.Count("fault.runs", 1)
		if len(r.fs.Fired) != 1 {
			w.BrokenF("fault %d not reached (file mode)", i)
			continue
		}
		if r.panic != "" {
			w.Fail("panic", r.panic, v.src()+" on "+sname, "")
		} else if r.err == nil {
			treeOK := "tree-differs-from-spec"
			if want.kind == "ok" && diffClass(want.tree, r.after) == "same" {
				treeOK = "tree-as-specified"
			}
			w.Fail("wrong", "fault|error-swallowed|"+r.fs.Ops[i-1].Kind+"#1|on:file-mode|"+treeOK,
				fmt.Sprintf("--out=%s %s with %s = %s, EIO at call %d (%s)", out, v.src(), c19path, sname, i, r.fs.Ops[i-1].Kind), "")
		} else {
			w.Count("fault.reported", 1)
		}
	}
}

var C19 = core.Check{
	ID: "C19", Level: "fault_enumeration", Fn: checkC19, Watchdog: 120 * time.Second,
	Rule: "output dictionaries of depth <=2: every single entry over 8 keys (a, b, ../x, ../keep, a/b, '', '.', the number 1) x 104 entry values (string, bytes, {}, dict, number, set, array, function, tuples with ifExists in {absent, ignore, replace, merge, remove, fail, bogus, 42} x 12 file/dir contents incl. both, neither and wrongly typed ones); single entries carrying every nested dict of <=2 entries over names {c, d, ../x} x 8 nested values (4 in pairs, quick) below 7 wrappers (plain, dir:, merge, replace, ignore, fail, remove); all pairs of entries (a,b: 104x104; valid+invalid key: 42x6 quick / 104x42 thorough; two invalid keys: 6x6 / 42x42); nested-rich entry next to 6 second entries; 10^3 all-valid triples; 49 all-valid nested pairs below every wrapper; thorough adds 6^3 triples over all key triples -- each x 6 (quick) / 8 (thorough) prior states of PATH (absent, empty dir, file, a=file, a=dir{c}, a=dir{c}+b=file, ...), run through arrai.OutputValue on a POSIX-strict wrapper of afero.MemMapFs and compared (whole file system, inside and outside PATH) with a reference spec(prior, dict); file: mode for 105 result values x 4 states x 4 flag spellings, plus d:/unknown-mode spellings; for every (dict, state) the run is repeated with EIO injected at the i-th file-system call for every i (and every pair i<j in thorough) and once on a read-only file system; non-trivial = the description is invalid/refused/conflicting or one of its entries meets a pre-existing node (fault runs: the injected fault was reached)",
	Assume: []string{
		"file system = afero.MemMapFs behind a wrapper that adds the POSIX path-resolution errors MemMapFs omits (ENOENT/ENOTDIR for missing/non-directory ancestors, EISDIR for Create on a directory, EEXIST for Mkdir) and a RemoveAll that is not prefix-based",
		"validity of a description is taken from docs/docs/cli/eval.md and is independent of the prior state; keys must be single path components",
		"dir-onto-file under merge (and PATH being a file / a directory in the wrong mode) is a conflict: only an error is demanded",
		"permissions, symlinks, concurrent writers and partial writes are not modelled",
	},
}
