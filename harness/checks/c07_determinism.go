package checks

import (
	"crypto/sha256"
	"encoding/hex"
	"fmt"
	"os"
	"regexp"
	"sort"
	"strconv"
	"strings"
	"time"

	"github.com/arr-ai/arrai/rel"

	"verif/harness/core"
	"verif/harness/model"
	"verif/harness/obs"
	"verif/harness/rsx"
)

// C07: evaluation is deterministic across processes and hash seeds.
//
// Environment configurations (engine E3) are enumerated, not sampled: every worker process
// of every round runs under its own (hash seed, Go-map iteration key) configuration - the
// seeds of github.com/arr-ai/hash and of frozen's internal hash package are a function of
// VERIF_HASH_SEED, and Go map iteration offsets / per-map seeds are a function of
// VERIF_MAPITER (toolchain overlay, driver vx7). In each configuration the whole program
// set is evaluated and the printed output of every program recorded; the last round
// compares: every program must print the same bytes in every configuration, and all
// literal orderings of one collection must print the same bytes.

func c07Config(tier string, round, shard int) []string {
	// quick: 16 configurations = 4 hash seeds x 4 map keys; thorough: 4 rounds of 16
	seed := 1 + shard%4 + 4*round
	mk := 1 + shard/4 + 4*round
	return []string{"VERIF_HASH_SEED=" + strconv.Itoa(seed), "VERIF_MAPITER=" + strconv.Itoa(mk)}
}

type c07Prog struct {
	src   string
	group string // programs of one group must all print the same (literal orderings of one collection)
}

func perms(items []string) [][]string {
	if len(items) <= 1 {
		return [][]string{append([]string{}, items...)}
	}
	var out [][]string
	for i := range items {
		rest := append(append([]string{}, items[:i]...), items[i+1:]...)
		for _, p := range perms(rest) {
			out = append(out, append([]string{items[i]}, p...))
		}
	}
	return out
}

func c07Programs(w *core.W) []c07Prog {
	var ps []c07Prog
	add := func(src, group string) { ps = append(ps, c07Prog{src, group}) }
	// (a) every construction path of the representation space
	sp := rsx.New(w, 2)
	sp.BuildGen0()
	for _, s := range sp.States {
		if model.Taint(s.M) == "" {
			add(s.Prog, "")
		}
	}
	// (b) all literal orderings (n <= 4) of small collections of every kind
	colls := [][]string{
		{"1", "2", "3", "4"}, {`"a"`, `"b"`, `[1]`, `{2}`}, {"(a:1)", "(a:2)", "(b:1)", "()"}, {"1", `"a"`, "(a:1)", "{}"},
		{"(@:0,@item:1)", "(@:1,@item:2)", "(@:3,@item:3)", "5"}, {"(@:0,@char:97)", "(@:1,@char:98)", "(@:3,@char:99)", "(@:0,@item:1)"},
		{"(@:1,@value:2)", "(@:2,@value:3)", `(@:"a",@value:1)`, "7"}, {"{1}", "{1,2}", "{{}}", "{}"},
	}
	for ci, c := range colls {
		for n := 2; n <= len(c); n++ {
			for _, p := range perms(c[:n]) {
				g := fmt.Sprintf("set%d/%d", ci, n)
				add("{"+strings.Join(p, ", ")+"}", g)
				add("{"+strings.Join(p, "} | {")+"}", g)
				add("{"+strings.Join(p, ", ")+"} orderby .", g+"/orderby")
				add("{"+strings.Join(p, ", ")+"} => [., 1]", g+"/map")
			}
		}
	}
	tupleAttrs := []string{"a: 1", "b: 2", "c: 3", "d: 4"}
	for _, p := range perms(tupleAttrs) {
		add("("+strings.Join(p, ", ")+")", "tuple4")
		add("("+strings.Join(p[:2], ", ")+") +> ("+strings.Join(p[2:], ", ")+")", "tuple4")
	}
	dictEntries := []string{"1: 2", `"k": 3`, "(a:1): 4", "[1]: 5"}
	for _, p := range perms(dictEntries) {
		add("{"+strings.Join(p, ", ")+"}", "dict4")
	}
	relRows := []string{"(1, 2)", "(1, 3)", "(2, 2)", "(3, 1)"}
	for _, p := range perms(relRows) {
		add("{|a, b| "+strings.Join(p, ", ")+"}", "rel4")
		add("{|a, b| "+strings.Join(p, ", ")+"} rank (r: .a)", "rel4/rank")
		add("{|a, b| "+strings.Join(p, ", ")+"} nest |b| n", "rel4/nest")
	}
	// (c) size-inflated collections (above frozen's leaf size of 8, where seeds change traversal order)
	nums := func(lo, hi int) string {
		var l []string
		for i := lo; i <= hi; i++ {
			l = append(l, strconv.Itoa(i))
		}
		return strings.Join(l, ", ")
	}
	big := map[string]string{
		"S":  "{" + nums(1, 12) + "}",
		"M":  `{1, 2, 3, "a", "b", [1], [2], (a:1), (b:2), {1}, {2}, {}, (@:0,@item:1), 1\"x"}`,
		"T":  "(a:1, b:2, c:3, d:4, e:5, f:6, g:7, h:8, i:9, j:10, k:11, l:12)",
		"D":  `{1:"a", 2:"b", 3:"c", 4:"d", 5:"e", 6:"f", 7:"g", 8:"h", 9:"i", 10:"j", "k":11, (a:1):12}`,
		"R":  "{|x, y| (1,1),(2,1),(3,1),(4,2),(5,2),(6,2),(7,3),(8,3),(9,3),(10,4),(11,4),(12,4)}",
		"Q":  "{|y, z| (1,10),(2,20),(3,30),(4,40),(1,11),(2,21),(3,31),(4,41),(1,12),(2,22)}",
		"SS": "{{1,2,3}, {4,5,6}, {7,8,9}, {1,4,7}, {2,5,8}, {3,6,9}, {1,5,9}, {3,5,7}, {}, {1}, {2}, {3}}",
		"MD": "{1:1} | {1:2} | {1:3} | {1:4} | {1:5} | {1:6} | {1:7} | {1:8} | {1:9} | {1:10} | {2:1}",
		"A":  "[" + nums(1, 12) + "]",
		"W":  `{"one", "two", "three", "four", "five", "six", "seven", "eight", "nine", "ten", "eleven", "twelve"}`,
	}
	var names []string
	for k := range big {
		names = append(names, k)
	}
	sort.Strings(names)
	unary := []string{"x", "x => [., 1]", "x where true", "x count", "x orderby .", "^(x where . < 4)", "x => {.}", "{x, 1}", "(a: x)", "[x, x]",
		"x rank (r: .)", "x max .", "x min .", "//seq.join(\",\", x orderby . >> $\"${.}\")", "x => (v: .)", "x => cond . {1: 1, _: 0}", "{x: 1}",
		// patterns: a set pattern picks members of an unordered collection
		"cond x {{1, y}: y, _: \"no\"}", "cond x {{1, ...t}: t count, _: \"no\"}", "cond x {{y, ...}: y, _: \"no\"}", "cond x {[y, ...]: y, (a: y, ...): y, {1: y, ...}: y, _: \"no\"}"}
	for _, n := range names {
		for _, u := range unary {
			add("let x = "+big[n]+"; "+u, "")
		}
	}
	relOps := []string{"R <&> Q", "R <-> Q", "R -&- Q", "R --- Q", "R -&> Q", "R <&- Q", "R --> Q", "R <-- Q", "R nest |x| n", "R nest ~|x| n",
		"R rank (r: .y)", "R rank (r: .y, s: .x)", "R => .x", "R where .y > 1", "(R <&> Q) rank (r: .z)", "(R <&> Q) nest |x, z| n", "R orderby .x",
		"R => (k: .y) rank (r: .k)", "Q rank (r: .y)", "(R nest |x| n) => (.n count)", "R | Q", "R &~ Q", "(R => (x: .x, y: .y + 1)) & R"}
	for _, o := range relOps {
		add("let R = "+big["R"]+"; let Q = "+big["Q"]+"; "+o, "")
	}
	setOps := []string{"S | M", "S & M", "S &~ M", "S ~~ M", "M | SS", "M &~ SS", "SS => (. count)", "S => . % 3", "M where . = . ", "T :> . + 1", "T +> (z: 0, a: 9)",
		"T.|a, e, k|", "D >> .", "D => .@", "D | {13: 1}", "MD", "MD count", "{MD, 5}", "MD | {5}", "{5} | MD", "MD => .@value", "{7, 5} | MD | {\"s\"}", "A ++ A", "A >> . * 2", "W orderby .", "W => (. count)"}
	pre := ""
	for _, n := range names {
		pre += "let " + n + " = " + big[n] + "; "
	}
	for _, o := range setOps {
		add(pre+o, "")
	}
	return ps
}

func c07Output(p c07Prog) string {
	o := obs.Run(p.src)
	switch {
	case o.Panic != "":
		return "panic:" + o.Panic
	case o.Err != nil:
		return "error"
	}
	if obs.IsFunction(o.V) {
		return "function"
	}
	return reprOf(o.V)
}

func enumOrder(v rel.Value) string {
	var sb strings.Builder
	if s, ok := v.(rel.Set); ok {
		for e := s.Enumerator(); e.MoveNext(); {
			sb.WriteString(reprOf(e.Current()))
			sb.WriteByte(' ')
		}
	}
	return sb.String()
}

func h16(s string) string {
	h := sha256.Sum256([]byte(s))
	return hex.EncodeToString(h[:8])
}

func roundsC07(tier string) int {
	if tier == "thorough" {
		return 5 // 4 rounds x 16 configurations, then the comparison round
	}
	return 2
}

func checkC07(w *core.W) {
	last := roundsC07(w.Tier) - 1
	progs := c07Programs(w)
	if w.Round < last {
		// evaluation round: this worker process IS one configuration; it evaluates every program
		cfg := "seed=" + os.Getenv("VERIF_HASH_SEED") + ",mapiter=" + os.Getenv("VERIF_MAPITER")
		w.Note("configs", cfg)
		// canaries: the unsorted enumeration order of a 12-element set and of a 12-attribute tuple literal
		if o := obs.Run("{1,2,3,4,5,6,7,8,9,10,11,12} => [., .]"); o.OK() {
			w.Note("canary_set_orders", h16(enumOrder(o.V)))
		}
		m := map[string]int{}
		for i := 0; i < 12; i++ {
			m["k"+strconv.Itoa(i)] = i
		}
		var ks []string
		for k := range m {
			ks = append(ks, k)
		}
		w.Note("canary_gomap_orders", h16(strings.Join(ks, ",")))
		w.Case(func() string { return "determinism|configuration ## all programs under " + cfg }, func() {
			for i, p := range progs {
				out := c07Output(p)
				w.Eval(p.group != "" || strings.Contains(p.src, "let "))
				w.Note("out", fmt.Sprintf("%05d|%s", i, h16(out)))
				// twice in the same process: Go map iteration differs per iteration unless the seam fixes it
				if again := c07Output(p); again != out {
					w.Fail("nondeterministic", "determinism|differs-within-one-process|"+c07Class(p), p.src, short(out)+" vs "+short(again))
				}
			}
		})
		return
	}
	// comparison round (shard 0 only: the merged notes of all configurations)
	if w.Shard != 0 {
		return
	}
	w.Case(func() string { return "determinism|compare ## outputs of all configurations" }, func() {
		nCfg := len(w.Prev["configs"])
		w.Count("configurations", int64(nCfg))
		w.Count("programs", int64(len(progs)))
		w.Count("distinct_set_enumeration_orders_seen", int64(len(w.Prev["canary_set_orders"])))
		w.Count("distinct_gomap_iteration_orders_seen", int64(len(w.Prev["canary_gomap_orders"])))
		if len(w.Prev["canary_set_orders"]) < 2 {
			w.BrokenF("vacuous: the hash-seed seam did not change the enumeration order of a 12-element set (%d configurations)", nCfg)
		}
		if len(w.Prev["canary_gomap_orders"]) < 2 && os.Getenv("VERIF_MAPITER") != "" {
			w.BrokenF("vacuous: the Go-map iteration seam did not change the iteration order of a 12-entry map")
		}
		outs := map[int]map[string]bool{}
		for _, n := range w.Prev["out"] {
			i, _ := strconv.Atoi(n[:5])
			if outs[i] == nil {
				outs[i] = map[string]bool{}
			}
			outs[i][n[6:]] = true
		}
		groups := map[string]map[string]bool{}
		groupWit := map[string][]string{}
		for i, p := range progs {
			w.Eval(true)
			if len(outs[i]) > 1 {
				w.Fail("nondeterministic", "determinism|output-depends-on-configuration|"+c07Class(p), p.src, fmt.Sprintf("%d distinct outputs over %d configurations", len(outs[i]), nCfg))
			}
			if p.group != "" && model.Taint(groupModel(p.src)) == "" {
				if groups[p.group] == nil {
					groups[p.group] = map[string]bool{}
				}
				for o := range outs[i] {
					if !groups[p.group][o] && len(groupWit[p.group]) < 3 {
						groupWit[p.group] = append(groupWit[p.group], p.src)
					}
					groups[p.group][o] = true
				}
			}
		}
		var gs []string
		for g := range groups {
			gs = append(gs, g)
		}
		sort.Strings(gs)
		for _, g := range gs {
			if len(groups[g]) > 1 {
				w.Fail("nondeterministic", "determinism|output-depends-on-literal-order|"+strings.SplitN(g, "/", 2)[0], strings.Join(groupWit[g], "  vs  "), fmt.Sprintf("%d distinct outputs", len(groups[g])))
			}
		}
		w.Sample(map[string]any{"configurations": w.Prev["configs"], "programs": len(progs)})
		w.Sample(map[string]string{"program": progs[len(progs)-1].src})
	})
}

// groupModel is only used to recognise literal collections that lie in a known-broken region.
func groupModel(src string) *model.V {
	o := obs.Run(src)
	if !o.OK() {
		return nil
	}
	m, _ := obs.Denote(o.V)
	return m
}

// Collections of the large-collection family whose members the pinned tree cannot order consistently
// (M: the empty set against tuples, strings against sets ...; SS: sets of sets). Their printed / sorted / ranked order follows
// the enumeration order (recorded findings, see C06), and WHICH of the programs over them happens to show it
// moves with every change of the binary. Like the regions of the representation space, a configuration-
// dependent output of a program over such a collection is signed by the collection, not by the program.
var c07Inconsistent = map[string]string{
	`{1, 2, 3, "a", "b", [1], [2], (a:1), (b:2), {1}, {2}, {}, (@:0,@item:1), 1\"x"}`:             "M",
	"{{1,2,3}, {4,5,6}, {7,8,9}, {1,4,7}, {2,5,8}, {3,6,9}, {1,5,9}, {3,5,7}, {}, {1}, {2}, {3}}": "SS",
}

var c07InconsistentWord = regexp.MustCompile(`\b(M|SS)\b`)

var c07TupleLit = regexp.MustCompile(`\([a-z@]+ ?:`)

func c07Class(p c07Prog) string {
	if !strings.HasPrefix(p.src, "let ") && strings.Contains(p.src, "{}") && c07TupleLit.MatchString(p.src) {
		// small literals and construction paths holding the empty set next to a tuple: the same inconsistently ordered pair
		return "inconsistently-ordered-collection:empty-set-with-tuple"
	}
	if p.group != "" {
		return "literal:" + strings.SplitN(p.group, "/", 2)[0]
	}
	if i := strings.LastIndex(p.src, "; "); i >= 0 && strings.HasPrefix(p.src, "let ") {
		if strings.HasPrefix(p.src, "let x = ") {
			if n, ok := c07Inconsistent[p.src[len("let x = "):i]]; ok {
				return "inconsistently-ordered-collection:" + n
			}
		} else if ms := c07InconsistentWord.FindAllString(p.src[i+2:], -1); len(ms) > 0 {
			seen := map[string]bool{}
			var ns []string
			for _, m := range ms {
				if !seen[m] {
					seen[m] = true
					ns = append(ns, m)
				}
			}
			sort.Strings(ns)
			return "inconsistently-ordered-collection:" + strings.Join(ns, "+")
		}
		// large-collection programs: the collection (for unary forms) and the form itself
		form := p.src[i+2:]
		if strings.HasPrefix(p.src, "let x = ") {
			coll := p.src[len("let x = "):i]
			if len(coll) > 24 {
				coll = coll[:24] + "…"
			}
			return "large:" + coll + ": " + form
		}
		return "large: " + form
	}
	return "construction-path"
}

var C07 = core.Check{
	ID: "C07", Level: "exploration", Fn: checkC07, Rounds: roundsC07, EnvFor: c07Config, Watchdog: 120 * time.Second,
	Rule:   "environment configurations are enumerated: 16 (quick: 4 hash seeds x 4 Go-map iteration keys) / 64 (thorough) worker processes, each with the seeds of arr-ai/hash and frozen's internal hash fixed from VERIF_HASH_SEED and Go map iteration offsets/seeds fixed from VERIF_MAPITER (toolchain overlay). In every configuration the whole program set is evaluated (twice): every construction path of the representation space, all literal orderings (n<=4) of sets/unions/tuples/dicts/relations of every kind with orderby/=>/rank/nest on them, and 10 collections of 10-14 elements (above frozen's leaf size, where seeds change traversal order) under 21 unary forms (incl. set, array, tuple and dict patterns applied to them), 23 relational forms (all joins, nest, rank with ties) and 26 set/tuple/dict forms incl. a dictionary key with 10 values. Every program must print identical bytes (fu.Repr or error class) in every configuration and twice within one process, and all literal orderings of one collection must print identically. non-trivial = large-collection or literal-ordering program",
	Assume: []string{"the seed space is not exhausted: the claim is for all configurations of the enumerated family; a canary fails the run as vacuous if the family does not vary the enumeration order of a 12-element set or the iteration order of a 12-entry Go map", "orderby/order with tied keys are exempt by the property and not generated", "stack-allocated Go maps keep random seeds (arr.ai iterates heap maps only; the within-process double evaluation would expose a leak)"},
}
