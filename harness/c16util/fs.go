// Package c16util holds the recording / universal-decoy filesystem and the structural
// deadlock detector used by check C16 (local imports confined, consistent, cycles fail fast).
package c16util

import (
	"errors"
	"os"
	"path"
	"path/filepath"
	"strings"
	"sync"

	"github.com/spf13/afero"
)

// Access is one observed filesystem access.
type Access struct {
	Op   string // "open" or "stat"
	Raw  string // the name exactly as the implementation passed it
	Path string // cleaned absolute path (relative names are resolved against Cwd)
}

// RecFs wraps an afero.MemMapFs and records every Open/OpenFile/Stat. In "universal decoy"
// mode every path that is not named go.mod, is not an existing directory and does not lie
// below a regular file is materialised on first access as a regular file whose content
// identifies its own absolute path, so ANY read the implementation attempts, anywhere,
// succeeds and is visible both in the log and in the imported value.
type RecFs struct {
	afero.Fs
	Cwd     string
	Decoy   bool
	mu      sync.Mutex
	Log     []Access
	planted map[string]bool

	// MaxOpens > 0 arms a fuse: once one path has been opened more than MaxOpens times
	// in the lifetime of this filesystem, Runaway is set to that path and every further
	// Open fails. It turns unbounded re-import recursion into a prompt, deterministic
	// verdict (the caller must treat Runaway != "" as a failure whatever the outcome).
	MaxOpens int
	Runaway  string
	opens    map[string]int
}

// ErrRunaway is returned by Open once the fuse has blown.
var ErrRunaway = errors.New("c16util: runaway re-import (fuse blown)")

// NewRecFs returns an empty recording filesystem. cwd is the directory relative names are
// resolved against (the worker process must really have it as working directory because
// the implementation and afero call filepath.Abs).
func NewRecFs(cwd string, decoy bool) *RecFs {
	return &RecFs{Fs: afero.NewMemMapFs(), Cwd: cwd, Decoy: decoy, planted: map[string]bool{}}
}

// Abs is the cleaned absolute form of a name under the POSIX rules the OS would apply.
func (r *RecFs) Abs(name string) string {
	if !strings.HasPrefix(name, "/") {
		name = r.Cwd + "/" + name
	}
	return path.Clean(name)
}

// Plant writes a file (parents are created).
func (r *RecFs) Plant(name, content string) {
	p := r.Abs(name)
	if err := r.Fs.MkdirAll(filepath.Dir(p), 0o755); err != nil {
		panic("c16util: mkdir " + p + ": " + err.Error())
	}
	if err := afero.WriteFile(r.Fs, p, []byte(content), 0o644); err != nil {
		panic("c16util: plant " + p + ": " + err.Error())
	}
	r.planted[p] = true
}

// MkDirs creates a directory and its parents.
func (r *RecFs) MkDirs(name string) {
	if err := r.Fs.MkdirAll(r.Abs(name), 0o755); err != nil {
		panic("c16util: mkdir " + name + ": " + err.Error())
	}
}

// DecoyContent is the content of the decoy file at absolute path p: an arr.ai string
// literal of the path for *.arrai, the bare path bytes otherwise.
func DecoyContent(p string) string {
	if filepath.Ext(p) == ".arrai" {
		return "'" + p + "'"
	}
	return p
}

func (r *RecFs) materialise(p string) {
	if !r.Decoy || path.Base(p) == "go.mod" || p == "/" {
		return
	}
	if _, err := r.Fs.Stat(p); err == nil {
		return // exists (file or directory)
	}
	// no regular file may be an ancestor
	for d := path.Dir(p); d != "/" && d != "."; d = path.Dir(d) {
		if fi, err := r.Fs.Stat(d); err == nil {
			if !fi.IsDir() {
				return
			}
			break
		}
	}
	if err := r.Fs.MkdirAll(path.Dir(p), 0o755); err != nil {
		return
	}
	_ = afero.WriteFile(r.Fs, p, []byte(DecoyContent(p)), 0o644)
}

func (r *RecFs) note(op, name string) string {
	p := r.Abs(name)
	r.mu.Lock()
	r.Log = append(r.Log, Access{Op: op, Raw: name, Path: p})
	r.materialise(p)
	r.mu.Unlock()
	return p
}

func (r *RecFs) fuse(p string) error {
	if r.MaxOpens <= 0 {
		return nil
	}
	r.mu.Lock()
	defer r.mu.Unlock()
	if r.opens == nil {
		r.opens = map[string]int{}
	}
	r.opens[p]++
	if r.Runaway == "" && r.opens[p] > r.MaxOpens {
		r.Runaway = p
	}
	if r.Runaway != "" {
		return ErrRunaway
	}
	return nil
}

func (r *RecFs) Open(name string) (afero.File, error) {
	if err := r.fuse(r.note("open", name)); err != nil {
		return nil, err
	}
	return r.Fs.Open(name)
}

func (r *RecFs) OpenFile(name string, flag int, perm os.FileMode) (afero.File, error) {
	if err := r.fuse(r.note("open", name)); err != nil {
		return nil, err
	}
	return r.Fs.OpenFile(name, flag, perm)
}

func (r *RecFs) Stat(name string) (os.FileInfo, error) {
	r.note("stat", name)
	return r.Fs.Stat(name)
}

// Snapshot returns a copy of the access log.
func (r *RecFs) Snapshot() []Access {
	r.mu.Lock()
	defer r.mu.Unlock()
	return append([]Access(nil), r.Log...)
}

// Within reports whether cleaned absolute path p is dir itself or lies below it.
func Within(p, dir string) bool {
	if dir == "/" {
		return true
	}
	return p == dir || strings.HasPrefix(p, dir+"/")
}
