package c16util

import (
	"bytes"
	"runtime"
	"runtime/debug"
	"strconv"
	"strings"
	"time"

	"verif/harness/core"
)

// Result of RunDetect.
type Result struct {
	Finished bool   // f returned (or panicked)
	PanicSig string // "panic|msg|site" if f panicked with a frame in the repo
	Harness  string // non-empty: f panicked without a repo frame (harness bug)
	Blocked  string // non-empty: proof sketch that the goroutine can never be woken
	Polls    int
}

func goid() uint64 {
	var b [64]byte
	n := runtime.Stack(b[:], false)
	f := strings.Fields(string(b[:n])) // "goroutine 12 [running]:"
	if len(f) >= 2 {
		id, _ := strconv.ParseUint(f[1], 10, 64)
		return id
	}
	return 0
}

var dumpBuf = make([]byte, 1<<20)

// goroutineDump returns the section of an all-goroutine stack dump that belongs to id.
func goroutineDump(id uint64) string {
	for {
		n := runtime.Stack(dumpBuf, true)
		if n < len(dumpBuf) {
			hdr := []byte("goroutine " + strconv.FormatUint(id, 10) + " [")
			b := dumpBuf[:n]
			i := -1
			if bytes.HasPrefix(b, hdr) {
				i = 0
			} else if j := bytes.Index(b, append([]byte("\n\n"), hdr...)); j >= 0 {
				i = j + 2
			}
			if i < 0 {
				return ""
			}
			b = b[i:]
			if j := bytes.Index(b, []byte("\n\ngoroutine ")); j >= 0 {
				b = b[:j]
			}
			return string(b)
		}
		if len(dumpBuf) >= 1<<28 {
			return ""
		}
		dumpBuf = make([]byte, 2*len(dumpBuf))
	}
}

// DebugPoll, when set, receives the stack section seen at each poll (development aid).
var DebugPoll func(section string)

const condWaitFn = "sync.(*Cond).Wait"
const getOrAddFn = "github.com/arr-ai/arrai/pkg/importcache.(*importCache).getOrAdd"

// blockedInImportCache decides, from the stack section of one goroutine, whether it is
// parked in sync.Cond.Wait called directly from importCache.getOrAdd.
func blockedInImportCache(section string) bool {
	lines := strings.Split(section, "\n")
	if len(lines) < 2 {
		return false
	}
	hdr := lines[0]
	if strings.Contains(hdr, "[running") || strings.Contains(hdr, "[runnable") {
		return false
	}
	var fns []string
	for _, l := range lines[1:] {
		if l == "" || strings.HasPrefix(l, "\t") {
			continue
		}
		if j := strings.LastIndex(l, "("); j > 0 {
			l = l[:j]
		}
		fns = append(fns, l)
	}
	for i := 0; i+1 < len(fns) && i < 4; i++ {
		if fns[i] == condWaitFn {
			return fns[i+1] == getOrAddFn
		}
	}
	return false
}

// RunDetect runs f on a fresh goroutine and returns when f has returned, or when that
// goroutine is parked in the import cache's sync.Cond.Wait. The second verdict is
// structural, not a timeout: the condition variable belongs to a cache the caller created
// for this one evaluation, it is only ever signalled from getOrAdd by a goroutine that is
// itself compiling an import for the same cache, and the evaluation owns no other
// goroutine (the arr.ai compile path starts none), so nobody can wake it. Polling only
// decides WHEN we look; a goroutine that is neither finished nor parked there is polled
// again (the engine's watchdog bounds that).
func RunDetect(f func()) (res Result) {
	idc := make(chan uint64, 1)
	done := make(chan struct{})
	var psig, pharness string
	go func() {
		defer close(done)
		defer func() {
			if r := recover(); r != nil {
				st := debug.Stack()
				msg, fn, in := core.PanicSite(r, st)
				if in {
					psig = "panic|" + msg + "|" + fn
				} else {
					pharness = msg + "\n" + string(st)
				}
			}
		}()
		idc <- goid()
		f()
	}()
	id := <-idc
	wait := 2 * time.Millisecond
	t := time.NewTimer(wait)
	defer t.Stop()
	for {
		select {
		case <-done:
			return Result{Finished: true, PanicSig: psig, Harness: pharness, Polls: res.Polls}
		case <-t.C:
		}
		res.Polls++
		if DebugPoll != nil {
			DebugPoll(goroutineDump(id))
		}
		if blockedInImportCache(goroutineDump(id)) {
			// look twice: a goroutine that was about to be woken would have moved on
			runtime.Gosched()
			select {
			case <-done:
				return Result{Finished: true, PanicSig: psig, Harness: pharness, Polls: res.Polls}
			default:
			}
			if blockedInImportCache(goroutineDump(id)) {
				res.Blocked = "goroutine parked in " + condWaitFn + " <- importCache.getOrAdd; no other goroutine compiles for this cache"
				return res
			}
		}
		if wait < 200*time.Millisecond {
			wait *= 2
		}
		t.Reset(wait)
	}
}
