// Package c20util holds the reference model and the observation helpers of check C20
// (`arrai test` passes exactly when every leaf of every test file is true).
//
// The reference model (Census) decides what a test tree IS from the value's denotation
// only: it looks at a real rel.Value exclusively through the public enumerators and the
// tuple API, never at its concrete Go type, so a container that arrives in another
// representation is still the same container for the model.
package c20util

import (
	"bytes"
	"context"
	"fmt"
	"math"
	"regexp"
	"sort"
	"strconv"
	"strings"

	"github.com/spf13/afero"

	"github.com/arr-ai/arrai/pkg/ctxfs"
	"github.com/arr-ai/arrai/pkg/ctxrootcache"
	"github.com/arr-ai/arrai/pkg/test"
	"github.com/arr-ai/arrai/rel"
	"github.com/arr-ai/arrai/syntax"

	"verif/harness/core"
	"verif/harness/model"
	"verif/harness/obs"
)

const (
	Pass    = "PASS"
	FailO   = "FAIL"
	Invalid = " ?? "
	Skip    = "SKIP"
)

// Leaf is one leaf of a test tree.
type Leaf struct {
	Path    string
	Outcome string // Pass, FailO or Invalid
	GoType  string // concrete type of the real value (used for signature classes only)
	Anc     []int  // indices into Tree.Conts, outermost first
}

// Cont is one container node of a test tree.
type Cont struct {
	Path   string
	Kind   string // tuple | array[+offset][+sparse] | dict[+multi]
	GoType string
}

func (c Cont) Class() string { return c.Kind + "-as-" + c.GoType }

type Tree struct {
	Leaves []Leaf
	Conts  []Cont
}

func (t *Tree) AllTrue() bool {
	for _, l := range t.Leaves {
		if l.Outcome != Pass {
			return false
		}
	}
	return true
}

// Depth is the largest number of containers above a leaf (or of nested containers).
func (t *Tree) MaxAnc() int {
	d := 0
	for _, l := range t.Leaves {
		if len(l.Anc) > d {
			d = len(l.Anc)
		}
	}
	return d
}

type censusErr struct{ msg string }

const maxMembers = 5000

// Census is the reference model: the leaf census of a test result tree.
//   - a tuple is a container; child path = path.name
//   - a non-empty set all of whose members are tuples with exactly the attributes @ and
//     @item, @ an integral number, no index twice, is an array; child path = path(index)
//   - a non-empty set all of whose members are tuples with exactly the attributes @ and
//     @value is a dictionary (arr.ai dictionaries may hold a key more than once);
//     child path = path(key)
//   - everything else is a leaf: {()} passes, {} fails, any other value is invalid.
func Census(v rel.Value) (t *Tree, err error) {
	defer func() {
		if r := recover(); r != nil {
			if ce, ok := r.(censusErr); ok {
				t, err = nil, fmt.Errorf("%s", ce.msg)
				return
			}
			panic(r)
		}
	}()
	t = &Tree{}
	census(t, v, "", nil, 0)
	return t, nil
}

func goType(v rel.Value) string { return fmt.Sprintf("%T", v) }

func joinName(path, name string) string {
	if path == "" {
		return name
	}
	return path + "." + name
}

type child struct {
	key string
	v   rel.Value
}

func census(t *Tree, v rel.Value, path string, anc []int, depth int) {
	if depth > 12 {
		panic(censusErr{"nesting too deep"})
	}
	leaf := func(outcome string) {
		t.Leaves = append(t.Leaves, Leaf{Path: path, Outcome: outcome, GoType: goType(v), Anc: append([]int{}, anc...)})
	}
	container := func(kind string, kids []child, step func(string) string) {
		t.Conts = append(t.Conts, Cont{Path: path, Kind: kind, GoType: goType(v)})
		a := append(append([]int{}, anc...), len(t.Conts)-1)
		for _, k := range kids {
			census(t, k.v, step(k.key), a, depth+1)
		}
	}
	switch x := v.(type) {
	case nil:
		panic(censusErr{"nil value"})
	case rel.Tuple:
		var kids []child
		for e := x.Enumerator(); e.MoveNext(); {
			n, c := e.Current()
			kids = append(kids, child{n, c})
			if len(kids) > maxMembers {
				panic(censusErr{"endless tuple"})
			}
		}
		sort.SliceStable(kids, func(i, j int) bool { return kids[i].key < kids[j].key })
		container("tuple", kids, func(k string) string { return joinName(path, k) })
		return
	case rel.Set:
		if obs.IsFunction(v) {
			leaf(Invalid)
			return
		}
		var mem []rel.Value
		for e := x.Enumerator(); e.MoveNext(); {
			mem = append(mem, e.Current())
			if len(mem) > maxMembers {
				panic(censusErr{"endless set"})
			}
		}
		if len(mem) == 0 {
			leaf(FailO)
			return
		}
		if kids, kind, ok := asArray(mem); ok {
			container(kind, kids, func(k string) string { return path + "(" + k + ")" })
			return
		}
		if kids, kind, ok := asDict(mem); ok {
			container(kind, kids, func(k string) string { return path + "(" + k + ")" })
			return
		}
		if len(mem) == 1 {
			if tu, ok := mem[0].(rel.Tuple); ok && !tu.Enumerator().MoveNext() {
				leaf(Pass)
				return
			}
		}
		leaf(Invalid)
		return
	}
	leaf(Invalid)
}

// pair returns (at, payload) when v is a tuple with exactly the attributes @ and attr.
func pair(v rel.Value, attr string) (at, payload rel.Value, ok bool) {
	tu, isT := v.(rel.Tuple)
	if !isT {
		return nil, nil, false
	}
	n := 0
	for e := tu.Enumerator(); e.MoveNext(); {
		name, c := e.Current()
		switch name {
		case "@":
			at = c
		case attr:
			payload = c
		default:
			return nil, nil, false
		}
		n++
	}
	return at, payload, n == 2 && at != nil && payload != nil
}

func asArray(mem []rel.Value) ([]child, string, bool) {
	type ik struct {
		i int
		v rel.Value
	}
	var items []ik
	seen := map[int]bool{}
	for _, m := range mem {
		at, item, ok := pair(m, "@item")
		if !ok {
			return nil, "", false
		}
		num, isNum := at.(rel.Number)
		if !isNum {
			return nil, "", false
		}
		f := num.Float64()
		if f != math.Trunc(f) || math.Abs(f) > 1e9 {
			return nil, "", false
		}
		if seen[int(f)] {
			return nil, "", false
		}
		seen[int(f)] = true
		items = append(items, ik{int(f), item})
	}
	sort.Slice(items, func(i, j int) bool { return items[i].i < items[j].i })
	kind := "array"
	if items[0].i != 0 {
		kind += "+offset"
	}
	if items[len(items)-1].i-items[0].i+1 != len(items) {
		kind += "+sparse"
	}
	kids := make([]child, len(items))
	for i, it := range items {
		kids[i] = child{strconv.Itoa(it.i), it.v}
	}
	return kids, kind, true
}

func asDict(mem []rel.Value) ([]child, string, bool) {
	var kids []child
	seen := map[string]bool{}
	multi := false
	for _, m := range mem {
		at, val, ok := pair(m, "@value")
		if !ok {
			return nil, "", false
		}
		k := keyRepr(at)
		if seen[k] {
			multi = true
		}
		seen[k] = true
		kids = append(kids, child{k, val})
	}
	sort.SliceStable(kids, func(i, j int) bool { return kids[i].key < kids[j].key })
	kind := "dict"
	if multi {
		kind += "+multi"
	}
	return kids, kind, true
}

// keyRepr is the documented spelling of a dictionary key inside a test path: numbers as
// written, strings in single quotes; other keys as arr.ai prints them.
func keyRepr(k rel.Value) string {
	m, err := obs.Denote(k)
	if err != nil {
		panic(censusErr{"dictionary key cannot be denoted: " + err.Error()})
	}
	switch {
	case m.IsNum():
		return strconv.FormatFloat(m.N, 'g', -1, 64)
	case m.IsSet() && len(m.Mem) > 0:
		var rs []rune
		for i, c := range m.Mem {
			attr, ok := model.SeqAttr(c)
			if !ok || attr != "@char" || !c.Vals[0].IsNum() || int(c.Vals[0].N) != i || !c.Vals[1].IsNum() {
				rs = nil
				break
			}
			rs = append(rs, rune(c.Vals[1].N))
		}
		if len(rs) == len(m.Mem) {
			// members are sorted by encoding, which is index order for < 10 chars
			if len(rs) >= 10 {
				panic(censusErr{"string key too long for the model"})
			}
			return "'" + string(rs) + "'"
		}
	}
	return k.String()
}

// ---- observation of the implementation ----

// RunOut is what one `arrai test` run did.
type RunOut struct {
	Err      error
	PanicSig string
	Out      string
}

// Run executes test.RunTests on an in-memory file system holding files (path -> source).
func Run(files map[string]string, target string) (ro RunOut) {
	fs := afero.NewMemMapFs()
	paths := make([]string, 0, len(files))
	for p := range files {
		paths = append(paths, p)
	}
	sort.Strings(paths)
	for _, p := range paths {
		if err := afero.WriteFile(fs, p, []byte(files[p]), 0o644); err != nil {
			panic("harness: cannot write to MemMapFs: " + err.Error())
		}
	}
	ctx := ctxrootcache.WithRootCache(ctxfs.SourceFsOnto(context.Background(), fs))
	var buf bytes.Buffer
	ro.PanicSig = core.Try(func() { ro.Err = test.RunTests(ctx, &buf, target) })
	ro.Out = buf.String()
	return ro
}

// RunValue feeds an already evaluated file value to the runner's pipeline after compilation:
// test.RunExpr (ForeachLeaf, isLiteralTrue/False) and test.Report (calcStats, report, error).
// A rel.Value is a rel.Expr that evaluates to itself, so this is exactly what runFile and
// RunTests do once the file has been compiled.
func RunValue(path string, v rel.Value) (ro RunOut) {
	var buf bytes.Buffer
	ro.PanicSig = core.Try(func() {
		results, err := test.RunExpr(context.Background(), v)
		if err != nil {
			ro.Err = err
			return
		}
		ro.Err = test.Report(&buf, []test.File{{Path: path, Results: results}})
	})
	ro.Out = buf.String()
	return ro
}

// EvalFile evaluates a test file's source the way the runner does (same compile entry
// point, empty scope), for the reference model to look at.
func EvalFile(path, src string) obs.Outcome {
	var e rel.Expr
	var err error
	if sig := core.Try(func() { e, err = syntax.Compile(context.Background(), path, src) }); sig != "" {
		return obs.Outcome{Panic: sig}
	}
	if err != nil {
		return obs.Outcome{Err: err}
	}
	return obs.Eval(e, rel.Scope{})
}

type RepLeaf struct{ Path, Outcome string }

type RepFile struct {
	Header string
	Leaves []RepLeaf
}

type Report struct {
	Files                                   []RepFile
	HasSummary                              bool
	Failed, Invalid, Ignored, Passed, Total int
}

var (
	lineRE    = regexp.MustCompile(`^\x1b\[38;5;255;\d+;1m(PASS|FAIL| \?\? |SKIP)\x1b\[0m  (.*)$`)
	headRE    = regexp.MustCompile(`^=======  (.*) \([0-9,]+ms\)$`)
	summaryRE = regexp.MustCompile(`^(?:([0-9,]+) failed, )?(?:([0-9,]+) invalid, )?(?:([0-9,]+) ignored, )?([0-9,]+) passed of ([0-9,]+) total tests\. Took [0-9,]+ms\.$`)
)

func atoi(s string) int {
	if s == "" {
		return 0
	}
	n, err := strconv.Atoi(strings.ReplaceAll(s, ",", ""))
	if err != nil {
		return -1
	}
	return n
}

// ParseReport parses the text `arrai test` wrote. Unknown lines are an error.
func ParseReport(out string) (*Report, error) {
	r := &Report{}
	lines := strings.Split(out, "\n")
	inSummary := false
	for _, l := range lines {
		switch {
		case l == "":
		case l == "=======  Summary":
			if inSummary {
				return nil, fmt.Errorf("two summaries")
			}
			inSummary = true
		case inSummary:
			m := summaryRE.FindStringSubmatch(l)
			if m == nil || r.HasSummary {
				return nil, fmt.Errorf("unexpected line after summary header: %q", l)
			}
			r.HasSummary = true
			r.Failed, r.Invalid, r.Ignored, r.Passed, r.Total = atoi(m[1]), atoi(m[2]), atoi(m[3]), atoi(m[4]), atoi(m[5])
		case strings.HasPrefix(l, "=======  "):
			m := headRE.FindStringSubmatch(l)
			if m == nil {
				return nil, fmt.Errorf("bad file header: %q", l)
			}
			r.Files = append(r.Files, RepFile{Header: m[1]})
		case strings.HasPrefix(l, "      "):
			// message of the preceding result
			if len(r.Files) == 0 || len(r.Files[len(r.Files)-1].Leaves) == 0 {
				return nil, fmt.Errorf("message without a result: %q", l)
			}
		default:
			m := lineRE.FindStringSubmatch(l)
			if m == nil || len(r.Files) == 0 {
				return nil, fmt.Errorf("unexpected line: %q", l)
			}
			f := &r.Files[len(r.Files)-1]
			f.Leaves = append(f.Leaves, RepLeaf{Path: strings.TrimRight(m[2], " "), Outcome: m[1]})
		}
	}
	return r, nil
}

// Count returns how many reported leaves have the outcome.
func (r *Report) Count(outcome string) int {
	n := 0
	for _, f := range r.Files {
		for _, l := range f.Leaves {
			if l.Outcome == outcome {
				n++
			}
		}
	}
	return n
}
