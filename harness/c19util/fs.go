// Package c19util is the test environment of check C19 (--out writer): an abstract file
// tree, and an afero.Fs that wraps afero.MemMapFs with (a) the POSIX preconditions that
// MemMapFs does not enforce, (b) a numbered log of every file-system call and (c) fault
// injection at chosen call numbers.
package c19util

import (
	"encoding/hex"
	"os"
	"path"
	"sort"
	"strings"
	"syscall"
	"time"

	"github.com/spf13/afero"
)

// Node is a file (Dir=false, Data) or a directory (Dir=true, Kids).
type Node struct {
	Dir  bool
	Data []byte
	Kids map[string]*Node
}

func NewDir() *Node          { return &Node{Dir: true, Kids: map[string]*Node{}} }
func NewFile(b []byte) *Node { return &Node{Data: append([]byte{}, b...)} }
func (n *Node) Clone() *Node {
	if n == nil {
		return nil
	}
	c := &Node{Dir: n.Dir, Data: append([]byte(nil), n.Data...)}
	if n.Dir {
		c.Kids = map[string]*Node{}
		for k, v := range n.Kids {
			c.Kids[k] = v.Clone()
		}
	}
	return c
}

// Lookup follows an absolute slash path from the root node.
func (n *Node) Lookup(p string) *Node {
	cur := n
	for _, part := range strings.Split(strings.Trim(path.Clean(p), "/"), "/") {
		if part == "" {
			continue
		}
		if cur == nil || !cur.Dir {
			return nil
		}
		cur = cur.Kids[part]
	}
	return cur
}

// Lines renders the tree canonically: one line per node, sorted.
func (n *Node) Lines() []string {
	var out []string
	var rec func(p string, x *Node)
	rec = func(p string, x *Node) {
		if x.Dir {
			out = append(out, p+" D")
			names := make([]string, 0, len(x.Kids))
			for k := range x.Kids {
				names = append(names, k)
			}
			sort.Strings(names)
			for _, k := range names {
				rec(strings.TrimSuffix(p, "/")+"/"+k, x.Kids[k])
			}
		} else {
			out = append(out, p+" F "+hex.EncodeToString(x.Data))
		}
	}
	rec("/", n)
	return out
}

func (n *Node) String() string { return strings.Join(n.Lines(), "\n") }

// Materialise writes the tree into a fresh MemMapFs.
func Materialise(root *Node) afero.Fs {
	fs := afero.NewMemMapFs()
	var rec func(p string, x *Node)
	rec = func(p string, x *Node) {
		if x.Dir {
			if p != "/" {
				if err := fs.Mkdir(p, 0o755); err != nil {
					panic("c19util: materialise mkdir: " + err.Error())
				}
			}
			names := make([]string, 0, len(x.Kids))
			for k := range x.Kids {
				names = append(names, k)
			}
			sort.Strings(names)
			for _, k := range names {
				rec(strings.TrimSuffix(p, "/")+"/"+k, x.Kids[k])
			}
			return
		}
		if err := afero.WriteFile(fs, p, x.Data, 0o644); err != nil {
			panic("c19util: materialise write: " + err.Error())
		}
	}
	rec("/", root)
	return fs
}

// Snapshot reads the whole visible tree of fs (through Readdir from the root).
func Snapshot(fs afero.Fs) *Node {
	var rec func(p string) *Node
	rec = func(p string) *Node {
		fi, err := fs.Stat(p)
		if err != nil {
			panic("c19util: snapshot stat " + p + ": " + err.Error())
		}
		if !fi.IsDir() {
			b, err := afero.ReadFile(fs, p)
			if err != nil {
				panic("c19util: snapshot read " + p + ": " + err.Error())
			}
			return NewFile(b)
		}
		n := NewDir()
		infos, err := afero.ReadDir(fs, p)
		if err != nil {
			panic("c19util: snapshot readdir " + p + ": " + err.Error())
		}
		for _, i := range infos {
			n.Kids[i.Name()] = rec(strings.TrimSuffix(p, "/") + "/" + i.Name())
		}
		return n
	}
	return rec("/")
}

// Op is one logged file-system call.
type Op struct {
	Kind string // Stat Mkdir Create RemoveAll Write Sync Close ... (method name)
	Path string
}

// FS is the observed file system handed to the implementation.
type FS struct {
	Mem      afero.Fs
	Ops      []Op
	FailAt   map[int]bool // 1-based call numbers that fail with EIO
	Fired    []int        // which of them were reached
	ReadOnly bool         // every mutating call fails with EROFS
}

func NewFS(mem afero.Fs) *FS { return &FS{Mem: mem, FailAt: map[int]bool{}} }

func pe(op, p string, errno syscall.Errno) error { return &os.PathError{Op: op, Path: p, Err: errno} }

// step logs a call and decides whether a fault is injected into it.
func (f *FS) step(kind, p string, mutating bool) error {
	f.Ops = append(f.Ops, Op{kind, p})
	n := len(f.Ops)
	if f.FailAt[n] {
		f.Fired = append(f.Fired, n)
		return pe(strings.ToLower(kind), p, syscall.EIO)
	}
	if mutating && f.ReadOnly {
		return pe(strings.ToLower(kind), p, syscall.EROFS)
	}
	return nil
}

// ancestors checks that every proper ancestor of p exists and is a directory (what a real
// kernel does during path resolution and MemMapFs does not).
func (f *FS) ancestors(op, p string) error {
	p = path.Clean(p)
	parts := strings.Split(strings.Trim(p, "/"), "/")
	cur := "/"
	for i := 0; i+1 < len(parts); i++ {
		cur = path.Join(cur, parts[i])
		fi, err := f.Mem.Stat(cur)
		if err != nil {
			return pe(op, p, syscall.ENOENT)
		}
		if !fi.IsDir() {
			return pe(op, p, syscall.ENOTDIR)
		}
	}
	return nil
}

func abs(p string) string {
	if !strings.HasPrefix(p, "/") {
		panic("c19util: relative path reached the file system: " + p)
	}
	return path.Clean(p)
}

func (f *FS) Name() string { return "c19fs" }

func (f *FS) Stat(name string) (os.FileInfo, error) {
	if err := f.step("Stat", name, false); err != nil {
		return nil, err
	}
	p := abs(name)
	if err := f.ancestors("stat", p); err != nil {
		return nil, err
	}
	fi, err := f.Mem.Stat(p)
	if err != nil {
		return nil, pe("stat", p, syscall.ENOENT)
	}
	return fi, nil
}

func (f *FS) Mkdir(name string, perm os.FileMode) error {
	if err := f.step("Mkdir", name, true); err != nil {
		return err
	}
	p := abs(name)
	if err := f.ancestors("mkdir", p); err != nil {
		return err
	}
	if _, err := f.Mem.Stat(p); err == nil {
		return pe("mkdir", p, syscall.EEXIST)
	}
	return f.Mem.Mkdir(p, perm)
}

func (f *FS) MkdirAll(name string, perm os.FileMode) error {
	if err := f.step("MkdirAll", name, true); err != nil {
		return err
	}
	p := abs(name)
	parts := strings.Split(strings.Trim(p, "/"), "/")
	cur := "/"
	for _, part := range parts {
		cur = path.Join(cur, part)
		fi, err := f.Mem.Stat(cur)
		if err != nil {
			if err := f.Mem.Mkdir(cur, perm); err != nil {
				return err
			}
			continue
		}
		if !fi.IsDir() {
			return pe("mkdir", cur, syscall.ENOTDIR)
		}
	}
	return nil
}

func (f *FS) Create(name string) (afero.File, error) {
	if err := f.step("Create", name, true); err != nil {
		return nil, err
	}
	p := abs(name)
	if err := f.ancestors("open", p); err != nil {
		return nil, err
	}
	if fi, err := f.Mem.Stat(p); err == nil && fi.IsDir() {
		return nil, pe("open", p, syscall.EISDIR)
	}
	h, err := f.Mem.Create(p)
	if err != nil {
		return nil, err
	}
	return &File{File: h, fs: f, path: p}, nil
}

func (f *FS) Open(name string) (afero.File, error) {
	if err := f.step("Open", name, false); err != nil {
		return nil, err
	}
	p := abs(name)
	if err := f.ancestors("open", p); err != nil {
		return nil, err
	}
	h, err := f.Mem.Open(p)
	if err != nil {
		return nil, pe("open", p, syscall.ENOENT)
	}
	return &File{File: h, fs: f, path: p}, nil
}

func (f *FS) OpenFile(name string, flag int, perm os.FileMode) (afero.File, error) {
	mut := flag&(os.O_WRONLY|os.O_RDWR|os.O_CREATE|os.O_TRUNC|os.O_APPEND) != 0
	if err := f.step("OpenFile", name, mut); err != nil {
		return nil, err
	}
	p := abs(name)
	if err := f.ancestors("open", p); err != nil {
		return nil, err
	}
	if fi, err := f.Mem.Stat(p); err == nil && fi.IsDir() && mut {
		return nil, pe("open", p, syscall.EISDIR)
	}
	h, err := f.Mem.OpenFile(p, flag, perm)
	if err != nil {
		return nil, err
	}
	return &File{File: h, fs: f, path: p}, nil
}

func (f *FS) Remove(name string) error {
	if err := f.step("Remove", name, true); err != nil {
		return err
	}
	p := abs(name)
	if err := f.ancestors("remove", p); err != nil {
		return err
	}
	fi, err := f.Mem.Stat(p)
	if err != nil {
		return pe("remove", p, syscall.ENOENT)
	}
	if fi.IsDir() {
		if l, _ := afero.ReadDir(f.Mem, p); len(l) > 0 {
			return pe("remove", p, syscall.ENOTEMPTY)
		}
	}
	return f.Mem.Remove(p)
}

func (f *FS) RemoveAll(name string) error {
	if err := f.step("RemoveAll", name, true); err != nil {
		return err
	}
	p := abs(name)
	if p == "/" {
		return pe("removeall", p, syscall.EBUSY)
	}
	if err := f.ancestors("removeall", p); err != nil {
		if err.(*os.PathError).Err == syscall.ENOENT {
			return nil
		}
		return err
	}
	if _, err := f.Mem.Stat(p); err != nil {
		return nil
	}
	return f.removeTree(p)
}

// removeTree deletes bottom-up with Remove (MemMapFs.RemoveAll deletes by string prefix).
func (f *FS) removeTree(p string) error {
	fi, err := f.Mem.Stat(p)
	if err != nil {
		return nil
	}
	if fi.IsDir() {
		l, err := afero.ReadDir(f.Mem, p)
		if err != nil {
			return err
		}
		for _, i := range l {
			if err := f.removeTree(path.Join(p, i.Name())); err != nil {
				return err
			}
		}
	}
	return f.Mem.Remove(p)
}

func (f *FS) Rename(oldname, newname string) error {
	if err := f.step("Rename", oldname, true); err != nil {
		return err
	}
	o, n := abs(oldname), abs(newname)
	if err := f.ancestors("rename", o); err != nil {
		return err
	}
	if err := f.ancestors("rename", n); err != nil {
		return err
	}
	return f.Mem.Rename(o, n)
}

func (f *FS) Chmod(name string, mode os.FileMode) error {
	if err := f.step("Chmod", name, true); err != nil {
		return err
	}
	return f.Mem.Chmod(abs(name), mode)
}

func (f *FS) Chtimes(name string, atime, mtime time.Time) error {
	if err := f.step("Chtimes", name, true); err != nil {
		return err
	}
	return f.Mem.Chtimes(abs(name), atime, mtime)
}

// File wraps an open file so that Write/Sync/Close are logged calls too.
type File struct {
	afero.File
	fs     *FS
	path   string
	closed bool
}

func (h *File) Write(b []byte) (int, error) {
	if err := h.fs.step("Write", h.path, true); err != nil {
		return 0, err
	}
	return h.File.Write(b)
}

func (h *File) WriteString(s string) (int, error) {
	if err := h.fs.step("Write", h.path, true); err != nil {
		return 0, err
	}
	return h.File.WriteString(s)
}

func (h *File) WriteAt(b []byte, off int64) (int, error) {
	if err := h.fs.step("Write", h.path, true); err != nil {
		return 0, err
	}
	return h.File.WriteAt(b, off)
}

func (h *File) Truncate(n int64) error {
	if err := h.fs.step("Truncate", h.path, true); err != nil {
		return err
	}
	return h.File.Truncate(n)
}

func (h *File) Sync() error {
	if err := h.fs.step("Sync", h.path, false); err != nil {
		return err
	}
	return h.File.Sync()
}

func (h *File) Close() error {
	// the handle is released in any case; an injected fault only makes Close report EIO
	err := h.fs.step("Close", h.path, false)
	h.closed = true
	if e2 := h.File.Close(); err == nil {
		err = e2
	}
	return err
}

var _ afero.Fs = (*FS)(nil)
