// Package c15util holds the helpers of check C15 (bundle ≡ sources): a recording file
// system that behaves like the OS file system over an in-memory tree, the layout
// enumeration, and the reference model of import resolution.
package c15util

import (
	"net/http"
	"os"
	"path/filepath"
	"sort"
	"sync"
	"time"

	"github.com/spf13/afero"
)

// Op is one recorded file-system operation.
type Op struct {
	Kind string // open, stat, create, mkdir, remove, rename, chmod
	Path string // absolute, clean
	OK   bool
}

// RecFs wraps an in-memory afero.Fs. It records every operation and resolves relative
// names against the process working directory, exactly like afero.OsFs would: arr.ai
// calls filepath.Abs (which consults the OS) in some places and hands relative names to
// the file system in others, and both must agree for the emulation to be faithful.
type RecFs struct {
	Inner afero.Fs
	mu    sync.Mutex
	log   []Op
}

func NewRecFs(inner afero.Fs) *RecFs { return &RecFs{Inner: inner} }

func (r *RecFs) abs(name string) (string, error) {
	if name == "" {
		return "", &os.PathError{Op: "open", Path: name, Err: os.ErrNotExist}
	}
	if filepath.IsAbs(name) {
		return filepath.Clean(name), nil
	}
	wd, err := os.Getwd()
	if err != nil {
		return "", err
	}
	return filepath.Join(wd, name), nil
}

func (r *RecFs) rec(kind, p string, err error) {
	r.mu.Lock()
	r.log = append(r.log, Op{kind, p, err == nil})
	r.mu.Unlock()
}

// Reset clears the log.
func (r *RecFs) Reset() {
	r.mu.Lock()
	r.log = nil
	r.mu.Unlock()
}

// Ops returns a copy of the log.
func (r *RecFs) Ops() []Op {
	r.mu.Lock()
	defer r.mu.Unlock()
	return append([]Op(nil), r.log...)
}

// Opened returns the sorted distinct paths of regular files opened successfully.
func (r *RecFs) Opened() []string {
	seen := map[string]bool{}
	for _, o := range r.Ops() {
		if o.Kind == "open" && o.OK {
			if fi, err := r.Inner.Stat(o.Path); err == nil && !fi.IsDir() {
				seen[o.Path] = true
			}
		}
	}
	out := make([]string, 0, len(seen))
	for p := range seen {
		out = append(out, p)
	}
	sort.Strings(out)
	return out
}

func (r *RecFs) Create(name string) (afero.File, error) {
	p, err := r.abs(name)
	if err != nil {
		return nil, err
	}
	f, err := r.Inner.Create(p)
	r.rec("create", p, err)
	return f, err
}

func (r *RecFs) Mkdir(name string, perm os.FileMode) error {
	p, err := r.abs(name)
	if err != nil {
		return err
	}
	err = r.Inner.Mkdir(p, perm)
	r.rec("mkdir", p, err)
	return err
}

func (r *RecFs) MkdirAll(name string, perm os.FileMode) error {
	p, err := r.abs(name)
	if err != nil {
		return err
	}
	err = r.Inner.MkdirAll(p, perm)
	r.rec("mkdir", p, err)
	return err
}

func (r *RecFs) Open(name string) (afero.File, error) {
	p, err := r.abs(name)
	if err != nil {
		return nil, err
	}
	f, err := r.Inner.Open(p)
	r.rec("open", p, err)
	return f, err
}

func (r *RecFs) OpenFile(name string, flag int, perm os.FileMode) (afero.File, error) {
	p, err := r.abs(name)
	if err != nil {
		return nil, err
	}
	f, err := r.Inner.OpenFile(p, flag, perm)
	kind := "open"
	if flag&(os.O_WRONLY|os.O_RDWR|os.O_CREATE|os.O_TRUNC|os.O_APPEND) != 0 {
		kind = "create"
	}
	r.rec(kind, p, err)
	return f, err
}

func (r *RecFs) Remove(name string) error {
	p, err := r.abs(name)
	if err != nil {
		return err
	}
	err = r.Inner.Remove(p)
	r.rec("remove", p, err)
	return err
}

func (r *RecFs) RemoveAll(name string) error {
	p, err := r.abs(name)
	if err != nil {
		return err
	}
	err = r.Inner.RemoveAll(p)
	r.rec("remove", p, err)
	return err
}

func (r *RecFs) Rename(o, n string) error {
	po, err := r.abs(o)
	if err != nil {
		return err
	}
	pn, err := r.abs(n)
	if err != nil {
		return err
	}
	err = r.Inner.Rename(po, pn)
	r.rec("rename", po, err)
	return err
}

func (r *RecFs) Stat(name string) (os.FileInfo, error) {
	p, err := r.abs(name)
	if err != nil {
		return nil, err
	}
	fi, err := r.Inner.Stat(p)
	r.rec("stat", p, err)
	return fi, err
}

func (r *RecFs) Name() string { return "c15-recording-fs" }

func (r *RecFs) Chmod(name string, mode os.FileMode) error {
	p, err := r.abs(name)
	if err != nil {
		return err
	}
	err = r.Inner.Chmod(p, mode)
	r.rec("chmod", p, err)
	return err
}

func (r *RecFs) Chtimes(name string, a, m time.Time) error {
	p, err := r.abs(name)
	if err != nil {
		return err
	}
	err = r.Inner.Chtimes(p, a, m)
	r.rec("chmod", p, err)
	return err
}

// NetGuard is an http.RoundTripper that refuses and records every request: layouts made
// of local imports must never attempt the network.
type NetGuard struct {
	mu   sync.Mutex
	URLs []string
}

func (g *NetGuard) RoundTrip(req *http.Request) (*http.Response, error) {
	g.mu.Lock()
	g.URLs = append(g.URLs, req.URL.String())
	g.mu.Unlock()
	return nil, &os.PathError{Op: "http", Path: req.URL.String(), Err: os.ErrPermission}
}

// Take returns and clears the recorded URLs.
func (g *NetGuard) Take() []string {
	g.mu.Lock()
	defer g.mu.Unlock()
	u := g.URLs
	g.URLs = nil
	return u
}
