package c15util

import (
	"fmt"
	"path"
	"sort"
	"strings"

	"verif/harness/model"
)

// Import forms.
const (
	Rel  = 'r' // //{./p}  relative to the importing file's directory
	Root = 'R' // //{/p}   relative to the nearest ancestor directory holding go.mod
)

// Imp is one import statement in a node file.
type Imp struct {
	Form   byte
	Sub    string // directory of the target relative to the resolution base ("" = the base)
	Name   string // x (node), y, f, bad, nope (no such file), d.json, d.yaml
	Ext    bool   // spell the .arrai extension explicitly
	Detour bool   // spell the path with a lexical zz/../ detour
	Dec    bool   // explicit decoder //[//encoding.json]{…}
}

func (i Imp) fileName() string {
	if path.Ext(i.Name) == "" {
		return i.Name + ".arrai"
	}
	return i.Name
}

// Src renders the import expression.
func (i Imp) Src() string {
	n := i.Name
	if i.Ext {
		n += ".arrai"
	}
	p := path.Join(i.Sub, n)
	if i.Detour {
		p = "zz/../" + p
	}
	s := "{/" + p + "}"
	if i.Form == Rel {
		s = "{./" + p + "}"
	}
	if i.Dec {
		s = "//[//encoding.json]" + s
	} else {
		s = "//" + s
	}
	if i.Name == "f" {
		s += "(7)"
	}
	return s
}

// GoModNames names the go.mod content variants.
var GoModNames = []string{"plain", "with-go-directive", "no-trailing-newline", "leading-comment", "empty", "crlf"}

func goModContent(variant int, mod string) string {
	switch variant {
	case 1:
		return "module " + mod + "\n\ngo 1.13\n"
	case 2:
		return "module " + mod
	case 3:
		return "// header comment\nmodule " + mod + "\n"
	case 4:
		return ""
	case 5:
		return "module " + mod + "\r\n"
	}
	return "module " + mod + "\n"
}

// moduleName deliberately does NOT follow the natural parent/dir naming of nested Go
// modules, so that a sentinel or file filed under the wrong module name cannot land on
// the right archive path by accident.
func moduleName(dir string) string {
	switch dir {
	case "":
		return "m.io/r"
	case "a":
		return "n.io/q"
	case "a b":
		return "o.io/s"
	case "a/b":
		return "p.io/t"
	}
	var sb strings.Builder
	for _, c := range []byte(dir) {
		if c >= 'a' && c <= 'z' || c >= '0' && c <= '9' {
			sb.WriteByte(c)
		} else {
			sb.WriteByte('_')
		}
	}
	return "q.io/" + sb.String()
}

// Layout is one source tree: every directory of Dirs holds x.arrai (a node ["<path>", imports…]
// whose imports are given by Bodies), y.arrai (leaf), f.arrai (function), bad.arrai
// (fails when evaluated), d.json and d.yaml; Main additionally holds main.arrai; go.mod
// sits in the directories of Sent. All paths are relative to the tree root.
type Layout struct {
	Fam    string
	Dirs   []string
	Sent   []string
	GoMod  int
	Main   string
	Bodies map[string][]Imp // key = node file without extension, e.g. "a/x", "a/main"
	Tag    string           // extra input-class tag (family F5: the kind of exotic directory name)
}

func (l *Layout) MainKey() string  { return path.Join(l.Main, "main") }
func (l *Layout) MainFile() string { return path.Join(l.Main, "main.arrai") }

func (l *Layout) hasSent(d string) bool {
	for _, s := range l.Sent {
		if s == d {
			return true
		}
	}
	return false
}

// RootOf is the documented rule: the nearest ancestor-or-self directory holding go.mod.
func (l *Layout) RootOf(dir string) (string, bool) {
	for {
		if l.hasSent(dir) {
			return dir, true
		}
		if dir == "" {
			return "", false
		}
		dir = path.Dir(dir)
		if dir == "." {
			dir = ""
		}
	}
}

// ident is the identity string a file carries in its content: its path with every byte
// outside [A-Za-z0-9 /._-] replaced by '_' (so that the content itself never depends on
// how arr.ai parses string escapes).
func ident(key string) string {
	b := []byte(key)
	for i, c := range b {
		switch {
		case c >= 'a' && c <= 'z', c >= 'A' && c <= 'Z', c >= '0' && c <= '9', strings.IndexByte(" /._-", c) >= 0:
		default:
			b[i] = '_'
		}
	}
	return string(b)
}

func nodeBody(key string, imps []Imp) string {
	parts := make([]string, len(imps))
	for i, im := range imps {
		parts[i] = im.Src()
	}
	return "[" + strings.Join(append([]string{fmt.Sprintf("%q", ident(key))}, parts...), ", ") + "]"
}

// Files renders the whole tree: relative path -> content.
func (l *Layout) Files() map[string]string {
	m := map[string]string{}
	for _, d := range l.Dirs {
		k := func(n string) string { return path.Join(d, n) }
		m[k("x.arrai")] = nodeBody(k("x"), l.Bodies[k("x")])
		m[k("y.arrai")] = fmt.Sprintf("%q", ident(k("y")))
		m[k("f.arrai")] = fmt.Sprintf("\\z [%q, z]", ident(k("f")))
		m[k("bad.arrai")] = fmt.Sprintf("(at: %q).nope", ident(k("bad")))
		m[k("d.json")] = fmt.Sprintf("{\"at\": %q}", ident(k("d.json")))
		m[k("d.yaml")] = fmt.Sprintf("at: %q\n", ident(k("d.yaml")))
		m[k("e.txt")] = "" // a zero-length data file: imports as empty bytes, i.e. the empty set
	}
	m[l.MainFile()] = nodeBody(l.MainKey(), l.Bodies[l.MainKey()])
	for _, s := range l.Sent {
		m[path.Join(s, "go.mod")] = goModContent(l.GoMod, moduleName(s))
	}
	return m
}

// String is the human-readable witness: sentinels and the node files that matter.
func (l *Layout) String() string {
	var sb strings.Builder
	sent := make([]string, len(l.Sent))
	for i, s := range l.Sent {
		sent[i] = "/" + s
	}
	fmt.Fprintf(&sb, "go.mod@{%s}", strings.Join(sent, ","))
	if l.GoMod != 0 {
		fmt.Fprintf(&sb, "[%s]", GoModNames[l.GoMod])
	}
	keys := make([]string, 0, len(l.Bodies))
	for k := range l.Bodies {
		if k != l.MainKey() {
			keys = append(keys, k)
		}
	}
	sort.Strings(keys)
	fmt.Fprintf(&sb, " %s.arrai=`%s`", l.MainKey(), nodeBody(l.MainKey(), l.Bodies[l.MainKey()]))
	for _, k := range keys {
		fmt.Fprintf(&sb, " %s.arrai=`%s`", k, nodeBody(k, l.Bodies[k]))
	}
	return sb.String()
}

// ---------------------------------------------------------------- reference model

// Want is what the documented semantics prescribe for a layout.
type Want struct {
	V         *model.V
	Fail      string   // "" | root-not-found | not-exist:<file> | eval:missing-attr
	Compile   bool     // the failure happens while compiling (so bundling must fail too)
	Reads     []string // files read through imports (relative paths, sorted, distinct)
	Sentinels []string // directories whose go.mod a root import resolved against
	MainMod   bool     // main.arrai has a module root
	Nested    bool     // a root import resolved against a sentinel other than main's root
	Resolved  int      // number of import statements that resolve to an existing file
}

// Class is the input class used in failure signatures.
func (l *Layout) Class(w *Want) string {
	c := "main:nomod"
	if w.MainMod {
		c = "main:mod"
	}
	if w.Nested {
		c += "+nested-root"
	}
	if l.GoMod != 0 {
		c += "+gomod:" + GoModNames[l.GoMod]
	}
	if l.Tag != "" {
		c += "+" + l.Tag
	}
	return c
}

type mstate struct {
	reads map[string]bool
	sents map[string]bool
	w     *Want
	files map[string]string
	root  string
	depth int
}

func (l *Layout) resolve(dir string, im Imp, st *mstate) (tdir, rel, fail string) {
	base := dir
	if im.Form == Root {
		r, ok := l.RootOf(dir)
		if !ok {
			return "", "", "root-not-found"
		}
		base = r
		if st != nil {
			st.sents[r] = true
			if !st.w.MainMod || r != st.root {
				st.w.Nested = true
			}
		}
	}
	tdir = path.Join(base, im.Sub)
	if tdir == "." {
		tdir = ""
	}
	return tdir, path.Join(tdir, im.fileName()), ""
}

func (l *Layout) compile(key, dir string, st *mstate) string {
	st.depth++
	defer func() { st.depth-- }()
	if st.depth > 16 {
		panic("c15util: import cycle in generated layout " + l.String())
	}
	for _, im := range l.Bodies[key] {
		tdir, rel, fail := l.resolve(dir, im, st)
		if fail != "" {
			return fail
		}
		if _, ok := st.files[rel]; !ok {
			return "not-exist:" + path.Base(rel)
		}
		st.reads[rel] = true
		st.w.Resolved++
		if im.Name == "x" {
			if f := l.compile(path.Join(tdir, "x"), tdir, st); f != "" {
				return f
			}
		}
	}
	return ""
}

func (l *Layout) value(key, dir string) (*model.V, string) {
	items := []*model.V{}
	for _, im := range l.Bodies[key] {
		tdir, rel, _ := l.resolve(dir, im, nil)
		k := path.Join(tdir, im.Name)
		var v *model.V
		switch im.Name {
		case "x":
			var f string
			if v, f = l.value(k, tdir); f != "" {
				return nil, f
			}
		case "y":
			v = model.Str(ident(k), 0)
		case "f":
			v = model.Arr(0, model.Str(ident(k), 0), model.Num(7))
		case "bad":
			return nil, "eval:missing-attr"
		case "e.txt":
			v = model.Set()
		default: // d.json, d.yaml: a one-entry dictionary; imported data decodes strictly, strings are (s: …)
			v = model.Set(model.DictEntry(model.Str("at", 0), model.Tup("s", model.Str(ident(rel), 0))))
		}
		items = append(items, v)
	}
	return model.Arr(0, append([]*model.V{model.Str(ident(key), 0)}, items...)...), ""
}

// Model evaluates the layout by the documented rules.
func (l *Layout) Model() *Want {
	w := &Want{}
	st := &mstate{reads: map[string]bool{}, sents: map[string]bool{}, w: w, files: l.Files()}
	st.root, w.MainMod = l.RootOf(l.Main)
	if f := l.compile(l.MainKey(), l.Main, st); f != "" {
		w.Fail, w.Compile = f, true
	} else {
		w.V, w.Fail = l.value(l.MainKey(), l.Main)
	}
	for r := range st.reads {
		w.Reads = append(w.Reads, r)
	}
	sort.Strings(w.Reads)
	for s := range st.sents {
		w.Sentinels = append(w.Sentinels, s)
	}
	sort.Strings(w.Sentinels)
	return w
}

// ---------------------------------------------------------------- enumeration

type edge struct {
	form byte
	sub  string
	to   string
}

func under(t, s string) bool { return s == "" || t == s || strings.HasPrefix(t, s+"/") }

func relTo(s, t string) string {
	switch {
	case t == s:
		return ""
	case s == "":
		return t
	}
	return t[len(s)+1:]
}

// edges lists every way a file in directory src can name a file in a directory of the
// universe: relative (target at or below src) and root-relative (target at or below the
// module root of src).
func (l *Layout) edges(src string) []edge {
	var out []edge
	for _, t := range l.Dirs {
		if under(t, src) {
			out = append(out, edge{Rel, relTo(src, t), t})
		}
	}
	if r, ok := l.RootOf(src); ok {
		for _, t := range l.Dirs {
			if under(t, r) {
				out = append(out, edge{Root, relTo(r, t), t})
			}
		}
	}
	return out
}

func subsets(items []string) [][]string {
	out := [][]string{}
	for m := 0; m < 1<<len(items); m++ {
		s := []string{}
		for i, it := range items {
			if m&(1<<i) != 0 {
				s = append(s, it)
			}
		}
		out = append(out, s)
	}
	return out
}

// Space describes the bounds of a tier.
type Space struct {
	Dirs     []string
	SentDirs []string
	F1       []Imp // target variants of the single import (Form/Sub filled per edge)
	F2Leaf   []Imp
	F2First  []Imp // spellings of the first hop (target x)
	F4Leaf   []Imp
	Exotic   []Exotic
}

// Exotic is a directory name with characters that Go's %q (used to write config.arrai)
// and arr.ai's string syntax (used to read it back) may treat differently.
type Exotic struct{ Kind, Dir string }

// Exotics is the alphabet of family F5.
var Exotics = []Exotic{
	{"latin-e-acute", "caf\u00e9"},
	{"cjk", "\u65e5\u672c"},
	{"double-quote", "q\"t"},
	{"single-quote", "a'b"},
	{"backslash", "b\\s"},
	{"tab", "t\tb"},
	{"nbsp", "n\u00a0b"},
	{"zero-width-space", "z\u200bw"},
	{"control-char", "c\x01d"},
	{"latin1-byte", "l\xe9x"},
}

// AllDirs lists every directory that must exist on disk for the tier.
func (sp Space) AllDirs() []string {
	out := append([]string{}, sp.Dirs...)
	for _, e := range sp.Exotic {
		out = append(out, e.Dir)
	}
	return out
}

func SpaceOf(thorough bool) Space {
	sp := Space{
		Dirs:     []string{"", "a", "a b", "a/b"},
		SentDirs: []string{"", "a", "a/b"},
		F1: []Imp{{Name: "x"}, {Name: "x", Ext: true}, {Name: "x", Detour: true}, {Name: "y"}, {Name: "f"}, {Name: "bad"},
			{Name: "d.json"}, {Name: "d.json", Dec: true}, {Name: "d.yaml"}, {Name: "e.txt"}, {Name: "nope"}},
		F2Leaf:  []Imp{{Name: "y"}, {Name: "d.json"}, {Name: "f"}, {Name: "e.txt"}, {Name: "nope"}},
		F2First: []Imp{{Name: "x"}},
		F4Leaf:  []Imp{{Name: "y"}},
		Exotic:  Exotics,
	}
	if thorough {
		sp.Dirs = []string{"", "a", "a b", "a/b", "a/a b"}
		sp.SentDirs = []string{"", "a", "a b", "a/b"}
		sp.F1 = append(sp.F1, Imp{Name: "y", Ext: true, Detour: true}, Imp{Name: "d.yaml", Detour: true}, Imp{Name: "f", Ext: true})
		sp.F2Leaf = append(sp.F2Leaf, Imp{Name: "bad"}, Imp{Name: "d.yaml"}, Imp{Name: "d.json", Dec: true})
		sp.F4Leaf = []Imp{{Name: "y"}, {Name: "nope"}}
	}
	return sp
}

func with(e edge, v Imp) Imp {
	v.Form, v.Sub = e.form, e.sub
	return v
}

// Enumerate lists every layout of the tier, family by family, in a fixed order.
func Enumerate(thorough bool) []*Layout {
	sp := SpaceOf(thorough)
	var out []*Layout
	mk := func(fam string, sent []string, main string, gomod int) *Layout {
		return &Layout{Fam: fam, Dirs: sp.Dirs, Sent: sent, Main: main, GoMod: gomod, Bodies: map[string][]Imp{}}
	}
	// F0: go.mod content variants (single sentinel at or above main)
	for _, main := range sp.Dirs {
		for _, s := range []string{"", "a"} {
			if !under(main, s) {
				continue
			}
			for v := 1; v < len(GoModNames); v++ {
				for b := 0; b < 3; b++ {
					l := mk("F0", []string{s}, main, v)
					switch b {
					case 1:
						l.Bodies[l.MainKey()] = []Imp{{Form: Root, Name: "x"}}
					case 2:
						l.Bodies[l.MainKey()] = []Imp{{Form: Rel, Name: "y"}}
					}
					out = append(out, l)
				}
			}
		}
	}
	// F5: exotic directory names (main inside one, or importing into one), without module, with the
	// module root at the tree root, and with the module root in the exotic directory itself
	for _, e := range sp.Exotic {
		for _, sent := range [][]string{{}, {""}, {e.Dir}} {
			for _, main := range []string{e.Dir, ""} {
				bodies := [][]Imp{}
				if main == e.Dir {
					bodies = append(bodies, nil, []Imp{{Form: Rel, Name: "y"}})
				} else {
					bodies = append(bodies, []Imp{{Form: Rel, Sub: e.Dir, Name: "y"}}, []Imp{{Form: Rel, Sub: e.Dir, Name: "x"}})
				}
				for bi, b := range bodies {
					if main == "" && bi == 1 && len(sent) == 1 && sent[0] == e.Dir {
						continue // module-less main reaching a nested module root: families F2-F4 cover it
					}
					l := mk("F5", sent, main, 0)
					l.Dirs = []string{"", "a b", e.Dir}
					l.Tag = "dir:" + e.Kind
					l.Bodies[l.MainKey()] = b
					if r, ok := l.RootOf(e.Dir); ok && bi == 1 {
						// second hop / second import through the module root
						im := Imp{Form: Root, Sub: relTo(r, e.Dir), Name: "y"}
						if main == e.Dir {
							l.Bodies[l.MainKey()] = append(l.Bodies[l.MainKey()], im)
						} else {
							l.Bodies[path.Join(e.Dir, "x")] = []Imp{im}
						}
					}
					out = append(out, l)
				}
			}
		}
	}
	for _, sent := range subsets(sp.SentDirs) {
		for _, main := range sp.Dirs {
			base := mk("", sent, main, 0)
			mainEdges := base.edges(main)
			_, mainHasRoot := base.RootOf(main)
			// F1: exactly one import, every form x target directory x target kind/spelling
			for _, e := range mainEdges {
				for _, v := range sp.F1 {
					l := mk("F1", sent, main, 0)
					l.Bodies[l.MainKey()] = []Imp{with(e, v)}
					out = append(out, l)
				}
			}
			if !mainHasRoot { // root import without any module root
				for _, im := range []Imp{{Form: Root, Name: "x"}, {Form: Root, Sub: main, Name: "y"}} {
					l := mk("F1", sent, main, 0)
					l.Bodies[l.MainKey()] = []Imp{im}
					out = append(out, l)
				}
			}
			// F2: main -> x@t1 -> leaf@t2
			for _, e1 := range mainEdges {
				_, t1HasRoot := base.RootOf(e1.to)
				for _, first := range sp.F2First {
					for _, e2 := range base.edges(e1.to) {
						for _, v := range sp.F2Leaf {
							l := mk("F2", sent, main, 0)
							l.Bodies[l.MainKey()] = []Imp{with(e1, first)}
							l.Bodies[path.Join(e1.to, "x")] = []Imp{with(e2, v)}
							out = append(out, l)
						}
					}
					if !t1HasRoot {
						l := mk("F2", sent, main, 0)
						l.Bodies[l.MainKey()] = []Imp{with(e1, first)}
						l.Bodies[path.Join(e1.to, "x")] = []Imp{{Form: Root, Name: "y"}}
						out = append(out, l)
					}
				}
			}
			// F3: two imports from main (same file by two spellings when they coincide), optionally
			// sharing a common leaf y@t3 (diamond)
			for i, e1 := range mainEdges {
				for j := i; j < len(mainEdges); j++ {
					e2 := mainEdges[j]
					second := Imp{Name: "x"}
					if j == i {
						second.Ext = true
					}
					commons := []string{"-"}
					commons = append(commons, sp.Dirs...)
					for _, t3 := range commons {
						l := mk("F3", sent, main, 0)
						l.Bodies[l.MainKey()] = []Imp{with(e1, Imp{Name: "x"}), with(e2, second)}
						if t3 != "-" {
							ok := true
							for _, t := range []string{e1.to, e2.to} {
								var pick *edge
								for _, e := range l.edges(t) { // prefer the root-relative spelling
									e := e
									if e.to == t3 && (pick == nil || e.form == Root) {
										pick = &e
									}
								}
								if pick == nil {
									ok = false
									break
								}
								l.Bodies[path.Join(t, "x")] = []Imp{with(*pick, Imp{Name: "y"})}
							}
							if !ok {
								continue
							}
						}
						out = append(out, l)
					}
				}
			}
			// F4: main -> x@t1 -> x@t2 -> leaf@t3 (t2 != t1: import cycles do not terminate in either mode)
			for _, e1 := range mainEdges {
				for _, e2 := range base.edges(e1.to) {
					if e2.to == e1.to {
						continue
					}
					for _, e3 := range base.edges(e2.to) {
						for _, v := range sp.F4Leaf {
							l := mk("F4", sent, main, 0)
							l.Bodies[l.MainKey()] = []Imp{with(e1, Imp{Name: "x"})}
							l.Bodies[path.Join(e1.to, "x")] = []Imp{with(e2, Imp{Name: "x"})}
							l.Bodies[path.Join(e2.to, "x")] = []Imp{with(e3, v)}
							out = append(out, l)
						}
					}
				}
			}
		}
	}
	return out
}
