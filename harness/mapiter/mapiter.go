// Package mapiter binds the Go-map iteration seam (an overlay of the toolchain's own
// internal/runtime/maps sources generated at build time, see env.sh gen_overlay_e3): map
// iteration offsets and per-map seeds become a stateless function of VERIF_MAPITER, so the
// same configuration enumerates every Go map identically in every process and different
// configurations enumerate them differently. Linked only into the vx7 driver.
package mapiter

import (
	"os"
	"strconv"
	_ "unsafe" // for go:linkname
)

//go:linkname verifIterKey internal/runtime/maps.VerifIterKey
var verifIterKey uint64

// Key is the configured map-iteration key (0 = seam not configured).
var Key uint64

func init() {
	Key, _ = strconv.ParseUint(os.Getenv("VERIF_MAPITER"), 10, 64)
	verifIterKey = Key
}
