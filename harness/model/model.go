// Package model is the reference model of arr.ai data: a value is a number, a tuple
// (finite map name -> value) or a finite set of values. Everything else (strings, arrays,
// bytes, dicts, relations, booleans) is sugar over sets of tuples. Operators are written
// from the documentation directly over this structure and kept deliberately boring.
package model

import (
	"math"
	"sort"
	"strconv"
	"strings"
)

type Kind byte

const (
	KNum Kind = iota
	KTuple
	KSet
)

type V struct {
	K     Kind
	N     float64
	Names []string // sorted
	Vals  []*V     // parallel to Names
	Mem   []*V     // sorted by Enc, distinct
	enc   string
}

func Num(f float64) *V {
	if f == 0 {
		f = 0 // -0 == 0
	}
	return &V{K: KNum, N: f}
}

// Tup builds a tuple from alternating name, value arguments.
func Tup(kv ...any) *V {
	m := map[string]*V{}
	for i := 0; i+1 < len(kv); i += 2 {
		m[kv[i].(string)] = kv[i+1].(*V)
	}
	return TupMap(m)
}

func TupMap(m map[string]*V) *V {
	t := &V{K: KTuple}
	for n := range m {
		t.Names = append(t.Names, n)
	}
	sort.Strings(t.Names)
	for _, n := range t.Names {
		t.Vals = append(t.Vals, m[n])
	}
	return t
}

func Set(members ...*V) *V {
	s := &V{K: KSet}
	l := append([]*V{}, members...)
	sort.Slice(l, func(i, j int) bool { return l[i].Enc() < l[j].Enc() })
	for i, m := range l {
		if i == 0 || m.Enc() != l[i-1].Enc() {
			s.Mem = append(s.Mem, m)
		}
	}
	return s
}

var Empty = Set()
var True = Set(Tup())

func Bool(b bool) *V {
	if b {
		return True
	}
	return Empty
}

func (v *V) Enc() string {
	if v.enc != "" {
		return v.enc
	}
	var sb strings.Builder
	switch v.K {
	case KNum:
		sb.WriteByte('N')
		if math.IsNaN(v.N) {
			sb.WriteString("NaN")
		} else {
			sb.WriteString(strconv.FormatFloat(v.N, 'g', -1, 64))
		}
	case KTuple:
		sb.WriteString("T(")
		for i, n := range v.Names {
			if i > 0 {
				sb.WriteByte(',')
			}
			sb.WriteString(strconv.Quote(n))
			sb.WriteByte('=')
			sb.WriteString(v.Vals[i].Enc())
		}
		sb.WriteByte(')')
	case KSet:
		sb.WriteString("S{")
		for i, m := range v.Mem {
			if i > 0 {
				sb.WriteByte(';')
			}
			sb.WriteString(m.Enc())
		}
		sb.WriteByte('}')
	}
	v.enc = sb.String()
	return v.enc
}

func Equal(a, b *V) bool { return a.Enc() == b.Enc() }

func (v *V) IsSet() bool   { return v.K == KSet }
func (v *V) IsTuple() bool { return v.K == KTuple }
func (v *V) IsNum() bool   { return v.K == KNum }
func (v *V) Count() int    { return len(v.Mem) }

func (v *V) Get(name string) (*V, bool) {
	for i, n := range v.Names {
		if n == name {
			return v.Vals[i], true
		}
	}
	return nil, false
}

func (v *V) Has(m *V) bool {
	e := m.Enc()
	i := sort.Search(len(v.Mem), func(i int) bool { return v.Mem[i].Enc() >= e })
	return i < len(v.Mem) && v.Mem[i].Enc() == e
}

func Union(a, b *V) *V { return Set(append(append([]*V{}, a.Mem...), b.Mem...)...) }

func Inter(a, b *V) *V {
	var out []*V
	for _, m := range a.Mem {
		if b.Has(m) {
			out = append(out, m)
		}
	}
	return Set(out...)
}

func Diff(a, b *V) *V {
	var out []*V
	for _, m := range a.Mem {
		if !b.Has(m) {
			out = append(out, m)
		}
	}
	return Set(out...)
}

func SymDiff(a, b *V) *V { return Union(Diff(a, b), Diff(b, a)) }

func With(a, m *V) *V { return Set(append(append([]*V{}, a.Mem...), m)...) }

func Without(a, m *V) *V { return Diff(a, Set(m)) }

func Subset(a, b *V) bool { // a (<=) b
	for _, m := range a.Mem {
		if !b.Has(m) {
			return false
		}
	}
	return true
}

func PowerSet(a *V) *V {
	n := len(a.Mem)
	var out []*V
	for mask := 0; mask < 1<<n; mask++ {
		var sub []*V
		for i := 0; i < n; i++ {
			if mask&(1<<i) != 0 {
				sub = append(sub, a.Mem[i])
			}
		}
		out = append(out, Set(sub...))
	}
	return Set(out...)
}

// Depth is the nesting depth (number 0, tuple/set 1 + max child).
func (v *V) Depth() int {
	d := 0
	for _, c := range v.Vals {
		if x := c.Depth() + 1; x > d {
			d = x
		}
	}
	for _, c := range v.Mem {
		if x := c.Depth() + 1; x > d {
			d = x
		}
	}
	return d
}

// ---- sugar ----

func seqTuple(attr string, i int, v *V) *V { return Tup("@", Num(float64(i)), attr, v) }

// Str is the denotation of a string with the given offset.
func Str(s string, offset int) *V {
	var m []*V
	for i, r := range []rune(s) {
		m = append(m, seqTuple("@char", offset+i, Num(float64(r))))
	}
	return Set(m...)
}

// Arr is the denotation of an array; nil items are holes.
func Arr(offset int, items ...*V) *V {
	var m []*V
	for i, it := range items {
		if it != nil {
			m = append(m, seqTuple("@item", offset+i, it))
		}
	}
	return Set(m...)
}

func Bytes(offset int, b ...byte) *V {
	var m []*V
	for i, x := range b {
		m = append(m, seqTuple("@byte", offset+i, Num(float64(x))))
	}
	return Set(m...)
}

func DictEntry(k, v *V) *V { return Tup("@", k, "@value", v) }

// SeqAttr reports, for a tuple of the form (@: n, X: v) with exactly two attributes, the
// payload attribute name.
func SeqAttr(t *V) (string, bool) {
	if t.K != KTuple || len(t.Names) != 2 || t.Names[0] != "@" {
		return "", false
	}
	return t.Names[1], true
}

// Src renders a model value as spelled-out arr.ai source (no sugar at all).
func Src(v *V) string {
	switch v.K {
	case KNum:
		return strconv.FormatFloat(v.N, 'g', -1, 64)
	case KTuple:
		parts := make([]string, len(v.Names))
		for i, n := range v.Names {
			parts[i] = AttrName(n) + ": " + Src(v.Vals[i])
		}
		return "(" + strings.Join(parts, ", ") + ")"
	}
	if len(v.Mem) == 0 {
		return "{}"
	}
	parts := make([]string, len(v.Mem))
	for i, m := range v.Mem {
		parts[i] = Src(m)
	}
	return "{" + strings.Join(parts, ", ") + "}"
}

func AttrName(n string) string {
	ok := n != ""
	for i, r := range n {
		if !(r == '_' || r == '@' && i == 0 || r >= 'a' && r <= 'z' || r >= 'A' && r <= 'Z' || i > 0 && r >= '0' && r <= '9') {
			ok = false
		}
	}
	if ok {
		return n
	}
	return strconv.Quote(n)
}

// Taint reports which known-broken regions of the value space a model value touches
// (anywhere inside it): "super" = a set holding two sequence elements (@item/@char/@byte)
// at the same index with different payloads (superimposed items), "multi" = a set holding
// two dictionary entries (@value) with the same key, "bytegap" = a set whose @byte elements
// do not occupy contiguous indices (byte arrays cannot hold holes). The implementation has no sound
// representation for either; failures on tainted inputs are grouped under one root cause.
func Taint(vs ...*V) string {
	super, multi, gap := false, false, false
	var walk func(v *V)
	walk = func(v *V) {
		if v == nil {
			return
		}
		for _, c := range v.Vals {
			walk(c)
		}
		if v.K != KSet {
			return
		}
		seen := map[string]string{}
		minB, maxB, nB := 1<<30, -(1 << 30), 0
		for _, m := range v.Mem {
			if attr, ok := SeqAttr(m); ok && attr == "@byte" && m.Vals[0].K == KNum {
				at := int(m.Vals[0].N)
				if at < minB {
					minB = at
				}
				if at > maxB {
					maxB = at
				}
				nB++
			}
		}
		if nB > 0 && maxB-minB+1 != nB {
			gap = true
		}
		for _, m := range v.Mem {
			walk(m)
			if attr, ok := SeqAttr(m); ok {
				switch attr {
				case "@item", "@char", "@byte", "@value":
					k := attr + "|" + m.Vals[0].Enc()
					if prev, dup := seen[k]; dup && prev != m.Vals[1].Enc() {
						if attr == "@value" {
							multi = true
						} else {
							super = true
						}
					}
					seen[k] = m.Vals[1].Enc()
				}
			}
		}
	}
	for _, v := range vs {
		walk(v)
	}
	var ts []string
	if super {
		ts = append(ts, "super")
	}
	if multi {
		ts = append(ts, "multi")
	}
	if gap && !super {
		ts = append(ts, "bytegap")
	}
	return strings.Join(ts, "+")
}
