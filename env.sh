# Sourced by check and setup.sh: offline Go environment, overlay generation, driver builds.
export GOFLAGS=-mod=mod GOPROXY=off
export VERIF_DIR=${VERIF:-/verif}
VERIF=${VERIF:-/verif}
REPO=${VERIF_REPO:-/repo}
export VERIF_REPO=$REPO
BUILD=$VERIF/.build
mkdir -p "$BUILD" "$VERIF/evidence" "$VERIF/replays"

driver_for() {
  case "$1" in
    C11|C17) echo vsx ;;
    *) echo vx ;;
  esac
}

# gen_overlay: hooks are add-only files injected with -overlay (nothing is written to /repo)
gen_overlay() {
  python3 - "$VERIF" "$REPO" > "$BUILD/overlay.json" <<'PY'
import json, sys, os, subprocess
verif, repo = sys.argv[1], sys.argv[2]
modcache = subprocess.check_output(["go", "env", "GOMODCACHE"], cwd=repo).decode().strip()
m = {
  repo + "/rel/zz_verif_shape.go": verif + "/hooks/rel_zz_verif_shape.go.txt",
  repo + "/rel/zz_verif_c18.go": verif + "/hooks/rel_zz_verif_c18.go.txt",
  # E3 seams: hash seeds of arr-ai/hash and of frozen's internal hash package become a function of $VERIF_HASH_SEED
  modcache + "/github.com/arr-ai/hash@v1.1.0/zz_verif_seed.go": verif + "/hooks/hash_zz_verif_seed.go.txt",
  modcache + "/github.com/arr-ai/frozen@v1.11.0/internal/pkg/hash/zz_verif_seed.go": verif + "/hooks/hash_zz_verif_seed.go.txt",
}
print(json.dumps({"Replace": m}, indent=1))
PY
}

build_driver() {
  gen_overlay || return 1
  case "$1" in
    vx)
      (cd "$VERIF/harness" && go build -tags verif -overlay "$BUILD/overlay.json" -o "$BUILD/vx" ./cmd/vx) ;;
    vsx)
      (cd "$VERIF/harness" && go build -tags verif -overlay "$BUILD/overlay.json" -o "$BUILD/vsx" ./cmd/vsx) ;;
  esac
}
