# Sourced by check and setup.sh: offline Go environment, overlay generation, driver builds.
export GOFLAGS=-mod=mod GOPROXY=off
export VERIF_DIR=${VERIF:-/verif}
VERIF=${VERIF:-/verif}
REPO=${VERIF_REPO:-/repo}
export VERIF_REPO=$REPO
BUILD=$VERIF/.build
mkdir -p "$BUILD" "$VERIF/evidence" "$VERIF/replays"

driver_for() {
  case "$1" in
    C11|C17) echo vsx ;;
    C07) echo vx7 ;;
    *) echo vx ;;
  esac
}

# gen_overlay: hooks are add-only files injected with -overlay (nothing is written to /repo)
gen_overlay() {
  python3 - "$VERIF" "$REPO" > "$BUILD/overlay.json" <<'PY'
import json, sys, os, subprocess
verif, repo = sys.argv[1], sys.argv[2]
modcache = subprocess.check_output(["go", "env", "GOMODCACHE"], cwd=repo).decode().strip()
m = {
  repo + "/rel/zz_verif_shape.go": verif + "/hooks/rel_zz_verif_shape.go.txt",
  repo + "/rel/zz_verif_c18.go": verif + "/hooks/rel_zz_verif_c18.go.txt",
  # E3 seams: hash seeds of arr-ai/hash and of frozen's internal hash package become a function of $VERIF_HASH_SEED
  modcache + "/github.com/arr-ai/hash@v1.1.0/zz_verif_seed.go": verif + "/hooks/hash_zz_verif_seed.go.txt",
  modcache + "/github.com/arr-ai/frozen@v1.11.0/internal/pkg/hash/zz_verif_seed.go": verif + "/hooks/hash_zz_verif_seed.go.txt",
}
print(json.dumps({"Replace": m}, indent=1))
PY
}

# gen_overlay_e2: the E2 overlay = base overlay + scheduler shim (virtual package under
# $REPO/pkg/zzverif) + the files under exploration rewritten from the CURRENT working tree.
gen_overlay_e2() {
  mkdir -p "$BUILD/e2"
  (cd "$VERIF/harness" && go build -o "$BUILD/vrewrite" ./cmd/vrewrite) || return 1
  "$BUILD/vrewrite" "$REPO/engine/engine.go" "$BUILD/e2/engine.go" || { echo "rewriter failed on engine.go"; return 1; }
  # every non-test file of arr.ai that imports "sync" is rebuilt against the scheduler-aware vsync shim
  # (pass-through outside an explored execution), so first-use contention on the lazily built state can be explored (C11)
  : > "$BUILD/e2/sync_files.txt"
  for f in $(cd "$REPO" && grep -l '"sync"' $(git ls-files '*.go' | grep -v _test.go | grep -v '^cmd/') 2>/dev/null); do
    out="$BUILD/e2/$(echo "$f" | tr / _)"
    "$BUILD/vrewrite" "$REPO/$f" "$out" sync || { echo "rewriter failed on $f"; return 1; }
    echo "$f $out" >> "$BUILD/e2/sync_files.txt"
  done
  # frozen's parallel fan-out (internal/pkg/depth/gauge.go: one goroutine + buffered channel per branch)
  MODCACHE=$(cd "$REPO" && go env GOMODCACHE)
  GAUGE="$MODCACHE/github.com/arr-ai/frozen@v1.11.0/internal/pkg/depth/gauge.go"
  "$BUILD/vrewrite" "$GAUGE" "$BUILD/e2/frozen_gauge.go" || { echo "rewriter failed on frozen gauge.go"; return 1; }
  echo "$GAUGE" > "$BUILD/e2/gauge_path.txt"
  python3 - "$VERIF" "$REPO" "$BUILD" > "$BUILD/overlay_e2.json" <<'PY'
import json, sys
verif, repo, build = sys.argv[1:4]
m = json.load(open(build + "/overlay.json"))["Replace"]
shim = repo + "/pkg/zzverif/vsched/"
for f in ("sched.go", "chan.go", "chan_generic.go"):
    m[shim + f] = verif + "/hooks/e2/vsched/" + f + ".txt"
m[shim + "vsync/vsync.go"] = verif + "/hooks/e2/vsched/vsync/vsync.go.txt"
m[repo + "/engine/engine.go"] = build + "/e2/engine.go"
for line in open(build + "/e2/sync_files.txt"):
    f, out = line.split()
    m[repo + "/" + f] = out
m[open(build + "/e2/gauge_path.txt").read().strip()] = build + "/e2/frozen_gauge.go"
m[repo + "/engine/zz_verif.go"] = verif + "/hooks/engine_zz_verif.go.txt"
m[repo + "/syntax/zz_verif_lazies.go"] = verif + "/hooks/syntax_zz_verif_lazies.go.txt"
print(json.dumps({"Replace": m}, indent=1))
PY
}

# gen_overlay_e3: base overlay + the toolchain's own map implementation patched so that iteration
# offsets and per-map seeds are a stateless function of a key (and the runtime's hash keys are fixed).
# Every patch asserts that its anchor occurs the expected number of times.
gen_overlay_e3() {
  mkdir -p "$BUILD/e3"
  python3 - "$BUILD" "$(cd "$REPO" && go env GOROOT)" > "$BUILD/overlay_e3.json" <<'PY' || return 1
import json, sys
build, goroot = sys.argv[1:3]
m = json.load(open(build + "/overlay.json"))["Replace"]
def patch(rel, edits, append=""):
    src = open(goroot + "/src/" + rel).read()
    for old, new, n in edits:
        if src.count(old) != n:
            sys.stderr.write("map-iteration seam: anchor %r occurs %d times in %s, expected %d\n" % (old, src.count(old), rel, n))
            sys.exit(1)
        src = src.replace(old, new)
    out = build + "/e3/" + rel.replace("/", "_")
    open(out, "w").write(src + append)
    m[goroot + "/src/" + rel] = out
patch("internal/runtime/maps/table.go",
      [("it.entryOffset = rand()", "it.entryOffset = VerifIterKey * 0x9E3779B97F4A7C15", 1),
       ("it.dirOffset = rand()", "it.dirOffset = VerifIterKey * 0xC2B2AE3D27D4EB4F", 1)],
      "\n// VerifIterKey fixes map iteration offsets and seeds (verification seam).\nvar VerifIterKey uint64\n")
patch("internal/runtime/maps/map.go", [("m.seed = uintptr(rand())", "m.seed = uintptr(VerifIterKey*0xD6E8FEB86659FD93 + 1)", 4)])
patch("runtime/alg.go",
      [("hashkey[i] = uintptr(bootstrapRand())", "hashkey[i] = uintptr(0x9E3779B97F4A7C15 * uint64(i+1))", 1),
       ("key[i] = bootstrapRand()", "key[i] = 0x9E3779B97F4A7C15 * uint64(i+1)", 1)])
print(json.dumps({"Replace": m}, indent=1))
PY
}

build_driver() {
  gen_overlay || return 1
  case "$1" in
    vx)
      (cd "$VERIF/harness" && go build -tags verif -overlay "$BUILD/overlay.json" -o "$BUILD/vx" ./cmd/vx) ;;
    vx7)
      gen_overlay_e3 || return 1
      (cd "$VERIF/harness" && go build -tags verif -overlay "$BUILD/overlay_e3.json" -ldflags=-checklinkname=0 -o "$BUILD/vx7" ./cmd/vx7) ;;
    vsx)
      gen_overlay_e2 || return 1
      (cd "$VERIF/harness" && GODEBUG=goindex=0 go build -race -tags verif -overlay "$BUILD/overlay_e2.json" \
         -gcflags='github.com/arr-ai/arrai/pkg/zzverif/...=-race=false -l' -o "$BUILD/vsx" ./cmd/vsx) ;;
  esac
}
