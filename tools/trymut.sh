#!/bin/bash
# trymut.sh <patch.diff> <ID> [tier]  -- apply a seeded change to /repo, run one check, undo it.
P=$1; ID=$2; TIER=${3:-quick}
cd /repo || exit 2
git diff --quiet || { echo "/repo has uncommitted changes"; exit 2; }
git apply "$P" || { echo "patch does not apply"; exit 2; }
trap 'git -C /repo checkout -- . ' EXIT
cd /verif && ./check "$ID" "$TIER" 2>&1 | grep -E "^(VIOLATION|BROKEN|$ID |  signature|  witness)" | head -${LINES_MAX:-12}
echo "exit=${PIPESTATUS[0]}"
