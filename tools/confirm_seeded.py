#!/usr/bin/env python3
"""Confirm seeded changes independently of the checks: for /tmp/mut/<ID>/out/m<k>.{diff,json,_demo_test.go}
 - the patch applies to the current /repo HEAD (scratch worktree under /tmp/confirm),
 - the demonstration FAILS with the patch and PASSES without it,
 - the pinned test suite still passes with the patch.
Writes /verif/seeded/<ID>-m<k>/{patch.diff,demo_test.go,meta.json}. Usage: confirm_seeded.py C01 C02 ..."""
import json, os, re, shutil, subprocess, sys
ENV = dict(os.environ, GOFLAGS='-mod=mod', GOPROXY='off')
MUT = os.environ.get('MUT', '/tmp/mut')      # directory holding <ID>/out/m<k>.*
TAG = os.environ.get('TAG', 'm')              # id infix: C01-m1 (first wave), C01-w2m1 (second wave)
def sh(cmd, cwd, timeout=900):
    p = subprocess.run(cmd, cwd=cwd, env=ENV, shell=True, stdout=subprocess.PIPE, stderr=subprocess.STDOUT, text=True, timeout=timeout)
    return p.returncode, p.stdout
for ID in sys.argv[1:]:
    for k in (1, 2):
        src = f'{MUT}/{ID}/out'
        diff, demo, meta = f'{src}/m{k}.diff', f'{src}/m{k}_demo_test.go', f'{src}/m{k}.json'
        over = f'/verif/seeded/{ID}-{TAG}{k}/patch.diff'
        if os.path.exists(over):   # an adapted patch (the original no longer applies after a fix commit) takes precedence
            diff = over
        mj = f'/verif/seeded/{ID}-{TAG}{k}/meta.json'
        if os.path.exists(mj) and json.load(open(mj)).get('confirmed'):
            print(ID, k, 'already confirmed'); continue
        if not (os.path.exists(diff) and os.path.exists(demo)):
            print(ID, k, 'MISSING files'); continue
        wt = f'/tmp/confirm/{ID}{TAG}{k}'
        sh(f'git -C /repo worktree remove --force {wt}', '/'); shutil.rmtree(wt, ignore_errors=True)
        rc, out = sh(f'git -C /repo worktree add --detach {wt} HEAD', '/')
        res = {'id': f'{ID}-{TAG}{k}', 'property': ID}
        try:
            m = json.load(open(meta)) if os.path.exists(meta) else {}
        except Exception:
            m = {}
        head = open(demo).read(300)
        mm = re.search(r'place in:\s*(\S+)', head)
        place = (mm.group(1) if mm else m.get('demo_place_in', 'syntax/')).strip('/')
        rc, out = sh(f'git apply --check {diff}', wt)
        if rc != 0:
            res['applies'] = False; res['note'] = out.strip()[:200]
            print(ID, k, 'PATCH DOES NOT APPLY to current HEAD:', out.strip()[:120])
        else:
            res['applies'] = True
            dst = f'{wt}/{place}/zz_seeded_demo_test.go'
            shutil.copy(demo, dst)
            pkg = './' + place
            tests = re.findall(r'^func (Test\w+)\(', open(demo).read(), re.M)
            runarg = "-run '^(" + "|".join(tests) + ")$'" if tests else ""
            rc0, out0 = sh(f'go test -vet=off -count=1 {runarg} {pkg} 2>&1 | grep -E "^(--- FAIL|FAIL|ok|panic)" | head -5', wt)
            res['demo_without'] = 'passes' if ('ok' in out0 and 'FAIL' not in out0) else 'FAILS: ' + out0.strip()[:200]
            sh(f'git apply {diff}', wt)
            rc1, out1 = sh(f'go test -vet=off -count=1 {runarg} {pkg} 2>&1 | grep -E "^(--- FAIL|FAIL|ok|panic)" | head -5', wt)
            res['demo_with'] = 'fails' if 'FAIL' in out1 or 'panic' in out1 else 'PASSES (not a demonstration): ' + out1.strip()[:200]
            os.remove(dst)
            rc2, out2 = sh(f'python3 /verif/tools/suite.py {wt} | tail -3', wt, timeout=1800)
            res['suite_with'] = 'passes' if 'not passing: 0' in out2 else 'FAILS: ' + out2.strip()[:300]
            ok = res['demo_without'] == 'passes' and res['demo_with'] == 'fails' and res['suite_with'] == 'passes'
            res['confirmed'] = ok
            print(ID, k, 'confirmed' if ok else 'NOT CONFIRMED', res)
            d = f'/verif/seeded/{ID}-{TAG}{k}'
            os.makedirs(d, exist_ok=True)
            if diff != over:
                shutil.copy(diff, f'{d}/patch.diff')
            shutil.copy(demo, f'{d}/demo_test.go')
            meta_out = {'id': res['id'], 'breaks_property': ID, 'summary': m.get('summary', ''), 'needs_to_manifest': m.get('needs_to_manifest', m.get('what_it_needs_to_manifest', '')),
                        'demo_place_in': place, 'what_was_run': {'demo_without_patch': res['demo_without'], 'demo_with_patch': res['demo_with'], 'pinned_suite_with_patch': res['suite_with']},
                        'confirmed': ok, 'origin': 'written by an independent sub-agent given only the property text and a scratch worktree'}
            json.dump(meta_out, open(f'{d}/meta.json', 'w'), indent=1)
        sh(f'git -C /repo worktree remove --force {wt}', '/'); shutil.rmtree(wt, ignore_errors=True)
