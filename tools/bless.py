#!/usr/bin/env python3
"""Maintenance tool, run by hand only (never by a check): turns the *new* signatures of the
last run of a check (evidence/<ID>.json) into candidate known-finding lines, using a table
of (regex on signature -> what, root cause). Lines without a matching rule are printed as
UNEXPLAINED and not written: every finding must be reviewed and attributed before it is
recorded. Usage: bless.py <ID> [--write]"""
import json, re, sys
ID = sys.argv[1]
write = '--write' in sys.argv
rules = []
for l in open('/verif/tools/bless_rules.tsv'):
    l = l.rstrip('\n')
    if not l or l.startswith('#'): continue
    prop, rx, rc, what = l.split('\t')
    if prop in (ID, '*'):
        rules.append((re.compile(rx), rc, what))
ev = json.load(open(f'/verif/evidence/{ID}.json'))
out = []
for v in ev['coverage']['new_violations']:
    sig = v['signature']
    for rx, rc, what in rules:
        if rx.search(sig):
            out.append({"property": ID, "signature": sig, "what": what, "witness": v['witness'][:300], "root_cause": rc})
            break
    else:
        print("UNEXPLAINED:", v['cases'], sig, '|', v['witness'][:160])
print(len(out), "explained")
if write and out:
    with open('/verif/known_findings.jsonl', 'a') as f:
        for o in out:
            f.write(json.dumps(o, ensure_ascii=False) + '\n')
    print("appended to known_findings.jsonl")
