#!/usr/bin/env python3
"""Run the pinned test suite in a checkout of arr-ai/arrai and compare with the pinned
list of stable-pass tests (/root/.vp/BASELINE.json). Usage: suite.py [DIR]  (default /repo)
exit 0 iff every stable-pass test passed."""
import json, os, subprocess, sys
d = sys.argv[1] if len(sys.argv) > 1 else '/repo'
base = json.load(open('/root/.vp/BASELINE.json'))
want = set(base['stable_pass'])
env = dict(os.environ, GOFLAGS='-mod=mod', GOPROXY='off')
p = subprocess.run(['go', 'test', '-json', '-vet=off', '-count=1', '-timeout', '25m', './...'], cwd=d, env=env,
                   stdout=subprocess.PIPE, stderr=subprocess.STDOUT, text=True)
res = {}
build_fail = []
for line in p.stdout.splitlines():
    try:
        ev = json.loads(line)
    except Exception:
        continue
    if ev.get('Action') in ('pass', 'fail', 'skip') and ev.get('Test'):
        res[ev['Package'] + '::' + ev['Test']] = ev['Action']
    if ev.get('Action') == 'fail' and not ev.get('Test'):
        build_fail.append(ev.get('Package'))
bad = sorted(t for t in want if res.get(t) != 'pass')
print(f"stable-pass tests: {len(want)}; passed now: {len(want) - len(bad)}; not passing: {len(bad)}")
for t in bad[:40]:
    print("  NOT PASSING:", t, res.get(t, 'missing'))
sys.exit(1 if bad else 0)
