#!/bin/bash
# mkwork.sh <ID>: private copy of the harness and of the repository for building one check
# (/root/work/<ID>/verif and /root/work/<ID>/repo); nothing in /verif or /repo is touched.
ID=$1; W=/root/work/$ID
rm -rf "$W"; mkdir -p "$W"
rsync -a --exclude .git --exclude .build --exclude replays --exclude .design-spikes --exclude seeded /verif/ "$W/verif/"
git -C /repo worktree add --detach "$W/repo" HEAD >/dev/null 2>&1
(cd "$W/verif/harness" && GOFLAGS=-mod=mod GOPROXY=off go mod edit -replace github.com/arr-ai/arrai="$W/repo")
cat > "$W/verif/local.env" <<EOF
export VERIF_REPO=$W/repo
EOF
sed -i "s|^\. \"\$VERIF/env.sh\"|[ -f \"\$VERIF/local.env\" ] \&\& . \"\$VERIF/local.env\"\n. \"\$VERIF/env.sh\"|" "$W/verif/check" "$W/verif/setup.sh"
echo "$W ready"
