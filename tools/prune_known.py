#!/usr/bin/env python3
"""Maintenance tool (manual): prune_known.py <ID> <log-or-evidence files...>
Keeps, for property ID, only the known-finding lines whose signature fired in at least one of the
given runs (check logs with KNOWN-FINDING lines, or evidence JSON files); other properties untouched.
Used after a `fix:` commit so that a repaired defect is no longer suppressed."""
import json, re, sys
ID = sys.argv[1]
fired = set()
for f in sys.argv[2:]:
    txt = open(f, errors='replace').read()
    if txt.lstrip().startswith('{'):
        for k in json.loads(txt)['coverage']['known_findings']:
            fired.add(k['signature'])
    else:
        # signatures may themselves contain brackets: look each known signature up literally
        for line in open('/verif/known_findings.jsonl'):
            if line.startswith('{'):
                k = json.loads(line)
                if k['property'] == ID and re.search(r'^KNOWN-FINDING: property=%s .* \[%s\] \(\d+ cases' % (ID, re.escape(k['signature'])), txt, re.M):
                    fired.add(k['signature'])
out, dropped = [], 0
for line in open('/verif/known_findings.jsonl'):
    s = line.strip()
    if s.startswith('{'):
        k = json.loads(s)
        if k['property'] == ID and k['signature'] not in fired:
            dropped += 1
            continue
    out.append(line)
open('/verif/known_findings.jsonl', 'w').writelines(out)
print(f"{ID}: fired {len(fired)} signatures; dropped {dropped} stale lines")
