#!/usr/bin/env python3
"""Print one line per evidence file: id, tier, evaluations, states, transitions, known findings, exhaustive (for the table in DESIGN.md §0.2)."""
import json, glob
for f in sorted(glob.glob('/verif/evidence/C*.json')):
    d = json.load(open(f)); c = d['coverage']
    kf = c.get('known_findings') or []
    print(d.get('property_id', f[-8:-5]), d.get('tier', '?'), 'evals=%s' % c.get('evaluations'), 'states=%s' % c.get('states'),
          'transitions=%s' % c.get('transitions'), 'known=%d' % len(kf), 'exhaustive=%s' % c.get('exhaustive'), 'caps=%d' % len(c.get('caps_hit') or []))
