#!/bin/bash
# setup_cmd: build the drivers once (warms the Go build cache), offline.
set -e
cd "$(dirname "$(readlink -f "$0")")"
VERIF=$(pwd)
. "$VERIF/env.sh"
build_driver vx
build_driver vsx
build_driver vx7
echo "setup ok"
