#!/usr/bin/env python3-vt
"""Regenerates MANIFEST.json from the table below (single source of truth) and validates it."""
import json, sys

BASE_OFF = "cd /repo && GOFLAGS=-mod=mod GOPROXY=off go test -mod=mod -json -vet=off -count=1 -timeout 25m ./..."

CHECKS = {
 "C14": dict(level="exploration", engine="E1", ref="§5 C14",
   technique="bounded-exhaustive enumeration of all small sequences x patterns x 10 functions x 3 encodings on the real //seq implementation, against a textbook reference",
   text="Every //seq function is run on the implementation for every subject/pattern over small alphabets (where overlaps are forced) in all three encodings and compared with the textbook result; exhaustive within the stated length bounds, so any disagreement inside the bound is found, none outside it is claimed.",
   note="Reference = Go strings package on a private alphabet; lengths beyond the bound, element values beyond {1,2,3} and offset/sparse arrays as inputs are outside this check (the latter are exercised for crashes by C10)."),
}

CHECKS["C01"] = dict(level="model_checking", engine="E1", ref="§2.1, §5 C01",
   technique="explicit-state search over reachable value representations on the real implementation (states = distinct concrete representations, transitions = set-algebra operators applied to live values), every transition compared with a reference model of finite sets and every state checked for self-consistency",
   text="Breadth-first search whose states are the distinct Go representations of data values (every construction path of every set of <=2 (quick) / <=3 (thorough) members over a 36-member alphabet with forced index/key collisions, plus operator results) and whose transitions are | & &~ ~~, the 12 subset comparisons, with/without/<:/!<:, count, where, => and ^ applied to live values; each result is compared by denotation with the model and re-checked for self-consistency (count = members, Has agrees with enumeration). Exhaustive within the stated universe and generation bound.",
   note="Values outside the alphabet and beyond the generation bound are not covered; in the quick tier generation 1 is restricted to one state per (shape class, producing operator). Failures inside three known-broken regions (superimposed items, multi-valued dict keys, byte arrays with gaps) are grouped per region, so a change that only adds failures of an already listed kind inside such a region is not distinguished.")

CHECKS["C02"] = dict(level="model_checking", engine="E1", ref="§5 C02",
   technique="explicit-state search over reachable value representations; every ordered pair of states is tested for a = b, set collapse and membership against equality of denotations, and every pair of twins for identical hash, repr, dict-key behaviour and operator results",
   text="States are the distinct Go representations of data values reached from every construction path of every set of <=2 members over the member alphabet, sugar literals, tuples built by +> and :>, and one generation of operator results. For every ordered pair, a = b, a != b, {a,b} count and b <: {a} must agree with equality of denotations; twins must hash and print identically, select the same dict entry and give denotation-equal results under 11 binary operators on either side against every small third operand. Exhaustive over the stated space.",
   note="Relations with more than two attributes and join-produced column orders are covered by C04's equality oracle, not here; the quick tier expands one generation-1 state per (shape class, operator) and uses the first 60 third operands.")

CHECKS["C03"] = dict(level="model_checking", engine="E1", ref="§5 C03",
   technique="exhaustive exploration of branching operation histories (depth 2, every ordered pair of 57 derivations from every state of the reachable-representation space) on live values, with a full representation dump of every live value re-compared after every step",
   text="For every non-empty state p of the representation space and every ordered pair (d1,d2) of 57 derivations (with/removal at and beyond both ends, ++, |, >>, =>, offsets, joins adding 1-2 columns, //seq helpers, ...rest patterns): c1=d1(p), c2=d2(p), c3=d2(c1); the dumps (slices, offsets, capacity flags, rows, headings) of p, c1 and the four most recent results must be unchanged after every step, and `let`-bound names must denote the same value before and after sibling derivations. Any change is a violation; no expected values are needed.",
   note="History depth is 2 (parent, child, grandchild/sibling) and only the four most recent siblings are re-checked; storage not visible in the dump (frozen's internal nodes) is trusted.")

CHECKS["C05"] = dict(level="exploration", engine="E1", ref="§5 C05",
   technique="bounded-exhaustive enumeration of calls, ?: fallbacks, >> / >>> transformers, ++ and offsets over every state of the reachable-representation space (every representation of every small keyed collection), compared with a reference model on the denoted set of (@,x) pairs",
   text="Operands are all states of the representation space (every construction path of every set of <=2 members over the member alphabet with forced key collisions, offsets, holes, non-sugar keyed relations, plus one generation of operator results). For every state: x(k) and x(k)?:d for every key present and 10 fixed arguments (absent, non-integer, wrong kind), 3 >> and 2 >>> transformers, n\\x for n in -2..2 and 0.5, and a ++ b for every ordered pair of states; results are compared with the model (unique value for the key, error for none/several, fallback exactly for none; keys unchanged by >>; ++ shifts the right operand by count(left); offsets shift every key).",
   note="States that are not sets of (@,x) pairs are only checked for crashes. Transformer results that are not representable as char/byte may be an error or a generic tuple. Failures inside the known-broken regions (superimposed items, multi-valued keys, byte gaps) are grouped per region.")
CHECKS["C13"] = dict(level="exploration", engine="E1", ref="§5 C13",
   technique="bounded-exhaustive enumeration of a finite document grammar, all small CSV matrices/texts, all small bit sets/integers and the U2 value universe on the real codecs, each case decided by re-parsing with Go's reference parsers (encoding/json, yaml.v3, encoding/csv) and comparing denotations",
   text="Every JSON/YAML document of a stated finite grammar (scalars incl. all strings of length <=2 over 12 runes, arrays/objects of <=2 (quick) / <=3 (thorough) children to depth 3 with empty containers, empty and duplicate keys, plus JSON-only and YAML-only spellings) is decoded, re-encoded, re-parsed by the reference parser and re-decoded in strict and lax mode; every state of the U2 representation space is given to the strict encoders (reject, or decode(encode v) = v up to strict tags) and to rel.MarshalToJSON/UnmarshalFromJSON; every r x c string matrix (r,c<=2 / <=3) and every CSV text of length <=5 / <=7 over 6 characters is round-tripped and compared with encoding/csv; //bits.mask and //bits.set are compared with integer arithmetic on every subset of {0..12} and of ten positions up to 52 and every integer up to 4096 / 2^17 plus the neighbours of 2^31..2^53. Exhaustive within these bounds; nothing is sampled.",
   note="The wire format is observed at rel.MarshalToJSON/UnmarshalFromJSON, not through a running gRPC server. Reference parsers are Go's own libraries (yaml.v3 and encoding/csv are also what the implementation uses). Integers beyond 2^53 are compared as float64. 51 known-finding signatures (14 root causes) are recorded; further differences of an already listed kind (lax-mode empty-kind collapse, plain sets on the wire or in the strict encoders) are not distinguished. Encoder formatting options, multi-document YAML, XML/xlsx/proto are out of scope.")
CHECKS["C15"] = dict(level="exploration", engine="E1", ref="§5 C15",
   technique="bounded-exhaustive enumeration of source-tree layouts (sentinel sets x main position x import graphs x import spellings x cwd/main-path spellings) over an in-memory file system behind a recording wrapper; every layout is evaluated from source, bundled and run as a bundle on the real implementation and compared with a reference model of import resolution",
   text="Every layout of six families (go.mod content variants; one import over every relative/root-relative edge x 10 target kinds and spellings; chains of two and three; two imports incl. one file by two spellings and diamonds; ten exotic directory names) over the directories {/, a, 'a b', a/b} (thorough + a/'a b') with go.mod at every subset of {/, a, a/b} (thorough {/, a, 'a b', a/b}) and main.arrai in every directory is evaluated from source and bundled under 4 (cwd, main-path spelling) configurations with the worker really chdir-ing, and each distinct archive is run from 3 working directories. Value or failure kind must equal the reference model and the sources; archives must be identical across configurations and contain, byte for byte, every file the source run opened; while a bundle runs, the recording file system installed as source and runtime fs must see no operation, and a recording http transport no request. Exhaustive within these bounds (6076 layouts / 42k evaluations quick, 32319 / 333k thorough).",
   note="cmd/arrai (package main) is mirrored over pkg/bundle.BundledScriptsTo, syntax.EvaluateExpr and syntax.EvaluateBundleCtx, not executed; Go-module and URL imports, Windows path handling, import cycles, syntax-error bodies, depth >2 and >4 files per import path are outside the check; accesses inside the archive are not logged, only the absence of host accesses. In the quick tier the multi-file families run under 2 of the 4 configurations.")
CHECKS["C16"] = dict(level="exploration", engine="E1", ref="§5 C16",
   technique="bounded-exhaustive enumeration of import path strings x importer configurations and of all import graphs over <=3 files on the real compiler with a recording universal-decoy afero file system; deadlock decided structurally from the evaluating goroutine's stack (parked in importCache.getOrAdd's Cond.Wait), not by a timeout",
   text="For every local import string prefix{./,/,.//,'./ ',' ./',' /'} + <=3 segments over {. .. ... .... a b '' ' ' ' ..' '.. ' ..a a..} (thorough: 4 segments over 10 of them) from scripts at depth 0-2 of three module layouts, spelled absolute, relative or bare, everything opened or stat'ed must lie under the module root (own directory without a module), plain spellings must read exactly their POSIX target, every import must yield the same value alone and paired with any representative spelling in one evaluation, every 3-file import graph acyclic from the main script must evaluate to the model value in all 8 placement/spelling variants and every cyclic one must return an error rather than block.",
   note="Exhaustive over the stated alphabet and graph sizes only; MemMapFs stands in for the OS; cyclic graphs run in 1 (quick) / 3 (thorough) of 8 variants; pair consistency over <=14/24 representative spellings per configuration; concurrent users of one import cache are covered by C11, not here.")
CHECKS["C18"] = dict(level="model_checking", engine="E1", ref="§5 C18",
   technique="explicit-state reachability search over sandbox capability states: every construct of a small source grammar (all // paths of the full library, names, closures/let, calls of obtained safe functions, nested //eval.* and imports to depth 2/3) is executed through the real //eval.evaluator(cfg).eval under 66/246 configurations and decided against a tuple-lookup model of the context plus an identity walk for unsafe native functions and recording file-system/HTTP observers",
   text="For every sandbox configuration enumerated (stdlib absent, (), each single member of the full library, safe library minus one member; scope none / value / safe function / //os.file / tuple with //eval) and every source text of the grammar up to nesting depth 2 (quick) / 3 (thorough): a // reference must resolve exactly to the member of the given library or fail, scope names resolve to what was given, closures and let do not change that, no result may contain a file-reading, network or command-execution function that was not passed in, no file may be opened and no HTTP request attempted.",
   note="Bounded: grammar alphabet and nesting depth as stated; states identified by the resolution of all top-level // names and scope names; configuration-independent states are expanded once under a designated configuration; unsafe functions are identified by Go symbol/name (hook rel.VerifNativeFnSym) and never invoked. Four known defect families are reported on every run (//eval.value and imported text fall back to the full library; import syntax inside the sandbox reads host files / issues HTTP GETs; the safe library contains //deprecated.exec).")
CHECKS["C19"] = dict(level="fault_enumeration", engine="E1", ref="§5 C19",
   technique="bounded-exhaustive enumeration of output dictionaries x prior directory states through the real arrai.OutputValue on an instrumented in-memory file system, whole-file-system snapshot compared with a reference spec(prior, dict); then an I/O error injected at the i-th file-system call for every i (every pair in thorough) and a read-only run",
   text="Every output dictionary of depth <=2 built from 6 keys (valid names, ../ escapes, '', non-string) and 104 entry values (all value kinds, config tuples with every ifExists value incl. invalid ones and every file/dir combination, invalid members at every position) is written against 6 (quick) / 8 (thorough) prior states of PATH; the complete file system inside and outside PATH is compared with a state-independent reference model (described tree combined by the ifExists rules, or error and no change when the description is invalid or a 'fail' rule refuses); file: mode for all result kinds and flag spellings. For every case the run is repeated with EIO injected at each file-system call (each pair of calls in thorough) and on a read-only file system, and must then return an error. Exhaustive within these bounds.",
   note="File system = afero.MemMapFs behind a wrapper adding the POSIX path-resolution errors MemMapFs omits. Validity rules are taken from docs/docs/cli/eval.md; keys containing '/' and the key '.' are not in the alphabet because neither the property nor the docs define them (the repository's tests use 'bar/baz' as a nested path); dir-onto-file is treated as a conflict (only an error is demanded, or nothing when no file is described). Failures are shrunk to minimal descriptions and grouped by reason class, so a new defect that only adds cases of an already listed class is not distinguished, and fault judgement is suspended on cases whose fault-free behaviour already deviates. Deeper/wider dictionaries, permissions, symlinks, partial writes and the CLI flag parsing itself are outside.")
CHECKS["C20"] = dict(level="exploration", engine="E1", ref="§5 C20",
   technique="bounded-exhaustive enumeration of test result trees (24 container construction paths x 12 leaf spellings, depth <=3 quick / <=4 thorough) and of directory layouts (<=3/<=4 files x 12 path slots x 6 contents x 5 targets) on the real pkg/test runner, each run's parsed report and returned error compared with a leaf census computed by a reference model from the denotation of the evaluated value",
   text="Every result tree of the bounded grammar is built through every construction path and given to the real runner (test.RunExpr + test.Report for the value-level family, test.RunTests on an in-memory file system for the source-level and layout families); the run must fail exactly when the model's census has a leaf that is not the literal true (or a discovered file cannot be evaluated / none is discovered), every leaf must be reported once under its path with its outcome, and the summary counts must add up to the model's leaves. Exhaustive within the stated bounds.",
   note="The large tree space enters the runner behind the compiler (values composed from compiled forms, because parsing costs 5-20 ms per file); only ~900 (quick) / ~8,800 (thorough) trees and all layouts go through RunTests end to end. Hidden/dot targets, cwd targets, exotic dictionary keys/attribute names, report order and message texts are outside; files whose parse error wbnf renders in exponential time (empty file, unbalanced brackets) are excluded.")

CHECKS["C09"] = dict(level="exploration", engine="E1", ref="§5 C09",
   technique="bounded-exhaustive enumeration of a pattern grammar x pattern-directed value neighbourhoods on the real evaluator (let, function-parameter, cond positions), decided by a structural reference matcher written from the property text",
   text="For every pattern of the bounded grammar (literals, names with all repetition configurations, _, (expr), arrays/tuples/dicts/sets nested to depth 2 quick / 3 thorough, ... / ...rest at every position, ?:fallbacks) and every value among its instances under all small bindings, their one-step neighbours (two levels deep) and a 65-value universe, let, function call and cond must agree with each other and with the reference matcher: match iff exactly one binding rebuilds the value, bindings equal, ...rest the exact remainder, fallbacks only for absent components, non-match = error / next arm; two-arm cond must pick the first arm that matches on its own with only that arm's bindings (all ordered pairs of 129/231 patterns); the 71 documentation examples must give their documented results. Exhaustive within the stated bounds (6 582 patterns / 2.19 M evaluations quick, 28 422 / 12.95 M thorough).",
   note="Three areas the property and docs leave open accept either outcome (components next to a fallback without `...`, set patterns larger than the set, set patterns with more than one open element). 34 signatures (13 root causes: array offsets/holes ignored, repeated names compared by String(), set patterns with structured/string/computed elements, dict patterns on multi-valued or empty dicts, fallbacks counted as `...`) are recorded as known findings; coarse known signatures mask same-class regressions. Dynamic names, byte/relation patterns, sparse patterns and let rec are not enumerated.")
CHECKS["C10"] = dict(level="exploration", engine="E1", ref="§5 C10 (a),(b)",
   technique="bounded-exhaustive enumeration of all short token sequences, corpus truncations/deletions and all operator/stdlib applications over a kind alphabet on the real compiler and evaluator, each run under recover() and a watchdog; the deciding method is crash/hang observation (panic site signature), no reference values are needed",
   text="Every sequence of <=3 tokens over a 41-token (thorough 60; length 4 over 24) alphabet of grammar terminals and malformed prefixes, every byte prefix and single-byte deletion of a 107-program corpus, every unary/binary/ternary operator form and every function of the safe standard library (curried, <=3 arguments) applied to every operand tuple over 20 (thorough 27) value kinds including ill-typed ones, is compiled and evaluated through syntax.EvaluateExpr / Expr.Eval and its value or error is reported as `arrai eval` does; any panic, fatal error or watchdog expiry is a failure identified by its panic site. Exhaustive within these bounds: a crash reachable by such an input is found; 71 crash sites (34 root causes) of the pinned tree are recorded as known findings and any other site is a violation.",
   note="Inputs beyond the bounds are not covered (about 60 of ~166 panic sites are reached). A new crash at a known site with the same message class is not distinguished. Grammar-level errors are rendered for one input only because rendering them is itself a recorded defect (exponential time in wbnf). The worker has no network, no executables and an empty in-memory file system; //os, //net, //log, //deprecated and the recursion combinators are not applied; import graphs/cycles (part c) belong to another check; hang detection uses a 20 s watchdog.")

NOT_YET = {
}

def main():
    props = [json.loads(l) for l in open('/verif/properties.jsonl')]
    checks = []
    for p in props:
        c = CHECKS.get(p['id'])
        if not c: continue
        checks.append({
            "property_id": p['id'],
            "quick_cmd": f"./check {p['id']} quick",
            "thorough_cmd": f"./check {p['id']} thorough",
            "evidence_file": f"/verif/evidence/{p['id']}.json",
            "replay_cmd_template": f"./check {p['id']} replay {{path}}",
            "engine": c['engine'],
            "level_claimed": {"category": c['level'], "text": c['text'], "design_ref": c['ref']},
            "level_note": c['note'],
            "technique": c['technique'],
        })
    na = [{"property_id": p['id'], "reason": NOT_YET.get(p['id'], "check not built yet in this session (design in DESIGN.md §5); will be claimed once its driver exists")}
          for p in props if p['id'] not in CHECKS]
    m = {
     "version": 1,
     "setup_cmd": "./setup.sh",
     "hooks": {
       "guard": "verif",
       "enable": "go build -tags verif -overlay /verif/.build/overlay.json (hooks are add-only files under /verif/hooks injected by -overlay; nothing is committed to /repo for instrumentation)",
       "baseline_off_cmd": BASE_OFF,
       "source_commits": [],
       "add_only": True,
     },
     "engines": [
       {"name": "E1", "path": "/verif/harness/cmd/vx", "serves_properties": [k for k,v in CHECKS.items() if v['engine']=="E1"],
        "kind_free_text": "bounded-exhaustive enumeration / explicit-state search over reachable representations on the real implementation, sharded over worker subprocesses, reference model in Go"},
       {"name": "E2", "path": "/verif/harness/cmd/vsx", "serves_properties": [k for k,v in CHECKS.items() if v['engine']=="E2"],
        "kind_free_text": "stateless exploration of the real concurrent code under a controlled cooperative scheduler (iterative preemption bounding), Go race detector as per-schedule oracle"},
     ],
     "checks": checks,
     "not_applicable": na,
     "notes": "See DESIGN.md. Known findings (genuine defects recorded, not repaired) are in known_findings.jsonl; 'fix:' commits in /repo are listed there as 'fixed:' lines.",
    }
    json.dump(m, open('/verif/MANIFEST.json','w'), indent=1)
    try:
        import jsonschema
        jsonschema.validate(m, json.load(open('/root/.vp/MANIFEST.schema.json')))
        print("MANIFEST.json valid;", len(checks), "checks;", len(na), "not claimed")
    except ImportError:
        print("jsonschema not available; written unvalidated")

if __name__ == '__main__':
    main()
