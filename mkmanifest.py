#!/usr/bin/env python3-vt
"""Regenerates MANIFEST.json from the table below (single source of truth) and validates it."""
import json, sys

BASE_OFF = "cd /repo && GOFLAGS=-mod=mod GOPROXY=off go test -mod=mod -json -vet=off -count=1 -timeout 25m ./..."

CHECKS = {
 "C14": dict(level="exploration", engine="E1", ref="§5 C14",
   technique="bounded-exhaustive enumeration of all small sequences x patterns x 10 functions x 3 encodings on the real //seq implementation, against a textbook reference",
   text="Every //seq function is run on the implementation for every subject/pattern over small alphabets (where overlaps are forced) in all three encodings and compared with the textbook result; exhaustive within the stated length bounds, so any disagreement inside the bound is found, none outside it is claimed.",
   note="Reference = Go strings package on a private alphabet; lengths beyond the bound, element values beyond {1,2,3} and offset/sparse arrays as inputs are outside this check (the latter are exercised for crashes by C10)."),
}

CHECKS["C01"] = dict(level="model_checking", engine="E1", ref="§2.1, §5 C01",
   technique="explicit-state search over reachable value representations on the real implementation (states = distinct concrete representations, transitions = set-algebra operators applied to live values), every transition compared with a reference model of finite sets and every state checked for self-consistency",
   text="Breadth-first search whose states are the distinct Go representations of data values (every construction path of every set of <=2 (quick) / <=3 (thorough) members over a 36-member alphabet with forced index/key collisions, plus operator results) and whose transitions are | & &~ ~~, the 12 subset comparisons, with/without/<:/!<:, count, where, => and ^ applied to live values; each result is compared by denotation with the model and re-checked for self-consistency (count = members, Has agrees with enumeration). Exhaustive within the stated universe and generation bound.",
   note="Values outside the alphabet and beyond the generation bound are not covered; in the quick tier generation 1 is restricted to one state per (shape class, producing operator). Failures inside three known-broken regions (superimposed items, multi-valued dict keys, byte arrays with gaps) are grouped per region, so a change that only adds failures of an already listed kind inside such a region is not distinguished.")

CHECKS["C02"] = dict(level="model_checking", engine="E1", ref="§5 C02",
   technique="explicit-state search over reachable value representations; every ordered pair of states is tested for a = b, set collapse and membership against equality of denotations, and every pair of twins for identical hash, repr, dict-key behaviour and operator results",
   text="States are the distinct Go representations of data values reached from every construction path of every set of <=2 members over the member alphabet, sugar literals, tuples built by +> and :>, and one generation of operator results. For every ordered pair, a = b, a != b, {a,b} count and b <: {a} must agree with equality of denotations; twins must hash and print identically, select the same dict entry and give denotation-equal results under 11 binary operators on either side against every small third operand. Exhaustive over the stated space.",
   note="Relations with more than two attributes and join-produced column orders are covered by C04's equality oracle, not here; the quick tier expands one generation-1 state per (shape class, operator) and uses the first 60 third operands.")

CHECKS["C03"] = dict(level="model_checking", engine="E1", ref="§5 C03",
   technique="exhaustive exploration of branching operation histories (depth 2, every ordered pair of 57 derivations from every state of the reachable-representation space) on live values, with a full representation dump of every live value re-compared after every step",
   text="For every non-empty state p of the representation space and every ordered pair (d1,d2) of 57 derivations (with/removal at and beyond both ends, ++, |, >>, =>, offsets, joins adding 1-2 columns, //seq helpers, ...rest patterns): c1=d1(p), c2=d2(p), c3=d2(c1); the dumps (slices, offsets, capacity flags, rows, headings) of p, c1 and the four most recent results must be unchanged after every step, and `let`-bound names must denote the same value before and after sibling derivations. Any change is a violation; no expected values are needed.",
   note="History depth is 2 (parent, child, grandchild/sibling) and only the four most recent siblings are re-checked; storage not visible in the dump (frozen's internal nodes) is trusted.")

NOT_YET = {
}

def main():
    props = [json.loads(l) for l in open('/verif/properties.jsonl')]
    checks = []
    for p in props:
        c = CHECKS.get(p['id'])
        if not c: continue
        checks.append({
            "property_id": p['id'],
            "quick_cmd": f"./check {p['id']} quick",
            "thorough_cmd": f"./check {p['id']} thorough",
            "evidence_file": f"/verif/evidence/{p['id']}.json",
            "replay_cmd_template": f"./check {p['id']} replay {{path}}",
            "engine": c['engine'],
            "level_claimed": {"category": c['level'], "text": c['text'], "design_ref": c['ref']},
            "level_note": c['note'],
            "technique": c['technique'],
        })
    na = [{"property_id": p['id'], "reason": NOT_YET.get(p['id'], "check not built yet in this session (design in DESIGN.md §5); will be claimed once its driver exists")}
          for p in props if p['id'] not in CHECKS]
    m = {
     "version": 1,
     "setup_cmd": "./setup.sh",
     "hooks": {
       "guard": "verif",
       "enable": "go build -tags verif -overlay /verif/.build/overlay.json (hooks are add-only files under /verif/hooks injected by -overlay; nothing is committed to /repo for instrumentation)",
       "baseline_off_cmd": BASE_OFF,
       "source_commits": [],
       "add_only": True,
     },
     "engines": [
       {"name": "E1", "path": "/verif/harness/cmd/vx", "serves_properties": [k for k,v in CHECKS.items() if v['engine']=="E1"],
        "kind_free_text": "bounded-exhaustive enumeration / explicit-state search over reachable representations on the real implementation, sharded over worker subprocesses, reference model in Go"},
       {"name": "E2", "path": "/verif/harness/cmd/vsx", "serves_properties": [k for k,v in CHECKS.items() if v['engine']=="E2"],
        "kind_free_text": "stateless exploration of the real concurrent code under a controlled cooperative scheduler (iterative preemption bounding), Go race detector as per-schedule oracle"},
     ],
     "checks": checks,
     "not_applicable": na,
     "notes": "See DESIGN.md. Known findings (genuine defects recorded, not repaired) are in known_findings.jsonl; 'fix:' commits in /repo are listed there as 'fixed:' lines.",
    }
    json.dump(m, open('/verif/MANIFEST.json','w'), indent=1)
    try:
        import jsonschema
        jsonschema.validate(m, json.load(open('/root/.vp/MANIFEST.schema.json')))
        print("MANIFEST.json valid;", len(checks), "checks;", len(na), "not claimed")
    except ImportError:
        print("jsonschema not available; written unvalidated")

if __name__ == '__main__':
    main()
