#!/usr/bin/env python3-vt
"""Regenerates MANIFEST.json from the table below (single source of truth) and validates it."""
import json, sys

BASE_OFF = "cd /repo && GOFLAGS=-mod=mod GOPROXY=off go test -mod=mod -json -vet=off -count=1 -timeout 25m ./..."

CHECKS = {
 "C14": dict(level="exploration", engine="E1", ref="§5 C14",
   technique="bounded-exhaustive enumeration of all small sequences x patterns x 10 functions x 3 encodings on the real //seq implementation, against a textbook reference",
   text="Every //seq function is run on the implementation for every subject/pattern over small alphabets (where overlaps are forced) in all three encodings and compared with the textbook result; exhaustive within the stated length bounds, so any disagreement inside the bound is found, none outside it is claimed.",
   note="Reference = Go strings package on a private alphabet; lengths beyond the bound, element values beyond {1,2,3} and offset/sparse arrays as inputs are outside this check (the latter are exercised for crashes by C10)."),
}

CHECKS["C01"] = dict(level="model_checking", engine="E1", ref="§2.1, §5 C01",
   technique="explicit-state search over reachable value representations on the real implementation (states = distinct concrete representations, transitions = set-algebra operators applied to live values), every transition compared with a reference model of finite sets and every state checked for self-consistency",
   text="Breadth-first search whose states are the distinct Go representations of data values (every construction path of every set of <=2 (quick) / <=3 (thorough) members over a 36-member alphabet with forced index/key collisions, plus operator results) and whose transitions are | & &~ ~~, the 12 subset comparisons, with/without/<:/!<:, count, where, => and ^ applied to live values; each result is compared by denotation with the model and re-checked for self-consistency (count = members, Has agrees with enumeration). Exhaustive within the stated universe and generation bound.",
   note="Values outside the alphabet and beyond the generation bound are not covered; in the quick tier generation 1 is restricted to one state per (shape class, producing operator). Failures inside three known-broken regions (superimposed items, multi-valued dict keys, byte arrays with gaps) are grouped per region, so a change that only adds failures of an already listed kind inside such a region is not distinguished.")

NOT_YET = {
}

def main():
    props = [json.loads(l) for l in open('/verif/properties.jsonl')]
    checks = []
    for p in props:
        c = CHECKS.get(p['id'])
        if not c: continue
        checks.append({
            "property_id": p['id'],
            "quick_cmd": f"./check {p['id']} quick",
            "thorough_cmd": f"./check {p['id']} thorough",
            "evidence_file": f"/verif/evidence/{p['id']}.json",
            "replay_cmd_template": f"./check {p['id']} replay {{path}}",
            "engine": c['engine'],
            "level_claimed": {"category": c['level'], "text": c['text'], "design_ref": c['ref']},
            "level_note": c['note'],
            "technique": c['technique'],
        })
    na = [{"property_id": p['id'], "reason": NOT_YET.get(p['id'], "check not built yet in this session (design in DESIGN.md §5); will be claimed once its driver exists")}
          for p in props if p['id'] not in CHECKS]
    m = {
     "version": 1,
     "setup_cmd": "./setup.sh",
     "hooks": {
       "guard": "verif",
       "enable": "go build -tags verif -overlay /verif/.build/overlay.json (hooks are add-only files under /verif/hooks injected by -overlay; nothing is committed to /repo for instrumentation)",
       "baseline_off_cmd": BASE_OFF,
       "source_commits": [],
       "add_only": True,
     },
     "engines": [
       {"name": "E1", "path": "/verif/harness/cmd/vx", "serves_properties": [k for k,v in CHECKS.items() if v['engine']=="E1"],
        "kind_free_text": "bounded-exhaustive enumeration / explicit-state search over reachable representations on the real implementation, sharded over worker subprocesses, reference model in Go"},
       {"name": "E2", "path": "/verif/harness/cmd/vsx", "serves_properties": [k for k,v in CHECKS.items() if v['engine']=="E2"],
        "kind_free_text": "stateless exploration of the real concurrent code under a controlled cooperative scheduler (iterative preemption bounding), Go race detector as per-schedule oracle"},
     ],
     "checks": checks,
     "not_applicable": na,
     "notes": "See DESIGN.md. Known findings (genuine defects recorded, not repaired) are in known_findings.jsonl; 'fix:' commits in /repo are listed there as 'fixed:' lines.",
    }
    json.dump(m, open('/verif/MANIFEST.json','w'), indent=1)
    try:
        import jsonschema
        jsonschema.validate(m, json.load(open('/root/.vp/MANIFEST.schema.json')))
        print("MANIFEST.json valid;", len(checks), "checks;", len(na), "not claimed")
    except ImportError:
        print("jsonschema not available; written unvalidated")

if __name__ == '__main__':
    main()
